"""C13 Distance kernels: validation, bounds, prange ownership, zeroing,
wrapper discipline, formula shape, metric registry.

The constructs are located by ROLE (positional parameters, the object that is
returned, the store into the output buffer, the call to a kernel, the guard
whose raising side cannot reach the return) and compared after expansion of
temporaries and canonicalisation, so the rules are independent of local names,
of which sub-expressions carry a name, of operand order of symmetric
comparisons, of if/else versus guard-clause form and of statement order where
that order does not matter.  Every content comparison is three-valued:
recognised and right -> discharged; recognised and wrong (another pure
function of the same operands, a guard that is absent with nothing unexplained
in its place) -> VIOLATION; not recognised -> ANALYSIS-INCOMPLETE."""
import ast
import copy
import os
import re

from ..cfg import ENTRY, EXIT, Assume, stmt_defs
from ..core import (AnalysisIncomplete, Module, _canon_tree, call_name, const_value, kwarg,
                    names_loaded, params, target_names, u, walk_expr, walk_local)
from ..cykernel import (Kernel, check_bounds, check_elem_type_temps,
                        check_prange, check_zero_before_accumulate,
                        norm_extent)
from ..match import canon, match
from ..normal import MUTATING_METHODS, PURE_FUNCS, is_pure
from ..patterns import Cmp, calls_in, conjuncts, finfo, returns_of

LD = 'enspara/geometry/libdist.pyx'
CU = 'enspara/cluster/util.py'
# public entry points (metric name -> conventional private kernel name).  The private
# helpers are found by ROLE (discover): a kernel is a module function with typed-buffer
# parameters that an entry point calls, the preparation step is the module function whose
# result an entry point hands to a kernel as its output buffer.  The conventional names
# are only the fall-back when nothing is discovered.
WRAPPERS = {'hamming': '_hamming', 'manhattan': '_manhattan', 'euclidean': '_euclidean'}
PREP_DEFAULT = '_prepare_for_2d_to_1d_distance'

EXPLANATION = (
    'Static decision, on Cython\'s own parse tree of libdist.pyx (kernels = the '
    'typed-buffer functions the three public entry points call, preparation '
    'step = the function whose result they hand to the kernel as out), of: (D0) the '
    'six validation facts (rank of X, rank of y, width, out dtype, out length, '
    'out rank) are each established by a guard whose failing side ends in a '
    'raise (directly or inside a module helper that is called), on every path '
    'to a return of the preparation step (the out facts on every path that '
    'returns the caller\'s buffer), and the default buffer is a 1-D float64 '
    'allocation of n_samples cells made only when out is None and made by this very call '
    '(reaching definitions of the returned object followed through plain copies: an object a '
    'module-level variable holds on entry is shared between calls; C13.D0.validation.alloc.fresh); (D1) every '
    'typed-buffer subscript in the boundscheck(False) kernels is in range in '
    'every dimension (loop ranges vs extents through equalities harvested from '
    'cdef initialisers and asserts); (D2) inside prange each iteration writes '
    'only out[i] and reads no cell another iteration writes; (D3) out[i] is '
    'stored before it is accumulated into; (D4) the wrappers hand (X, y) and '
    'the validated/allocated buffer to the right kernel, the kernel call lies '
    'on every path to the return, and the very same buffer object is returned; '
    '(D5) per metric every accumulation into out[i] adds the right term of '
    'X[i, j] and y[j] over the full feature range for every row, initial '
    'stores write 0 and never follow the accumulation, the finishing store '
    '(sqrt / division by n_features) is applied exactly once per cell after '
    'the accumulation, no element-typed temporary holds an arithmetic '
    'result, and every arithmetic operation of the euclidean / manhattan term '
    'has a double operand (C usual arithmetic conversions: a difference or '
    'square of two cells of the element type is computed in that type - int32/'
    'int64 wrap, float32 rounds/overflows - and only the result is widened; '
    'C13.D5.formula.widen), no typecast / C-typed temporary / C-typed parameter of an inlined cdef helper narrows a value '
    'on its way into the term (.narrowing), a running value kept in a C scalar local is judged as the cell it is stored to '
    'and must be a double (.accumulator-type), every return of a kernel lies behind the accumulation unless there is no row '
    '(.exit), and the hamming comparison is carried out in a C type that '
    'represents every value of every specialisation of the fused element type (casts, '
    'C-typed temporaries and the usual arithmetic conversions followed per specialisation: '
    'int64/uint64 through double or any narrower type makes different elements compare '
    'equal; C13.D5.formula.exact-compare); (D6) metric names map to the right kernels (decision list of '
    '_get_distance_method evaluated per name; a function the registry defines itself to adapt a foreign routine '
    'forwards its (data, target) parameters and the metric name into the matching slots of that routine: '
    'C13.D6.registry.adapter). Floating-point exactness and '
    'memory layouts are delegated to Cython typed-buffer indexing (no raw '
    'pointers: checked).')

# ---------------------------------------------------------------------------
# front-end extension (candidate for promotion to sa/pyxfront.py)
#
# sa/pyxfront.py adapts the Cython parse tree node type by node type and refuses
# a module that contains a node type it has no adapter for.  Two constructs that
# may legitimately appear in libdist.pyx are adapted here so that the rules get to
# see such a module at all (parsing only - nothing is compiled or run):
#   * `global n` / `nonlocal n`       -> ast.Global / ast.Nonlocal
#   * `cdef [inline] T f(T1 a, ...) [nogil]: body`  -> FunctionDef with cy_cdef=True,
#     cy_argtypes, cy_return, cy_nogil.  A C-typed scalar parameter converts its
#     argument to the declared type at the call and `return e` converts e to the
#     declared return type; both conversions are written out as typecasts on the
#     reads of the parameter / on the returned expression (identities inside the
#     function), so that a rule - or the helper inliner, which substitutes arguments
#     for parameters textually - never loses a conversion.

class _Shim:
    pass


def _c_scalar(t):
    """CyType of a C arithmetic scalar (a conversion happens at the binding)."""
    return t is not None and not t.is_buffer and not getattr(t, 'pointer', False) and _ctype_info(t.text) is not None


class _WrapParams(ast.NodeTransformer):
    def __init__(self, types):
        self.types = types

    def visit_Name(self, n):
        if isinstance(n.ctx, ast.Load) and n.id in self.types:
            c = ast.Call(func=ast.Name(id='__cy_cast__', ctx=ast.Load()),
                         args=[ast.Constant(value=self.types[n.id]), n], keywords=[])
            return ast.copy_location(c, n)
        return n

    def visit_FunctionDef(self, n):
        return n

    visit_Lambda = visit_FunctionDef


def _x_global(self, cy):
    return ast.Global(names=[str(x) for x in cy.names])


def _x_nonlocal(self, cy):
    return ast.Nonlocal(names=[str(x) for x in cy.names])


def _x_cfuncdef(self, cy):
    d = cy.declarator
    while type(d).__name__ != 'CFuncDeclaratorNode':
        if type(d).__name__ != 'CNameDeclaratorNode' and hasattr(d, 'base'):
            d = d.base
        else:
            self._unsupported(cy)
    if getattr(d, 'has_varargs', False) or getattr(cy, 'overridable', False) or cy.body is None:
        self._unsupported(cy)
    sh = _Shim()
    sh.args, sh.name, sh.star_arg, sh.starstar_arg, sh.body, sh.pos = d.args, self._declname(d.base), None, None, cy.body, cy.pos
    fn = self.s_DefNode(sh)
    fn.cy_cdef = True
    fn.cy_nogil = bool(getattr(d, 'nogil', False))
    fn.cy_inline = 'inline' in (getattr(cy, 'modifiers', None) or [])
    try:
        fn.cy_return = self.cytype(cy.base_type)
    except AnalysisIncomplete:
        fn.cy_return = None
    if type(cy.declarator).__name__ != 'CFuncDeclaratorNode':
        fn.cy_return = None               # pointer / reference result
    rebound = {t for n in ast.walk(fn) for t in ([n.id] if isinstance(n, ast.Name) and isinstance(n.ctx, (ast.Store, ast.Del)) else [])}
    types = {p: t.text for p, t in fn.cy_argtypes.items() if _c_scalar(t) and p not in rebound}
    if types:
        fn.body = [_WrapParams(types).visit(s) for s in fn.body]
    if _c_scalar(fn.cy_return):
        for n in ast.walk(fn):
            if isinstance(n, ast.Return) and n.value is not None:
                n.value = ast.copy_location(ast.Call(func=ast.Name(id='__cy_cast__', ctx=ast.Load()),
                                                     args=[ast.Constant(value=fn.cy_return.text), n.value], keywords=[]), n.value)
    return fn


def _axis_text(self, ax):
    def part(x):
        if x is None or type(x).__name__ == 'NoneNode':
            return ''
        v = getattr(x, 'value', None)
        return str(v) if v is not None else self._type_expr_text(x)
    if type(ax).__name__ != 'SliceNode':
        return part(ax)
    st = part(getattr(ax, 'step', None))
    return '%s:%s' % (part(getattr(ax, 'start', None)), part(getattr(ax, 'stop', None))) + (':' + st if st else '')


def _x_cytype(self, base_type, declarator=None):
    """The front end's cytype plus
      * `const T` / `volatile T` (CQualifierTypeNode): the qualifier does not change the values of T; it is
        recorded as `.const` on the CyType;
      * typed memoryviews `T[:, :]`, `const T[:, ::1]` (MemoryViewSliceTypeNode): a buffer type (element type,
        ndim = number of axes) with `.memview = True`, `.const` (element type const-qualified: the buffer is
        acquired WITHOUT PyBUF_WRITABLE; a non-const slice requests a writable buffer whether or not the function
        ever stores through it) and `.axes` (the axis specifications as written; an axis with a step, `::1` /
        `::view.contiguous`, demands contiguity in that dimension);
      * the `mode=` keyword of the legacy buffer syntax np.ndarray[T, ndim=2, mode='c'] (recorded as `.mode`:
        'c' / 'fortran' / 'full' refuse every other layout; 'strided', the default, accepts all)."""
    from ..pyxfront import CyType
    tn = type(base_type).__name__
    if tn == 'CQualifierTypeNode' or tn in ('CConstTypeNode', 'CConstOrVolatileTypeNode'):
        t = self.cytype(base_type.base_type)
        if getattr(base_type, 'is_const', tn == 'CConstTypeNode'):
            t.const = True
            if not t.text.startswith('const '):
                t.text = 'const ' + t.text
        return t
    if tn == 'MemoryViewSliceTypeNode':
        et = self.cytype(base_type.base_type_node)
        if et.is_buffer or getattr(et, 'pointer', False):
            self._unsupported(base_type)
        elem = et.text[6:] if et.text.startswith('const ') else et.text
        axes = [_axis_text(self, a) for a in base_type.axes]
        t = CyType('memoryview', elem=elem, ndim=len(axes), text='%s[%s]' % (et.text, ', '.join(axes)))
        t.memview, t.const, t.axes = True, bool(getattr(et, 'const', False)), axes
        return t
    t = self._base_cytype(base_type, declarator)
    if tn == 'TemplatedTypeNode' and base_type.keyword_args is not None:
        for item in base_type.keyword_args.key_value_pairs:
            if getattr(item.key, 'value', None) == 'mode':
                t.mode = str(getattr(item.value, 'value', '?'))
                t.text = t.text[:-1] + ', mode=%r]' % t.mode if t.text.endswith(']') else t.text
    return t


def _adapter_class():
    from .. import pyxfront

    class AdapterX(pyxfront._Adapter):
        _base_cytype = pyxfront._Adapter.cytype
        cytype = _x_cytype
    for name, f in (('s_GlobalNode', _x_global), ('s_NonlocalNode', _x_nonlocal), ('s_CFuncDefNode', _x_cfuncdef)):
        if not hasattr(pyxfront._Adapter, name):          # once promoted, the front end's own adapter is used
            setattr(AdapterX, name, f)
    return AdapterX


_EXTRA_NODES = ('GlobalNode', 'NonlocalNode', 'CFuncDefNode', 'MemoryViewSliceTypeNode', 'CQualifierTypeNode',
                'CConstTypeNode', 'CConstOrVolatileTypeNode')


def parse_pyx_x(path, rel):
    """sa.pyxfront.parse_pyx with the additional adapters above."""
    from .. import pyxfront
    ad = _adapter_class()(rel)
    tree = ad.module(pyxfront._cy_parse(path, rel))
    ast.fix_missing_locations(tree)
    return tree


def load_libdist(repo):
    """repo.mod(LD); when the front end refused the file only because of a
    construct adapted above, the file is parsed again with the extended
    adapter and put through the same normalisation as every other module."""
    try:
        return repo.mod(LD)
    except AnalysisIncomplete:
        err = str(dict(repo.errors).get(LD) or '')
        if 'unsupported Cython construct' not in err or not any(t in err for t in _EXTRA_NODES):
            raise
    path = os.path.join(repo.root, LD)
    try:
        with open(path, encoding='utf-8') as f:
            src = f.read()
        tree = _canon_tree(parse_pyx_x(path, LD))
    except AnalysisIncomplete:
        raise
    except Exception as e:
        raise AnalysisIncomplete('anchor file %s missing or unparsable (%r)' % (LD, e))
    repo.errors = [x for x in repo.errors if x[0] != LD]
    repo.modules[LD] = Module(LD, src, tree, 'pyx')
    if LD not in repo.units:
        repo.units.append(LD)
    if os.environ.get('VERIF_NO_RENAME') != '1':
        repo._normalise(LD)
    _type_inlined_bindings(repo, repo.modules[LD])
    return repo.modules[LD]


_INLINE_TAG = re.compile(r'^(.+)__i\d+$')


def _type_inlined_bindings(repo, mod):
    """The helper inliner (sa/inline.py) binds a non-trivial argument to a fresh
    temporary `<param>__iN = <argument>` and copies the helper's own statements
    with its locals renamed `<local>__iN`.  When the helper is a cdef function
    these are C variables of the declared type (the parameter of a C function is
    a C local of the callee: thread-private, converted at the binding); the
    declarations are carried over to the caller so that the kernel rules judge
    them as what they are."""
    for fname, helpers in (getattr(repo, 'inlined', {}).get(LD) or {}).items():
        fn = mod.functions.get(fname)
        if fn is None or not hasattr(fn, 'cy_locals'):
            continue
        cands = {}
        for h in helpers:
            hf = mod.functions.get(h)
            if hf is None or not getattr(hf, 'cy_cdef', False):
                continue
            for p, t in list(hf.cy_argtypes.items()) + list(hf.cy_locals.items()):
                cands.setdefault(p, set()).add(t.text)
                cands.setdefault((p, t.text), t)
        for n in ast.walk(fn):
            if isinstance(n, ast.AnnAssign) and hasattr(n, 'cy_type') and isinstance(n.target, ast.Name):
                fn.cy_locals.setdefault(n.target.id, n.cy_type)
        for n in ast.walk(fn):
            if isinstance(n, ast.Assign) and len(n.targets) == 1 and isinstance(n.targets[0], ast.Name):
                nm = n.targets[0].id
                m = _INLINE_TAG.match(nm)
                if m and nm not in fn.cy_locals and nm not in fn.cy_argtypes and len(cands.get(m.group(1), ())) == 1:
                    fn.cy_locals[nm] = cands[(m.group(1), next(iter(cands[m.group(1)])))]


PARAM_ONLY = frozenset({'PARAM'})
_ORDER_OPS = (ast.Eq, ast.NotEq, ast.Lt, ast.LtE, ast.Gt, ast.GtE)
# exact spellings of the float64 dtype
F64 = {'np.float64', 'numpy.float64', 'np.double', 'np.float_', 'float', "'float64'", "'f8'", "'d'",
       "'double'", "np.dtype('float64')", 'np.dtype(np.float64)', 'np.dtype(float)', "np.dtype('f8')"}
# C locals through which a value passes unchanged (no narrowing)
WIDE = {'double', 'np.float64_t', 'np.double_t', 'np.npy_float64', 'np.npy_double', 'long double'}
CMATH = {'fabs', 'sqrt', 'pow', 'abs'}
_NEUTRAL = {'np', 'numpy', 'len', 'int', 'float', 'abs', 'min', 'max', 'sum', 'tuple', 'list', 'bool',
            'True', 'False', 'None', 'range', 'str'}
# calls that read only the shape of their argument / that return the argument itself or a no-copy view of it
_SHAPE_READS = {'len', 'np.shape', 'np.ndim', 'np.size', 'numpy.shape', 'numpy.ndim', 'numpy.size'}
_ALIASING_READS = {'np.asarray', 'np.asanyarray', 'numpy.asarray', 'numpy.asanyarray'}
ALLOCATORS = {'np.zeros', 'np.empty', 'np.ones', 'numpy.zeros', 'numpy.empty', 'numpy.ones'}


# ---------------------------------------------------------------------------
# helpers (candidates for promotion to sa/cfg.py / sa/patterns.py)

def _pure_expr(v, pure=()):
    """is_pure, with calls to the given bare names (C math functions declared
    `nogil` in a cdef extern block) treated as pure."""
    if not pure:
        return is_pure(v)

    class T(ast.NodeTransformer):
        def visit_Call(self, n):
            self.generic_visit(n)
            if isinstance(n.func, ast.Name) and n.func.id in pure:
                return ast.Tuple(elts=list(n.args), ctx=ast.Load())
            return n
    return is_pure(T().visit(copy.deepcopy(v)))


def _closed(node, scope, pure=()):
    """`node` is a pure function of the names in `scope` only (a *different
    function of the same operands* when it is not an accepted form)."""
    if not isinstance(node, ast.AST) or not _pure_expr(node, pure):
        return False
    for x in ast.walk(node):
        if isinstance(x, ast.Name) and x.id not in scope and x.id not in _NEUTRAL and x.id not in pure:
            return False
    return True


def _is_shape_tuple(v):
    """`A.shape` / `np.shape(A)`: an expression whose value is a tuple (iteration
    order == index order, immutable)."""
    if isinstance(v, ast.Attribute) and v.attr == 'shape':
        return True
    if isinstance(v, ast.Call) and len(v.args) == 1 and not v.keywords:
        if call_name(v) in ('np.shape', 'numpy.shape'):
            return True
        if call_name(v) in ('tuple', 'list'):
            return _is_shape_tuple(v.args[0])
    return False


def _unpacked_component(site, name):
    """`a, b = T` with T a shape tuple: the value bound to the k-th target is
    T[k] (the unpacking additionally raises when len(T) differs from the number
    of targets; that only removes executions).  None when `name` is not bound
    that way by `site`."""
    if not isinstance(site, ast.Assign) or len(site.targets) != 1:
        return None
    t = site.targets[0]
    if not isinstance(t, (ast.Tuple, ast.List)) or not _is_shape_tuple(site.value):
        return None
    if not all(isinstance(e, ast.Name) for e in t.elts):
        return None
    ids = [e.id for e in t.elts]
    if ids.count(name) != 1:
        return None
    src = site.value
    while isinstance(src, ast.Call) and call_name(src) in ('tuple', 'list'):
        src = src.args[0]                 # the components of tuple(T) / list(T) are those of T
    return ast.copy_location(ast.Subscript(value=src, slice=ast.Constant(value=ids.index(name)),
                                           ctx=ast.Load()), site.value)


class Expander:
    """FuncInfo.expand with (a) extra call names known to be pure, (b) a
    filter on the temporaries that may be seen through (C locals whose type
    does not change the value), (c) a record of the reaching definitions of
    every leaf name (`leaf[name]` = set of frozensets of definition sites), so
    that a caller can demand "this operand is the unmodified parameter"."""

    def __init__(self, fi, pure=(), temp_ok=None, stop=()):
        self.fi = fi
        self.pure = set(pure)
        self.temp_ok = temp_ok
        self.stop = set(stop)
        self.leaf = {}

    def temp_value(self, n):
        fi = self.fi
        if not (isinstance(n, ast.Name) and isinstance(n.ctx, ast.Load)) or n.id in self.stop:
            return None
        if self.temp_ok is not None and not self.temp_ok(n.id):
            return None
        try:
            defs = fi.defs_of_use(n)
        except Exception:
            return None
        if len(defs) != 1:
            return None
        site = next(iter(defs))
        if site in ('PARAM', 'UNBOUND') or not isinstance(site, (ast.Assign, ast.AnnAssign)):
            return None
        v = fi.def_value(site, n.id)
        if v is None:
            v = _unpacked_component(site, n.id)
        if v is None or isinstance(v, ast.GeneratorExp) or not _pure_expr(v, self.pure):
            return None
        if fi._mutated_in_place(n.id):
            return None
        use = fi.stmt(n)
        for m in walk_expr(v):
            if not (isinstance(m, ast.Name) and isinstance(m.ctx, ast.Load)):
                continue
            if fi.rd.defs_at(site, m.id) != fi.rd.defs_at(use, m.id):
                return None
            for ms in fi._mutated_in_place(m.id):
                if ms is use or ms is site:
                    continue
                if fi.cfg.reachable(site, ms, avoiding=[use]) and fi.cfg.reachable(ms, use, avoiding=[site]):
                    return None
        return v

    def expand(self, e, depth=8):
        if isinstance(e, ast.Name):
            if isinstance(e.ctx, ast.Load):
                v = self.temp_value(e) if depth > 0 else None
                if v is not None:
                    return self.expand(v, depth - 1)
                try:
                    ds = frozenset(self.fi.defs_of_use(e))
                except Exception:
                    ds = frozenset()
                self.leaf.setdefault(e.id, set()).add(ds)
            return ast.copy_location(ast.Name(id=e.id, ctx=e.ctx), e)
        if not isinstance(e, ast.AST):
            return e
        if isinstance(e, (ast.expr_context, ast.operator, ast.unaryop, ast.boolop, ast.cmpop)):
            return e
        new = type(e)()
        for f in e._fields:
            val = getattr(e, f, None)
            if isinstance(val, list):
                setattr(new, f, [self.expand(x, depth) for x in val])
            elif isinstance(val, ast.AST):
                setattr(new, f, self.expand(val, depth))
            else:
                setattr(new, f, val)
        for a in ('lineno', 'col_offset', 'end_lineno', 'end_col_offset'):
            if hasattr(e, a):
                setattr(new, a, getattr(e, a))
        return new

    def param_only(self, *names):
        """Every leaf use of the given names denotes the unmodified parameter."""
        return all(self.leaf.get(n, set()) <= {PARAM_ONLY} for n in names)


class _Ext(ast.NodeTransformer):
    """Canonical spelling of extents of ndarrays: len(A) -> A.shape[0],
    A.ndim / np.ndim(A) -> len(A.shape), np.shape(A) -> A.shape,
    A.shape[-k] -> A.shape[rank-k] for arrays of validated rank."""

    def __init__(self, ranks):
        self.ranks = ranks

    @staticmethod
    def _shape(a):
        return ast.Attribute(value=a, attr='shape', ctx=ast.Load())

    def visit_Call(self, n):
        self.generic_visit(n)
        cn = call_name(n)
        if n.keywords or len(n.args) != 1:
            return n
        a = n.args[0]
        if cn == 'len' and isinstance(a, ast.Name):
            return ast.Subscript(value=self._shape(a), slice=ast.Constant(value=0), ctx=ast.Load())
        if cn in ('np.ndim', 'numpy.ndim'):
            return ast.Call(func=ast.Name(id='len', ctx=ast.Load()), args=[self._shape(a)], keywords=[])
        if cn in ('np.shape', 'numpy.shape'):
            return self._shape(a)
        if cn == 'tuple' and isinstance(a, ast.Attribute) and a.attr == 'shape':
            return a                      # .shape is a tuple already
        return n

    def visit_Attribute(self, n):
        self.generic_visit(n)
        if n.attr == 'ndim' and isinstance(n.value, ast.Name) and n.value.id not in ('np', 'numpy'):
            return ast.Call(func=ast.Name(id='len', ctx=ast.Load()), args=[self._shape(n.value)], keywords=[])
        return n

    def visit_Subscript(self, n):
        self.generic_visit(n)
        v = n.value
        if isinstance(v, ast.Attribute) and v.attr == 'shape' and isinstance(v.value, ast.Name) \
                and v.value.id in self.ranks:
            c = const_value(n.slice)
            if isinstance(c, int) and not isinstance(c, bool) and c < 0 and self.ranks[v.value.id] + c >= 0:
                return ast.Subscript(value=v, slice=ast.Constant(value=self.ranks[v.value.id] + c), ctx=n.ctx)
        return n


def _xt(e, ranks=None):
    n = _Ext(ranks or {}).visit(copy.deepcopy(e))
    ast.fix_missing_locations(n)
    return u(canon(n))


class _Subst(ast.NodeTransformer):
    def __init__(self, m):
        self.m = m

    def visit_Name(self, n):
        if n.id in self.m and isinstance(n.ctx, ast.Load):
            return copy.deepcopy(self.m[n.id])
        return n


def _real_nodes(fi):
    return [s for s in fi.cfg.nodes if s not in (ENTRY, EXIT) and not isinstance(s, Assume)]


def _rebinds(fi, name):
    """Statements that (re)bind the local `name`."""
    return [s for s in _real_nodes(fi) if name in stmt_defs(s)]


def _clean_raises(fi):
    """Raise statements that leave the function (not caught by a handler)."""
    return [s for s in fi.cfg.nodes if isinstance(s, ast.Raise) and fi.cfg.succ.get(s) == [EXIT]]


def _assumes(fi, ifnode):
    t = f = None
    for s in fi.cfg.succ.get(ifnode, []):
        if isinstance(s, Assume) and s.owner is ifnode:
            if s.polarity:
                t = s
            else:
                f = s
    return t, f


def _only_none_tests(test):
    """The test is a boolean combination of `name is [not] None` only."""
    for n in ast.walk(test):
        if isinstance(n, (ast.BoolOp, ast.boolop, ast.expr_context, ast.Name, ast.cmpop, ast.unaryop)):
            continue
        if isinstance(n, ast.UnaryOp) and isinstance(n.op, ast.Not):
            continue
        if isinstance(n, ast.Constant) and n.value is None:
            continue
        if isinstance(n, ast.Compare) and len(n.ops) == 1 and isinstance(n.ops[0], (ast.Is, ast.IsNot)) \
                and isinstance(n.left, ast.Name) and isinstance(n.comparators[0], ast.Constant) \
                and n.comparators[0].value is None:
            continue
        return False
    return True


def _swallowed(fi, st):
    """An exception raised at statement `st` may be caught inside the function."""
    return any(isinstance(x, ast.ExceptHandler) for x in fi.cfg.succ.get(st, []))


def _call_binding(h, c):
    """parameter name -> argument expression of call c to function h (None if
    the call cannot be mapped positionally/by keyword)."""
    ps = params(h)
    if any(isinstance(a, ast.Starred) for a in c.args) or any(k.arg is None for k in c.keywords):
        return None
    if len(c.args) > len(ps):
        return None
    m = dict(zip(ps, c.args))
    for k in c.keywords:
        if k.arg not in ps or k.arg in m:
            return None
        m[k.arg] = k.value
    return m


def _is_kernel(mod, f, fused):
    """A module-level function with at least one typed-buffer parameter."""
    at = getattr(f, 'cy_argtypes', None)
    if not at:
        return False
    for t in at.values():
        if t.is_buffer:
            return True
        alts = fused.get(t.base) if isinstance(fused, dict) else None
        if alts and all(a.is_buffer for a in alts):
            return True
    return False


def discover(mod, fused):
    """-> (kernel_of: entry point -> [kernel names it calls], kernels (ordered,
    distinct), preps: names of the preparation function(s))."""
    kernel_of, kernels, preps = {}, [], []
    for w in WRAPPERS:
        fn = mod.functions.get(w)
        kernel_of[w] = []
        if fn is None:
            continue
        fi = finfo(mod, fn)
        for c in calls_in(fn):
            cn = call_name(c)
            f = mod.functions.get(cn) if cn else None
            if f is None or not _is_kernel(mod, f, fused):
                continue
            if cn not in kernel_of[w]:
                kernel_of[w].append(cn)
            if cn not in kernels:
                kernels.append(cn)
            bind = _call_binding(f, c)
            ps = params(f)
            a = bind.get(ps[2]) if bind and len(ps) > 2 else None
            if isinstance(a, ast.Name):
                for site in fi.defs_of_use(a):
                    dv = fi.def_value(site, a.id) if site not in ('PARAM', 'UNBOUND') else None
                    if isinstance(dv, ast.Call) and call_name(dv) in mod.functions and \
                            not _is_kernel(mod, mod.functions[call_name(dv)], fused) and call_name(dv) not in preps:
                        preps.append(call_name(dv))
    if not preps and PREP_DEFAULT in mod.functions:
        preps = [PREP_DEFAULT]
    return kernel_of, kernels, preps


_facts_cache = {}


def guard_facts(mod, fn, depth=2, skip=frozenset()):
    """Comparisons that are known to hold once control has passed a guard of
    `fn` on its non-raising side.

    -> (facts, opaque).  A fact is a dict: site (statement of fn's CFG: the
    guard `if`, or the statement that calls a helper establishing the fact on
    every normal completion), op/lhs/rhs (atomic comparison, temporaries
    expanded), leaf (reaching definitions of the operand names in fn), text.
    `opaque` lists (site, names, description) for tests and calls that the
    analysis cannot interpret and that may hide a guard on those names."""
    key = (id(mod), id(fn), depth, skip)
    if key in _facts_cache:
        return _facts_cache[key]
    fi = finfo(mod, fn)
    raises = _clean_raises(fi)
    facts, opaque = [], []
    for n in _real_nodes(fi):
        if not isinstance(n, ast.If):
            continue
        at, af = _assumes(fi, n)
        if at is None or af is None:
            continue
        rt = not fi.cfg.reachable(at, EXIT, avoiding=raises)
        rf = not fi.cfg.reachable(af, EXIT, avoiding=raises)
        names = names_loaded(n.test)
        if rt == rf:
            if not rt and not _only_none_tests(n.test):
                opaque.append((n, names, 'branch on `%s`' % u(n.test)))
            continue
        cs = conjuncts(n.test, not rt)
        if cs is None:
            opaque.append((n, names, 'guard `%s` does not split into atomic facts' % u(n.test)))
            continue
        for c in cs:
            if isinstance(c, Cmp):
                ex = Expander(fi)
                facts.append({'site': n, 'op': c.op, 'lhs': ex.expand(c.lhs), 'rhs': ex.expand(c.rhs),
                              'leaf': ex.leaf, 'text': u(n.test), 'via': None})
            else:
                opaque.append((n, names_loaded(c[1]), 'guard on `%s`' % u(c[1])))
    for c in calls_in(fn):
        st = fi.stmt(c)
        if st is None or isinstance(st, ast.Raise):
            continue
        cn = call_name(c)
        argnames = set()
        for a in list(c.args) + [k.value for k in c.keywords]:
            argnames |= names_loaded(a)
        h = mod.functions.get(cn) if cn else None
        if h is not None and h is not fn and cn not in skip:
            bind = _call_binding(h, c)
            if depth <= 0 or bind is None or _swallowed(fi, st):
                opaque.append((st, argnames, 'call `%s`' % u(c)))
                continue
            hf, ho = guard_facts(mod, h, depth - 1, skip)
            hfi = finfo(mod, h)
            hr = _clean_raises(hfi)
            hps = set(params(h))
            for f in hf:
                if hfi.cfg.reachable(ENTRY, EXIT, avoiding=[f['site']] + hr):
                    continue      # not on every normal completion of the helper
                good = True
                for nm, dss in f['leaf'].items():
                    if nm in hps:
                        good = good and nm in bind and dss <= {PARAM_ONLY}
                    else:
                        good = good and dss <= {frozenset()}      # a global, not a helper local
                if not good:
                    continue
                ex = Expander(fi)
                actual = {p: ex.expand(a) for p, a in bind.items()}
                sub = _Subst(actual)
                facts.append({'site': st, 'op': f['op'], 'lhs': sub.visit(copy.deepcopy(f['lhs'])),
                              'rhs': sub.visit(copy.deepcopy(f['rhs'])), 'leaf': ex.leaf,
                              'text': '%s: %s' % (u(c), f['text']), 'via': cn})
            if ho:
                opaque.append((st, argnames, 'helper `%s` contains checks the analysis cannot interpret' % cn))
            continue
        if cn is None:
            if argnames:
                opaque.append((st, argnames, 'call `%s`' % u(c)))
            continue
        head = cn.split('.')[0]
        if cn.startswith('np.testing') or cn.startswith('numpy.testing'):
            opaque.append((st, argnames, 'call `%s`' % u(c)))
        elif head in ('np', 'numpy', 'math') or cn in PURE_FUNCS or head in params(fn):
            continue          # numpy / builtin / ndarray method: does not validate
        elif argnames:
            opaque.append((st, argnames, 'call `%s`' % u(c)))
    _facts_cache[key] = (facts, opaque)
    return facts, opaque


def _fact_holds(fi, f, r, avoid=()):
    """Every path ENTRY -> r passes the guard (hence left it on the
    non-raising side) without crossing one of the `avoid` statements."""
    return not fi.cfg.reachable(ENTRY, r, avoiding=[f['site']] + list(avoid))


def _eq_fact(f, left, right, ranks):
    if f['op'] is not ast.Eq:
        return False
    l, r = _xt(f['lhs'], ranks), _xt(f['rhs'], ranks)
    return (l in left and r in right) or (r in left and l in right)


# ---------------------------------------------------------------------------
# D0: validation and default allocation;  D4 (first half): same buffer

def _alloc_verdict(fi, call, X, y, ranks):
    """Is `call` a fresh 1-D float64 array with one cell per row of X?"""
    cn = call_name(call)
    if cn not in ALLOCATORS:
        return 'far', 'not a recognised allocator'
    if len(call.args) > 2 or any(k.arg not in ('shape', 'dtype', 'order') for k in call.keywords):
        return 'far', 'unfamiliar arguments'
    shape = call.args[0] if call.args else kwarg(call, 'shape')
    dtype = call.args[1] if len(call.args) > 1 else kwarg(call, 'dtype')
    if shape is None:
        return 'far', 'no shape'
    ex = Expander(fi)
    es = ex.expand(shape)
    ed = ex.expand(dtype) if dtype is not None else None
    want = {'%s.shape[0]' % X, '(%s.shape[0],)' % X, '[%s.shape[0]]' % X, '%s.shape[:1]' % X}
    sok = _xt(es, ranks) in want and ex.param_only(X)
    dok = ed is None or _xt(ed) in F64
    if sok and dok:
        return 'match', '%s of %s cells, float64' % (cn, _xt(es, ranks))
    if _closed(es, {X, y}) and (ed is None or _closed(ed, {X, y})):
        return 'near', ('extent %s' % _xt(es, ranks) if not sok else 'dtype %s' % _xt(ed))
    return 'far', 'shape/dtype not recognised'


def _module_state(mod, fn):
    """Names that denote module-level variables inside `fn`: declared `global`
    there, or bound by an assignment at module level and never bound in `fn`
    (functions, classes and imports are not variables).  An object reached
    through such a name exists before the call and survives it."""
    declared = {nm for n in walk_local(fn) if isinstance(n, ast.Global) for nm in n.names}
    local = set(params(fn))
    for n in walk_local(fn):
        if isinstance(n, ast.stmt):
            local |= set(stmt_defs(n))
    out = set(declared)
    for s in mod.tree.body:
        tgts = []
        if isinstance(s, ast.Assign):
            tgts = s.targets
        elif isinstance(s, (ast.AnnAssign, ast.AugAssign)):
            tgts = [s.target]
        for t in tgts:
            for nm in target_names(t):
                if nm not in local or nm in declared:
                    out.add(nm)
    return out


def _origins(fi, site, dv, state, depth=6):
    """Where the object bound by `site: name = dv` comes from, following plain
    copies `a = b` along the reaching definitions: yields ('param', site, name) |
    ('state', site, name) (the value a module-level variable has on entry) |
    ('unbound', site, name) | ('opaque', site, None) | ('expr', site, value)."""
    if isinstance(dv, ast.Name) and isinstance(dv.ctx, ast.Load) and depth > 0:
        try:
            ds = fi.defs_of_use(dv)
        except Exception:
            ds = None
        if ds is None:
            yield ('expr', site, dv)
            return
        if not ds:
            yield (('state' if dv.id in state else 'expr'), site, dv.id if dv.id in state else dv)
            return
        for d in ds:
            if d == 'PARAM':
                yield ('param', site, dv.id)
            elif d == 'UNBOUND':
                yield (('state' if dv.id in state else 'unbound'), site, dv.id)
            else:
                v2 = fi.def_value(d, dv.id) if isinstance(d, (ast.Assign, ast.AnnAssign)) else None
                if v2 is None:
                    yield ('opaque', d, None)
                else:
                    yield from _origins(fi, d, v2, state, depth - 1)
        return
    yield ('expr', site, dv)


def _view_root(e):
    """Name of the object of which `e` is (a view of): the name itself, a
    basic slice `N[a:b]` / `N[a:b, c:d]` / `N[...]` of it (slices only: an integer
    index would select a row, a fancy index copies)."""
    while isinstance(e, ast.Subscript):
        parts = e.slice.elts if isinstance(e.slice, ast.Tuple) else [e.slice]
        if not all(isinstance(p, ast.Slice) or (isinstance(p, ast.Constant) and p.value is Ellipsis) for p in parts):
            return None
        e = e.value
    return e.id if isinstance(e, ast.Name) else None


def _state_buffer(ck, mod, fi, prep, PREP, r, site, name, state, view=None):
    """The buffer handed back is (a view of) the object a module-level variable
    holds on entry: it was not allocated by this call."""
    rule = 'C13.D0.validation.alloc.fresh'
    # hand-over of ownership (the variable is rebound after the object was taken and before
    # the return) is not decided here
    later = [rb for rb in _rebinds(fi, name) if rb is not site and isinstance(site, ast.stmt)
             and fi.cfg.reachable(site, rb) and fi.cfg.reachable(rb, r)]
    if later:
        ck.missing(rule, '%s returns the object of module-level variable `%s` and rebinds that variable afterwards (%s): '
                   'ownership hand-over not analysed' % (PREP, name, mod.loc(later[0])))
        return
    stored = [rb for rb in _rebinds(fi, name)]
    ck.bad(rule, mod, site, PREP, 'result buffer taken from module-level variable `%s`' % name,
           'when the caller supplies no buffer, %s returns %s module-level variable `%s` %s instead of an array allocated by this '
           'call%s: the arrays returned by different calls (other targets, other metrics, other data of the same length) are '
           'one and the same memory, so a result the caller still holds is overwritten by the next call. The default buffer '
           'must be allocated per call' % (
               PREP, ('`%s`, a view of' % view) if view else 'the object that',
               name, 'holds' if not view else '', 
               (' (the function itself keeps its allocation there at %s for later calls)' % mod.loc(stored[0])) if stored else ''))


def d0_validation(ck, mod, PREP, kernels=()):
    rule = 'C13.D0.validation'
    prep = mod.func(PREP)
    ck.analysed(mod, prep)
    fi = finfo(mod, prep)
    ps = params(prep)
    if len(ps) < 3:
        ck.missing(rule, '%s no longer takes (X, y, out)' % PREP)
        return
    X, y, out = ps[:3]
    ranks = {X: 2, y: 1}
    facts, opaque = guard_facts(mod, prep, 2, frozenset(kernels))
    rets = returns_of(prep)
    if not rets:
        ck.missing(rule, '%s has no return statement' % PREP)
        return
    for nm in (X, y):
        if _rebinds(fi, nm):
            ck.missing(rule, 'parameter %s of %s is rebound: the validated object is not the caller\'s' % (nm, PREP))
            return
    # the buffer variable(s): the parameter and locals that are bound to it by a plain copy
    # (`buf = out`); every other binding of these names is a rebinding (fresh allocation, copy ...)
    alias_sites, onames = [], {out}
    for st in _real_nodes(fi):
        if isinstance(st, ast.Assign) and len(st.targets) == 1 and isinstance(st.targets[0], ast.Name):
            ex = Expander(fi)
            ev = ex.expand(st.value)
            if isinstance(ev, ast.Name) and ev.id == out and ex.param_only(out) and st.targets[0].id != out:
                alias_sites.append(st)
                onames.add(st.targets[0].id)
    rebinds = [st for nm in sorted(onames) for st in _rebinds(fi, nm) if st not in alias_sites]
    outs = sorted(onames)

    # ---- what object does each return hand back?
    param_rets, allocs, n_ret = [], [], 0
    state = _module_state(mod, prep)
    for p in fi.cfg.pred.get(EXIT, []):
        if not isinstance(p, (ast.Return, ast.Raise)):
            ck.bad('C13.D4.same-buffer', mod, prep, PREP, 'implicit return None',
                   'the preparation step can fall off its end: the kernel would receive None instead of a buffer')
    for r in rets:
        v = r.value
        objs = []
        if v is None:
            ck.bad('C13.D4.same-buffer', mod, r, PREP, u(r), 'the preparation step must return the output buffer')
            continue
        if isinstance(v, ast.Name):
            for site in fi.defs_of_use(v):
                if site == 'PARAM' or (site in alias_sites and v.id in onames):
                    if v.id in onames:
                        if r not in param_rets:
                            param_rets.append(r)
                        ck.ok('C13.D4.same-buffer', mod, r, u(r), 'returns the caller\'s buffer object')
                    else:
                        ck.bad('C13.D4.same-buffer', mod, r, PREP, u(r),
                               'the preparation step returns parameter `%s`, not the output buffer' % v.id)
                elif site == 'UNBOUND':
                    if v.id in state:
                        n_ret += 1
                        _state_buffer(ck, mod, fi, prep, PREP, r, r, v.id, state)
                    else:
                        ck.bad('C13.D4.same-buffer', mod, r, PREP, u(r), 'the returned name may be unbound')
                else:
                    objs.append((site, fi.def_value(site, v.id)))
        else:
            objs.append((r, v))
        for site0, dv0 in objs:
            n_ret += 1
            if dv0 is None:
                ck.missing('C13.D4.same-buffer', 'definition `%s` of the returned buffer at %s is not a plain assignment'
                           % (u(site0)[:80], mod.loc(site0)))
                continue
            for kind, site, dv in _origins(fi, site0, dv0, state):
                if kind == 'param':
                    if dv in onames:
                        if r not in param_rets:
                            param_rets.append(r)
                        ck.ok('C13.D4.same-buffer', mod, r, u(r), 'returns the caller\'s buffer object')
                    else:
                        ck.bad('C13.D4.same-buffer', mod, r, PREP, u(r),
                               'the preparation step returns parameter `%s`, not the output buffer' % dv)
                    continue
                if kind == 'unbound':
                    ck.bad('C13.D4.same-buffer', mod, r, PREP, u(r), 'the returned name may be unbound')
                    continue
                if kind == 'opaque':
                    ck.missing('C13.D4.same-buffer', 'definition `%s` of the returned buffer at %s is not a plain assignment'
                               % (u(site)[:80], mod.loc(site)))
                    continue
                if kind == 'state':
                    _state_buffer(ck, mod, fi, prep, PREP, r, site, dv, state)
                    continue
                ex = Expander(fi)
                edv = ex.expand(dv)
                if isinstance(edv, ast.Call) and call_name(edv) in ALLOCATORS:
                    allocs.append((site, dv if isinstance(dv, ast.Call) else edv))
                    continue
                root = _view_root(edv)
                if root is not None and root in state and root not in (X, y) and root not in onames:
                    _state_buffer(ck, mod, fi, prep, PREP, r, site, root, state, view=u(edv))
                    continue
                closed = _closed(edv, {X, y} | onames)
                if names_loaded(edv) & onames and r not in param_rets:
                    param_rets.append(r)      # derived from the caller's buffer: the out facts are still due
                detail = ('the preparation step must hand back the caller\'s `out` object itself; a '
                          'converted copy (ascontiguousarray/astype/reshape-copy) makes the kernel '
                          'fill a temporary and the caller\'s buffer never holds the result')
                if closed:
                    ck.bad('C13.D4.same-buffer', mod, site, PREP, u(site), detail)
                else:
                    ck.missing('C13.D4.same-buffer', 'returned object `%s` at %s is not recognised (%s)'
                               % (u(dv)[:100], mod.loc(site), detail[:70]))

    # ---- what the branches tell about None-ness of the current `out` (on a path without
    # rebinding of `out` that is the caller's argument)
    none_as, notnone_as = [], []
    for a in fi.cfg.nodes:
        if not isinstance(a, Assume):
            continue
        for c in conjuncts(a.test, a.polarity) or []:
            if isinstance(c, Cmp) and c.op in (ast.Is, ast.IsNot) and isinstance(c.lhs, ast.Name) and c.lhs.id in onames \
                    and isinstance(c.rhs, ast.Constant) and c.rhs.value is None:
                (none_as if c.op is ast.Is else notnone_as).append(a)
    for r in param_rets:
        # a rebinding-free path on which `out` is known to be None and never known to be a buffer
        leak = [a for a in none_as
                if (fi.cfg.reachable(ENTRY, a, avoiding=rebinds + notnone_as))
                and fi.cfg.reachable(a, r, avoiding=rebinds + notnone_as)]
        ck.check(not leak, 'C13.D4.same-buffer', mod, leak[0].owner if leak else r, PREP,
                 'out is None path to ' + u(r), 'no path returns None in place of a buffer',
                 'when no buffer is supplied a path reaches `%s` without allocating one: the kernel receives None' % u(r))

    # ---- the six facts
    def need(label, left, right, names, which):
        """which: returns at which the fact must hold; out-facts need not hold
        on paths that rebind `out` (those return the fresh allocation)."""
        is_out = bool(set(names) & onames)
        # X and y are never rebound (checked above); `out` at the guard is the object that
        # is returned iff no rebinding of `out` lies between the guard and the return
        cands = [f for f in facts if _eq_fact(f, left, right, ranks)
                 and all(f['leaf'].get(nm, set()) <= {PARAM_ONLY} for nm in (X, y))
                 and not _swallowed(fi, f['site'])]

        def same_object(f, r):
            return not any(fi.cfg.reachable(f['site'], rb) and fi.cfg.reachable(rb, r) for rb in rebinds)
        okr, witness = True, None
        for r in which:
            # out facts: paths that rebind `out` return the fresh allocation, paths on which
            # `out` is None are dealt with above - neither needs the guard
            hit = [f for f in cands if _fact_holds(fi, f, r, (rebinds + none_as) if is_out else ())
                   and (not is_out or same_object(f, r))]
            if not hit:
                okr = False
                break
            witness = hit[0]
        construct = '%s guard: %s' % (label, witness['text'] if (okr and witness) else 'missing')
        if okr:
            if witness and witness['via'] in mod.functions:
                ck.analysed(mod, mod.functions[witness['via']])
            ck.ok(rule, mod, witness['site'] if witness else prep, construct,
                  '%s mismatch raises on every path to the kernel' % label)
            return
        why = ('the %s guard (raise on mismatch) is missing, weakened or not on every path that '
               'reaches the kernel: the nogil kernel would read/write out of bounds' % label)
        unexplained = [o for o in opaque if o[1] & set(names)]
        # a raising guard on these operands built with an operator the rule does not reason
        # about (is / in ...) may well be an equivalent spelling: not a violation
        unexplained += [(f['site'], set(), 'guard `%s`' % f['text']) for f in facts
                        if f['op'] not in _ORDER_OPS and (names_loaded(f['lhs']) | names_loaded(f['rhs'])) & set(names)]
        # a raising guard on a local whose value the expansion could not trace back to the
        # parameters (unpacked from a call, loop-carried, several definitions): it may well
        # compare the very extents asked for
        for f in facts:
            loc = sorted(nm for nm, dss in f['leaf'].items() if any(ds not in (PARAM_ONLY, frozenset()) for ds in dss))
            if loc and f['op'] in _ORDER_OPS:
                unexplained.append((f['site'], set(), 'guard `%s` on untraced local(s) %s' % (f['text'], ', '.join(loc))))
        if cands:
            # the right guard exists but some path goes round it
            ck.bad(rule, mod, cands[0]['site'], PREP, 'path of %s guard: %s' % (label, cands[0]['text']),
                   'the guard is not on every path that %s' % (
                       'returns the supplied buffer' if is_out else 'reaches the kernel'))
        elif unexplained:
            ck.missing(rule, '%s guard not recognised in %s; uninterpreted: %s' % (
                label, PREP, '; '.join(o[2] for o in unexplained)[:200]))
        else:
            ck.bad(rule, mod, prep, PREP, construct, why)

    allr = list(rets)
    need('rank of X', {'len(%s.shape)' % X}, {'2'}, (X,), allr)
    need('rank of y', {'len(%s.shape)' % y}, {'1'}, (y,), allr)
    need('width', {'%s.shape[1]' % X}, {'%s.shape[0]' % y}, (X, y), allr)
    if not param_rets:
        ck.missing(rule, 'no return of the caller-supplied buffer found in %s' % PREP)
    else:
        need('out dtype', {'%s.dtype' % o for o in outs}, F64, outs, param_rets)
        # `out.shape == (n,)` settles length and rank at once
        shape_eq = [f for f in facts if _eq_fact(f, {'%s.shape' % o for o in outs}, {'(%s.shape[0],)' % X}, ranks)
                    and all(f['leaf'].get(nm, set()) <= {PARAM_ONLY} for nm in (X, y)) and not _swallowed(fi, f['site'])]
        if shape_eq and all(any(_fact_holds(fi, f, r, rebinds + none_as) and not any(
                fi.cfg.reachable(f['site'], rb) and fi.cfg.reachable(rb, r) for rb in rebinds)
                for f in shape_eq) for r in param_rets):
            ck.ok(rule, mod, shape_eq[0]['site'], 'out length guard: ' + shape_eq[0]['text'], 'shape compared as a whole')
            ck.ok(rule, mod, shape_eq[0]['site'], 'out rank guard: ' + shape_eq[0]['text'], 'shape compared as a whole')
        else:
            need('out length', {'%s.shape[0]' % o for o in outs}, {'%s.shape[0]' % X}, outs + [X], param_rets)
            need('out rank', {'len(%s.shape)' % o for o in outs}, {'1'}, outs, param_rets)

    # ---- default allocation
    if not allocs:
        if n_ret == 0:
            ck.bad(rule + '.alloc', mod, prep, PREP, 'allocation',
                   'no default output buffer is allocated when out is None')
    for site, dv in allocs:
        ck.ok(rule + '.alloc.fresh', mod, site, 'default buffer `%s`' % u(dv)[:80], 'allocated by this call')
        verdict, detail = _alloc_verdict(fi, dv, X, y, ranks)
        ck.decide(verdict, rule + '.alloc', mod, site, PREP, u(site),
                  'default buffer: 1-D float64, one cell per row of X (%s)' % detail,
                  'the default output must be a 1-D float64 array of X.shape[0] cells (%s)' % detail)
        # every path to the allocation that has not rebound `out` before has seen `out is None`
        only_none = bool(none_as) and not fi.cfg.reachable(
            ENTRY, site, avoiding=none_as + [rb for rb in rebinds if rb is not site])
        if only_none:
            ck.ok('C13.D4.same-buffer', mod, site, 'allocation path: ' + u(site), 'fresh buffer only when out is None')
        elif [o for o in opaque if onames & o[1]]:
            ck.missing('C13.D4.same-buffer', 'cannot show that `%s` at %s is reached only when out is None'
                       % (u(site)[:80], mod.loc(site)))
        else:
            ck.bad('C13.D4.same-buffer', mod, site, PREP, 'allocation path: ' + u(site),
                   'a fresh buffer replaces `out` on a path where the caller supplied one: the '
                   'caller\'s buffer never holds the result')


# ---------------------------------------------------------------------------
# D4: wrappers

def _kernel_returns_buffer(mod, kern):
    """Does every return of the kernel hand back its `out` parameter itself?"""
    fn = mod.func(kern)
    fi = finfo(mod, fn)
    o = params(fn)[2]
    rs = returns_of(fn)
    return bool(rs) and all(isinstance(r.value, ast.Name) and r.value.id == o and
                            fi.defs_of_use(r.value) == {'PARAM'} for r in rs)


# ---------------------------------------------------------------------------
# D1 (acquisition): the kernel obtains the caller's arrays under a buffer protocol request that every
# admitted input satisfies

_ANY_LAYOUT_MODES = {None, 'strided', 'full'}
_MEMVIEW_ATTRS = {'T', 'base', 'shape', 'strides', 'suboffsets', 'ndim', 'itemsize', 'nbytes', 'size', 'copy',
                  'copy_fortran', 'is_c_contig', 'is_f_contig'}


def _raw_kernel_signatures(repo):
    """{function name: raw FunctionDef} of libdist.pyx parsed with the extended type adapter and NOT
    normalised: the declared parameter types exactly as written (buffer `mode=`, memoryview axes, const)."""
    path = os.path.join(repo.root, LD)
    try:
        tree = parse_pyx_x(path, LD)
    except Exception:
        return {}
    return {f.name: f for f in tree.body if isinstance(f, ast.FunctionDef)}


def _stores_through(fn, name):
    """'yes' when the function assigns to a cell/slice of `name`, 'maybe' when it hands `name` (or an alias it
    binds) to something that could, 'no' otherwise."""
    verdict = 'no'
    for s in ast.walk(fn):
        tgs = []
        if isinstance(s, ast.Assign):
            tgs = list(s.targets)
        elif isinstance(s, (ast.AugAssign, ast.AnnAssign)):
            tgs = [s.target]
        elif isinstance(s, ast.Delete):
            tgs = list(s.targets)
        elif isinstance(s, ast.For):
            tgs = [s.target]
        for tg in tgs:
            for x in ast.walk(tg):
                if isinstance(x, ast.Subscript) and isinstance(x.ctx, (ast.Store, ast.Del)) and name in names_loaded(x.value):
                    return 'yes'
        if isinstance(s, ast.Call):
            if call_name(s) in _SHAPE_READS:
                continue
            if isinstance(s.func, ast.Attribute) and name in names_loaded(s.func.value) and s.func.attr in MUTATING_METHODS:
                return 'yes'
            if any(isinstance(a, ast.Name) and a.id == name for a in list(s.args) + [kw.value for kw in s.keywords]):
                inret = call_name(s) in _ALIASING_READS
                if not inret:
                    verdict = 'maybe'
        if isinstance(s, (ast.Assign, ast.AnnAssign)) and isinstance(getattr(s, 'value', None), ast.AST):
            v = s.value
            while isinstance(v, (ast.Subscript, ast.Attribute)):
                v = v.value
            if isinstance(v, ast.Name) and v.id == name and not isinstance(s.value, ast.Attribute):
                verdict = 'maybe'           # an alias / a view of the buffer gets a name
    return verdict


def d1_acquisition(ck, mod, kernels, kernel_of):
    """Every X / y the preparation step lets through must be ACCEPTED by the kernel's typed parameters: the
    conversion of the argument to the declared buffer type is a buffer-protocol request, and a request stricter
    than what the kernel needs raises (ValueError / BufferError) for perfectly valid data.
      * read-only data (np.load(mmap_mode='r'), flags.writeable = False, np.broadcast_to views, rows of such
        arrays): the legacy syntax np.ndarray[T, ndim=n] asks for a writable buffer only when the function stores
        through it; a typed memoryview `T[:, :]` ALWAYS asks for one unless the element type is `const`.  A
        buffer the kernel only reads must therefore be np.ndarray[...] or `const T[...]`
        (C13.D1.acquire.read-only);
      * memory layout: `mode='c'|'fortran'` / a memoryview axis with a step (`::1`) accepts only that contiguity;
        Fortran-ordered or strided views of the other kind are refused (C13.D1.acquire.layout)."""
    raw = _raw_kernel_signatures(ck.repo)
    callers = {}
    for w, ks in kernel_of.items():
        for kn in ks:
            callers.setdefault(kn, []).append(w)
    n = 0
    for kern in kernels:
        nfn = mod.func(kern)
        fn = raw.get(kern)
        if fn is None or params(fn) != params(nfn) and len(params(fn)) != len(params(nfn)):
            fn = nfn
        ps = params(fn)
        got = 0
        for pos, p in enumerate(ps):
            t = fn.cy_argtypes.get(p)
            if t is None or not t.is_buffer:
                continue
            got += 1
            # does the argument come straight from the caller of the public entry point?
            foreign, unknown = [], []
            for w in callers.get(kern, []):
                wfn = mod.func(w)
                wfi = finfo(mod, wfn)
                for c in calls_in(wfn):
                    if call_name(c) != kern:
                        continue
                    bind = _call_binding(nfn, c)
                    a = bind.get(params(nfn)[pos]) if bind and pos < len(params(nfn)) else None
                    ex = Expander(wfi)
                    e = ex.expand(a) if a is not None else None
                    if isinstance(e, ast.Name) and e.id in params(wfn) and ex.leaf.get(e.id) and ex.param_only(e.id):
                        foreign.append((w, e.id))
                    else:
                        unknown.append((w, u(a) if a is not None else '?'))
            written = _stores_through(fn, p)
            memview = bool(getattr(t, 'memview', False))
            const = bool(getattr(t, 'const', False))
            construct = '%s %s' % (t.text, p)
            # ---- writability request
            rule = 'C13.D1.acquire.read-only'
            if not memview or const:
                ck.ok(rule, mod, nfn, construct, 'parameter %d of %s: %s' % (
                    pos, kern, 'const memoryview: acquired without PyBUF_WRITABLE' if memview else
                    'legacy typed buffer: Cython requests a writable buffer only if the function stores through it'))
            elif written == 'yes':
                ck.ok(rule, mod, nfn, construct, 'parameter %d of %s is stored through: a writable buffer is what the kernel needs' % (pos, kern))
            elif written == 'no' and foreign and not unknown:
                ck.bad(rule, mod, nfn, kern, construct,
                       'parameter %d of %s is only READ by the kernel but declared as a non-const typed memoryview: Cython '
                       'acquires it with PyBUF_WRITABLE, so %s raises "buffer source array is read-only" for a read-only '
                       '`%s` (memory-mapped features opened with mode "r", flags.writeable=False, broadcast views) that the '
                       'validation step accepts; declare it np.ndarray[...] or `const %s`' % (
                           pos, kern, '/'.join(sorted({w for w, _ in foreign})), foreign[0][1], t.text))
            else:
                ck.missing(rule, 'parameter `%s` of %s is a non-const typed memoryview (requests a writable buffer); %s' % (
                    construct, kern, 'whether the kernel stores through it is not decided' if written != 'no' else
                    'what %s pass(es) for it (%s) is not the caller\'s own array' % (
                        '/'.join(sorted({w for w, _ in unknown})) or 'the entry points', ', '.join(sorted({x for _, x in unknown})) or 'nothing found')))
            # ---- a typed memoryview is not an ndarray: only the attributes of Cython's memoryview object exist
            if memview and not _rebinds(finfo(mod, nfn), p):
                for x in ast.walk(fn):
                    if isinstance(x, ast.Attribute) and isinstance(x.value, ast.Name) and x.value.id == p \
                            and x.attr not in _MEMVIEW_ATTRS:
                        ck.bad('C13.D1.acquire.memview-attr', mod, nfn, kern, '%s.%s' % (p, x.attr),
                               '`%s` is declared as the typed memoryview %s; Cython\'s memoryview object has no attribute '
                               '`%s` (that is an ndarray method): the kernel fails on every call (wrap it in np.asarray first)'
                               % (p, t.text, x.attr))
            # ---- layout request
            rule = 'C13.D1.acquire.layout'
            strict = []
            if memview:
                strict = [ax for ax in getattr(t, 'axes', ()) if ax.count(':') >= 2 and ax.split(':')[2].strip()]
                if any(':' not in ax for ax in getattr(t, 'axes', ())):
                    strict.append('?')
            elif getattr(t, 'mode', None) not in _ANY_LAYOUT_MODES:
                strict = ['mode=%r' % t.mode]
            if not strict:
                ck.ok(rule, mod, nfn, construct, 'parameter %d of %s accepts every strided layout' % (pos, kern))
            elif foreign and not unknown and written == 'no' and '?' not in strict:
                ck.bad(rule, mod, nfn, kern, construct,
                       'parameter %d of %s demands a contiguous layout (%s): %s raises for a `%s` of any other layout '
                       '(Fortran-/C-ordered of the other kind, column slices, strided views) that the validation step '
                       'accepts; the kernels must take generic strided buffers' % (
                           pos, kern, ', '.join(strict), '/'.join(sorted({w for w, _ in foreign})), foreign[0][1]))
            else:
                ck.missing(rule, 'parameter `%s` of %s restricts the memory layout (%s); whether every array that reaches it '
                           'satisfies that is not decided' % (construct, kern, ', '.join(strict)))
        n += min(got, 1)
    ck.floor('C13.D1.acquire', n, 3, 'kernels with typed-buffer parameters')


def d4_wrappers(ck, mod, kernel_of, preps):
    rule = 'C13.D4.wrapper'
    n = 0
    PREP = preps[0] if preps else PREP_DEFAULT
    claimed = {}          # kernel -> entry points that call it
    for w0, ks0 in kernel_of.items():
        for k0 in ks0:
            claimed.setdefault(k0, []).append(w0)
    for w, kern in WRAPPERS.items():
        fn = mod.func(w)
        ck.analysed(mod, fn)
        fi = finfo(mod, fn)
        ps = params(fn)
        if len(ps) < 3:
            ck.missing(rule, '%s no longer takes (X, y, out)' % w)
            continue
        X, y, out = ps[:3]
        n += 1
        kcs = [c for c in calls_in(fn) if call_name(c) in kernel_of.get(w, ())]
        if not kcs:
            others = [call_name(c) for c in calls_in(fn) if call_name(c) in mod.functions and call_name(c) not in preps]
            if others:
                ck.missing(rule, '%s reaches its kernel through %s: not followed' % (w, ', '.join(others)))
            else:
                ck.bad(rule, mod, fn, w, w, 'wrapper must call the validation once and one kernel once')
            continue
        good_calls = []
        for kc in kcs:
            # one kernel per metric: a kernel that another entry point (also) runs, or that
            # carries another metric's conventional name, computes that other metric (D5 judges
            # the formula of whatever kernel is reached under THIS metric as well)
            kn = call_name(kc)
            foreign = [w2 for w2 in claimed.get(kn, []) if w2 != w] + \
                [w2 for w2, k2 in WRAPPERS.items() if k2 == kn and w2 != w]
            ck.check(not foreign, rule + '.kernel', mod, kc, w, u(kc),
                     '%s dispatches to its own kernel %s' % (w, kn),
                     '%s must dispatch to %s; `%s` is the kernel of %s' % (w, kern, kn, '/'.join(sorted(set(foreign)))))
            kfn = mod.func(call_name(kc))
            bind = _call_binding(kfn, kc)
            kps = params(kfn)[:3]
            if bind is None or any(p not in bind for p in kps):
                ck.missing(rule + '.args', 'arguments of `%s` in %s cannot be mapped to (X, y, out)' % (u(kc), w))
                continue
            ks = fi.stmt(kc)
            aX, aY, aO = (bind[p] for p in kps)
            ex = Expander(fi)
            eX, eY = ex.expand(aX), ex.expand(aY)
            okxy = isinstance(eX, ast.Name) and eX.id == X and isinstance(eY, ast.Name) and eY.id == y \
                and ex.param_only(X, y)
            # the buffer: a name whose only reaching definition is `name = PREP(X, y, out)`
            pstmt = pcall = None
            if isinstance(aO, ast.Name):
                defs = fi.defs_of_use(aO)
                if len(defs) == 1:
                    site = next(iter(defs))
                    dv = fi.def_value(site, aO.id) if site not in ('PARAM', 'UNBOUND') else None
                    if isinstance(dv, ast.Call) and call_name(dv) in preps:
                        pstmt, pcall = site, dv
                        PREP = call_name(dv)
            if pcall is None:
                direct = isinstance(aO, ast.Call) and call_name(aO) in preps
                if direct:
                    ck.missing(rule + '.order', '%s passes the validation call inline to the kernel: the buffer it '
                               'returns cannot be followed to the return' % w)
                elif _closed(Expander(fi).expand(aO), {X, y, out}):
                    ck.bad(rule + '.order', mod, ks, w, u(ks),
                           'the kernel must be reached only through `out = %s(X, y, out)`: the buffer handed '
                           'to the nogil kernel is not the validated one' % PREP)
                else:
                    ck.missing(rule + '.order', 'buffer argument `%s` of the kernel call in %s not recognised' % (u(aO), w))
                continue
            ck.check(fi.cfg.dominates(pstmt, ks) and not _swallowed(fi, pstmt), rule + '.order', mod, pstmt, w,
                     '%s ; %s' % (u(pstmt), u(ks)), 'validation dominates the kernel call',
                     'the kernel must be reached only through `out = %s(X, y, out)`' % PREP)
            pbind = _call_binding(mod.func(PREP), pcall)
            pps = params(mod.func(PREP))[:3]
            okp = False
            if pbind is not None and all(p in pbind for p in pps):
                ex2 = Expander(fi)
                pe = [ex2.expand(pbind[p]) for p in pps]
                okp = all(isinstance(e, ast.Name) for e in pe) and [e.id for e in pe] == [X, y, out] \
                    and ex2.param_only(X, y, out)
            closed = _closed(Expander(fi).expand(pcall), {X, y, out, PREP}, pure=(PREP,)) and \
                _closed(eX, {X, y, out}) and _closed(eY, {X, y, out})
            if okxy and okp:
                ck.ok(rule + '.args', mod, kc, u(kc), 'kernel receives (X, y, validated out); the validation saw the same (X, y) and the caller\'s out')
                good_calls.append((kc, ks, aO.id, pstmt))
            elif closed:
                ck.bad(rule + '.args', mod, kc, w, u(kc), 'kernel must receive (X, y, out) with the validated buffer, '
                       'and the validation must have seen the same X, y and the caller\'s out: `%s` / `%s`' % (u(pcall), u(kc)))
            else:
                ck.missing(rule + '.args', 'arguments `%s` / `%s` in %s not recognised' % (u(pcall), u(kc), w))
        if not good_calls:
            continue
        rets = returns_of(fn)
        for p in fi.cfg.pred.get(EXIT, []):
            if not isinstance(p, (ast.Return, ast.Raise)):
                ck.bad('C13.D4.same-buffer', mod, fn, w, 'implicit return None', 'the wrapper can fall off its end without returning the distances')
        for r in rets:
            v = r.value
            sites = {id(g[3]) for g in good_calls}
            if isinstance(v, ast.Name) and all(s not in ('PARAM', 'UNBOUND') and id(s) in sites for s in fi.defs_of_use(v)) \
                    and fi.defs_of_use(v):
                ck.ok('C13.D4.same-buffer', mod, r, u(r), 'returns the validated 1-D float64 buffer handed to the kernel')
                covered = not fi.cfg.reachable(ENTRY, r, avoiding=[g[1] for g in good_calls if g[2] == v.id])
                ck.check(covered and not any(_swallowed(fi, g[1]) for g in good_calls), rule + '.order', mod, r, w,
                         'kernel call before ' + u(r), 'the kernel call lies on every path to the return',
                         'a path reaches the return without running the kernel on the buffer: stale/zero distances are returned')
                continue
            # the kernel's own return value
            rv = v
            if isinstance(v, ast.Name):
                ds = fi.defs_of_use(v)
                if len(ds) == 1 and next(iter(ds)) not in ('PARAM', 'UNBOUND'):
                    rv = fi.def_value(next(iter(ds)), v.id) or v
            if isinstance(rv, ast.Call) and any(rv is g[0] for g in good_calls):
                kname = call_name(rv)
                ck.check(_kernel_returns_buffer(mod, kname), 'C13.D4.same-buffer', mod, r, w, u(r),
                         'the kernel returns the very buffer it was given',
                         'the wrapper must return the validated buffer `out` itself (1-D float64), not '
                         'the kernel\'s return value (a reshaped 2-D view) or another array')
                continue
            detail = ('the wrapper must return the validated buffer `out` itself (1-D float64), not '
                      'the kernel\'s return value or another array')
            if v is None or _closed(Expander(fi).expand(v), {X, y, out} | {g[2] for g in good_calls}):
                ck.bad('C13.D4.same-buffer', mod, r, w, u(r), detail)
            else:
                ck.missing('C13.D4.same-buffer', 'returned value `%s` of %s not recognised (%s)' % (u(v)[:80], w, detail[:60]))
    ck.floor(rule, n, 3, 'wrappers')


# ---------------------------------------------------------------------------
# D5: per-metric formula

def _conds_between(mod, node, stop):
    """Atomic conditions (If ancestors, with polarity) under which `node`
    executes inside `stop`.  -> (conds, fully_understood)."""
    conds, ok = [], True
    ch, p = node, mod.parent.get(node)
    while p is not None and p is not stop:
        if isinstance(p, ast.If):
            pol = any(ch is s for s in p.body)
            cs = conjuncts(p.test, pol)
            if cs is None:
                ok = False
            else:
                conds += cs
        elif isinstance(p, (ast.While, ast.Try, ast.With)):
            ok = False
        ch, p = p, mod.parent.get(p)
    return conds, ok


def _full_range(k, loop, buf, dim):
    """True: the loop visits 0 .. extent(buf, dim)-1 once each; False: it
    provably iterates over a range with another bound; None: not a range."""
    it = loop.iter
    if not (isinstance(it, ast.Call) and call_name(it) in ('range', 'prange')):
        return None
    a = it.args
    if len(a) == 1:
        lo, hi, step = ast.Constant(value=0), a[0], ast.Constant(value=1)
    elif len(a) == 2:
        lo, hi, step = a[0], a[1], ast.Constant(value=1)
    elif len(a) == 3:
        lo, hi, step = a
    else:
        return None
    if const_value(lo) != 0 or const_value(step) != 1:
        return False
    return bool(k.extent_eq(norm_extent(hi), buf, dim))


def _strip_cast(e):
    while isinstance(e, ast.Call) and not e.keywords and (
            (call_name(e) == '__cy_cast__' and len(e.args) == 2) or
            (call_name(e) in ('float',) and len(e.args) == 1)):
        e = e.args[-1]
    return e


def _elem_pair(a, b, X, y):
    """a, b are X[I, J] and y[J] (either order) -> (I text, J text) or None."""
    for p, q in ((a, b), (b, a)):
        m = match('%s[_I, _J]' % X, p)
        if m is not None:
            m2 = match('%s[_J]' % y, q, m)
            if m2 is not None:
                return u(m2['_I']), u(m2['_J'])
    return None


def _term_verdict(metric, term, conds, conds_ok, X, y, iv, jv, scope):
    diff = ['%s[_I, _J] - %s[_J]' % (X, y), '%s[_J] - %s[_I, _J]' % (y, X)]
    if metric == 'hamming':
        def plain(e):
            # an element / scalar / constant: a condition that does arithmetic on the elements first
            # (`X[i, j] - y[j] != 0`, `X[i, j] ^ y[j] != 0`) may well be the same predicate -> not decided here
            return not any(isinstance(x, (ast.BinOp, ast.Call, ast.IfExp, ast.BoolOp)) for x in ast.walk(e))

        def closed_conds():
            return conds_ok and all(isinstance(c, Cmp) and _closed(c.lhs, scope) and _closed(c.rhs, scope)
                                    and plain(c.lhs) and plain(c.rhs) for c in conds)
        if const_value(term) in (1, 1.0) and not isinstance(const_value(term), bool):
            if conds_ok and len(conds) == 1 and isinstance(conds[0], Cmp):
                c = conds[0]
                if _elem_pair(c.lhs, c.rhs, X, y) == (iv, jv):
                    return ('match' if c.op is ast.NotEq else 'near'), 'counts %r' % c
            if closed_conds():
                return 'near', 'counts under %s' % ([repr(c) for c in conds] or 'no condition')
            return 'far', 'condition not recognised'
        if not conds and conds_ok and isinstance(term, ast.Compare) and len(term.ops) == 1:
            if _elem_pair(term.left, term.comparators[0], X, y) == (iv, jv):
                return ('match' if isinstance(term.ops[0], ast.NotEq) else 'near'), 'adds %s' % u(term)
        if closed_conds() and _closed(term, scope, CMATH):
            return 'near', 'adds %s' % u(term)
        return 'far', 'term not recognised'
    if conds or not conds_ok:
        return 'far', 'conditional accumulation'
    if metric == 'euclidean':
        pats = []
        for d in diff:
            pats += ['(%s) ** 2' % d, '(%s) ** 2.0' % d, '(%s) * (%s)' % (d, d), 'pow(%s, 2)' % d, 'pow(%s, 2.0)' % d]
    else:
        pats = ['fabs(%s)' % d for d in diff] + ['abs(%s)' % d for d in diff]
    for p in pats:
        m = match(p, term)
        if m is not None and u(m['_I']) == iv and u(m['_J']) == jv:
            return 'match', p
    if _closed(term, scope, CMATH):
        return 'near', 'adds %s' % u(term)
    return 'far', 'term not recognised'


class _StripWide(ast.NodeTransformer):
    """`<double>e` -> e: a widening cast does not change the shape of the
    accumulated term (where the widening happens is decided by
    C13.D5.formula.widen)."""

    def visit_Call(self, n):
        self.generic_visit(n)
        if call_name(n) == '__cy_cast__' and len(n.args) == 2 and not n.keywords and const_value(n.args[0]) in WIDE:
            return n.args[1]
        return n


def _strip_wide(e):
    return _StripWide().visit(copy.deepcopy(e)) if isinstance(e, ast.AST) else e


# C types of scalar locals that are integers (loop counters, extents)
_C_INTS = {'int', 'long', 'short', 'char', 'unsigned int', 'unsigned long', 'long long', 'unsigned long long',
           'Py_ssize_t', 'size_t', 'ssize_t', 'unsigned char', 'unsigned short', 'bint'}
_ARITH = (ast.Add, ast.Sub, ast.Mult, ast.Pow, ast.Div, ast.FloorDiv, ast.Mod)


class _CTypes:
    """Static C type of an arithmetic expression in a kernel, as far as the
    question "is this operation carried out in the element type of the input
    buffers or in double?" needs it.  Abstract types: 'double', 'elem' (the
    (fused) element type of an input buffer: int8..int64 / float32 / float64),
    'int' (C integer scalars), 'lit' (integer literal: adopts the type of the
    other operand), None (not known).  C's usual arithmetic conversions: an
    operation with a double operand is carried out in double (the other
    operand is converted first); an operation whose operands are both of the
    element type (or integer scalars/literals) is carried out in the element
    type and only its RESULT is widened afterwards.  The rule follows the
    definitions of scalar temporaries (the declared type of the temporary is
    its type at the use; the arithmetic of its definition is judged where it
    is written)."""

    def __init__(self, k, fn, fi, fused, wide_bufs):
        self.k, self.fn, self.fi, self.fused = k, fn, fi, fused
        self.wide_bufs = wide_bufs
        self.narrow = []          # arithmetic nodes carried out in the element type
        self.unknown = []         # nodes whose type the table does not know
        self._seen = set()

    def _declared(self, name):
        t = self.fn.cy_locals.get(name) or self.fn.cy_argtypes.get(name)
        if t is None or t.is_buffer:
            return None
        if t.text in WIDE or t.base in WIDE:
            return 'double'
        if t.base in self.fused:
            return 'elem'
        if t.text in _C_INTS or t.base in _C_INTS:
            return 'int'
        return None

    def _buf_elem(self, name):
        if name not in self.k.buffers:
            return None
        elems = [e for e in (self.k.buffers[name][1] or '').split('|') if e]
        if elems and all(e in WIDE for e in elems):
            return 'double'
        return 'elem' if elems else None

    def follow(self, name_node):
        """Judge the arithmetic in the definitions of a scalar temporary."""
        try:
            defs = self.fi.defs_of_use(name_node)
        except Exception:
            return
        for site in defs:
            if site in ('PARAM', 'UNBOUND') or id(site) in self._seen:
                continue
            self._seen.add(id(site))
            if isinstance(site, ast.AugAssign):
                self.type_of(ast.BinOp(left=ast.Name(id=name_node.id, ctx=ast.Load()), op=site.op, right=site.value), origin=site)
                continue
            v = self.fi.def_value(site, name_node.id) if isinstance(site, (ast.Assign, ast.AnnAssign)) else None
            if v is not None:
                self.type_of(v)

    def type_of(self, e, origin=None):
        if isinstance(e, ast.Constant):
            if isinstance(e.value, bool):
                return 'int'
            if isinstance(e.value, int):
                return 'lit'
            if isinstance(e.value, float):
                return 'double'
            return None
        if isinstance(e, ast.Name):
            t = self._declared(e.id)
            if t is not None and isinstance(e.ctx, ast.Load) and hasattr(e, 'lineno'):
                self.follow(e)
            return t
        if isinstance(e, ast.Subscript) and isinstance(e.value, ast.Name):
            return self._buf_elem(e.value.id)
        if isinstance(e, ast.UnaryOp) and isinstance(e.op, (ast.USub, ast.UAdd)):
            return self.type_of(e.operand)
        if isinstance(e, ast.Call) and not e.keywords:
            cn = call_name(e)
            if cn == '__cy_cast__' and len(e.args) == 2:
                self.type_of(e.args[1])
                tx = const_value(e.args[0])
                if tx in WIDE:
                    return 'double'
                if tx in self.fused:
                    return 'elem'
                return 'int' if tx in _C_INTS else None
            if cn in ('fabs', 'sqrt', 'pow') or cn == 'float':
                for a in e.args:
                    self.type_of(a)
                return 'double'           # declared `double f(double)` in the extern block / Python float
            if cn == 'abs' and len(e.args) == 1:
                return self.type_of(e.args[0])
            for a in e.args:
                self.type_of(a)
            return None
        if isinstance(e, ast.BinOp) and isinstance(e.op, _ARITH):
            lt, rt = self.type_of(e.left), self.type_of(e.right)
            if 'double' in (lt, rt):
                return 'double'
            if lt is None or rt is None:
                self.unknown.append(origin or e)
                return None
            if 'elem' in (lt, rt):
                self.narrow.append(origin or e)
                return 'elem'
            return 'int' if 'int' in (lt, rt) else 'lit'
        if isinstance(e, ast.IfExp):
            self.type_of(e.test)
            a, b = self.type_of(e.body), self.type_of(e.orelse)
            return a if a == b else ('double' if 'double' in (a, b) and None not in (a, b) else None)
        if isinstance(e, (ast.Compare, ast.BoolOp)):
            for x in ast.iter_child_nodes(e):
                if isinstance(x, ast.expr):
                    self.type_of(x)
            return 'int'
        return None


# ---------------------------------------------------------------------------
# D5 (hamming): the comparison that decides "the coordinates differ" is exact
#
# "x and y differ" is a statement about the ELEMENTS.  The C comparison sees the
# elements only after the conversions written in the source (typecasts, C-typed
# temporaries) and after C's usual arithmetic conversions to the common type of
# the two operands.  The comparison equals the comparison of the elements iff
# that chain of conversions maps distinct element values to distinct values,
# the same way on both sides, for EVERY specialisation of the fused element
# type.  Decided on a finite abstract domain: capacity of a C type (integer
# width and signedness / mantissa bits), per specialisation.

_NP_INT = {p % (s, w): (w, s == '') for p in ('np.%sint%d_t', 'np.npy_%sint%d', 'numpy.%sint%d_t', '%sint%d_t')
           for s in ('', 'u') for w in (8, 16, 32, 64)}
_C_INT_WIDTH = {
    'signed char': (8, 8, True), 'unsigned char': (8, 8, False), 'short': (16, 16, True), 'unsigned short': (16, 16, False),
    'int': (32, 32, True), 'unsigned int': (32, 32, False), 'long long': (64, 64, True), 'unsigned long long': (64, 64, False),
    # width depends on the platform's data model (LP64 / LLP64 / ILP32)
    'long': (32, 64, True), 'unsigned long': (32, 64, False), 'Py_ssize_t': (32, 64, True), 'ssize_t': (32, 64, True),
    'size_t': (32, 64, False), 'np.intp_t': (32, 64, True), 'np.npy_intp': (32, 64, True), 'np.uintp_t': (32, 64, False),
    'np.long_t': (32, 64, True), 'np.ulong_t': (32, 64, False), 'np.longlong_t': (64, 64, True), 'np.ulonglong_t': (64, 64, False),
    'np.int_t': (32, 64, True), 'np.uint_t': (32, 64, False),
    # `<bint>v` is `v != 0`: one bit
    'bint': (1, 1, False),
}
_C_FLOAT_MANT = {'float': (24, 24), 'np.float32_t': (24, 24), 'np.npy_float32': (24, 24), 'np.float_t': (53, 53),
                 'double': (53, 53), 'np.float64_t': (53, 53), 'np.double_t': (53, 53), 'np.npy_float64': (53, 53),
                 'np.npy_double': (53, 53), 'long double': (53, 113), 'np.longdouble_t': (53, 113)}


class _CT:
    """Capacity of a C arithmetic type: kind 'int' (lo..hi = possible widths in
    bits, signed) or 'float' (lo..hi = possible mantissa bits)."""

    def __init__(self, text, kind, lo, hi, signed=None):
        self.text, self.kind, self.lo, self.hi, self.signed = text, kind, lo, hi, signed

    def __repr__(self):
        return self.text


def _ctype_info(text):
    if text in _NP_INT:
        w, s = _NP_INT[text]
        return _CT(text, 'int', w, w, s)
    if text in _C_INT_WIDTH:
        lo, hi, s = _C_INT_WIDTH[text]
        return _CT(text, 'int', lo, hi, s)
    if text in _C_FLOAT_MANT:
        lo, hi = _C_FLOAT_MANT[text]
        return _CT(text, 'float', lo, hi)
    return None


def _conv_step(cur, T):
    """Converting every value of type `cur` to type `T`: 'exact' (every value
    is represented unchanged), 'modular' (integer conversion that changes
    values but maps distinct values to distinct values), 'lossy' (two distinct
    values of `cur` certainly become equal), None (depends on the platform)."""
    if cur.kind == 'float':
        if T.kind == 'int':
            return 'lossy'                      # fractions are truncated
        if T.lo >= cur.hi:
            return 'exact'
        return 'lossy' if T.hi < cur.lo else None
    if T.kind == 'float':
        need_hi = cur.hi - (1 if cur.signed else 0)     # |-2**(w-1)| is a power of two
        need_lo = cur.lo - (1 if cur.signed else 0)
        if need_hi <= T.lo:
            return 'exact'
        return 'lossy' if need_lo > T.hi else None
    if cur.signed is None or T.signed is None:
        return None
    if (cur.signed == T.signed and T.lo >= cur.hi) or (not cur.signed and T.signed and T.lo > cur.hi):
        return 'exact'
    if T.hi < cur.lo:
        return 'lossy'
    if T.lo >= cur.hi:
        return 'modular'
    return None


def _common_type(a, b):
    """C's usual arithmetic conversions for a binary operator (None: not
    decided for platform-dependent widths)."""
    if a.kind == 'float' or b.kind == 'float':
        fl = [t for t in (a, b) if t.kind == 'float']
        if len(fl) == 1:
            return fl[0]
        if (fl[0].lo, fl[0].hi) == (fl[1].lo, fl[1].hi):
            return fl[0]
        if fl[0].hi <= fl[1].lo:
            return fl[1]
        if fl[1].hi <= fl[0].lo:
            return fl[0]
        return None
    INT = _ctype_info('int')
    a, b = (INT if t.hi < 32 else t for t in (a, b))      # integer promotions
    if a.text == b.text:
        return a
    if a.lo != a.hi or b.lo != b.hi or a.signed is None or b.signed is None:
        return None
    if a.signed == b.signed:
        return a if a.lo >= b.lo else b
    sg, us = (a, b) if a.signed else (b, a)
    if us.lo >= sg.lo:
        return us
    return sg                                           # the wider signed type holds every value of the unsigned one


def _conv_chain(fi, fn, e, depth=6):
    """The C types a value passes through between the innermost operand and
    the place where `e` is used: typecasts and C-typed scalar temporaries
    (implicit conversion at the assignment).  -> ([type text, ...] innermost
    first, innermost operand)."""
    if isinstance(e, ast.Call) and not e.keywords and call_name(e) == '__cy_cast__' and len(e.args) == 2:
        c, leaf = _conv_chain(fi, fn, e.args[1], depth)
        return c + [const_value(e.args[0])], leaf
    if isinstance(e, ast.Name) and isinstance(e.ctx, ast.Load) and depth > 0:
        t = fn.cy_locals.get(e.id)
        if t is not None and not t.is_buffer:
            v = Expander(fi, pure=CMATH).temp_value(e)
            if v is not None:
                c, leaf = _conv_chain(fi, fn, v, depth - 1)
                return c + [t.text], leaf
    return [], e


def _elem_alternatives(k, buf):
    """Specialisations of the element type of a typed buffer: [(fused name or
    None, type text)]."""
    out = []
    for e in (k.buffers.get(buf, (None, ''))[1] or '').split('|'):
        if not e:
            continue
        if e in k.fused:
            out += [(e, a.text) for a in k.fused[e]]
        else:
            out.append((None, e))
    return out


def _through(elem, chain, fused_name):
    """An element of type `elem` converted through `chain`: ('exact', ()) /
    ('modular', (types...)) / False (two distinct elements certainly become
    equal; [1] of the result names the step) / None (not decided)."""
    cur = _ctype_info(elem)
    if cur is None:
        return None, None
    mods = []
    for tx in chain:
        T = _ctype_info(elem) if (fused_name is not None and tx == fused_name) else _ctype_info(tx)
        if T is None:
            return None, tx
        r = _conv_step(cur, T)
        if r == 'exact':
            continue
        if r == 'modular':
            mods.append(T.text)
            cur = T
            continue
        if r == 'lossy' and not mods:
            return False, tx
        return None, tx
    return ('modular', tuple(mods)) if mods else ('exact', ()), None


def _static_type(elem, chain, fused_name):
    if not chain:
        return _ctype_info(elem)
    tx = chain[-1]
    return _ctype_info(elem) if (fused_name is not None and tx == fused_name) else _ctype_info(tx)


def exact_compare_verdict(k, fi, fn, lhs, rhs):
    """lhs / rhs: the two operands of the comparison as written (casts and
    temporaries included), whose innermost operands are elements of typed
    buffers.  -> (verdict, detail) with verdict 'match' (the comparison is the
    comparison of the elements for every specialisation), 'near' (for some
    specialisation two different elements compare equal), 'far'."""
    cl, leafl = _conv_chain(fi, fn, lhs)
    cr, leafr = _conv_chain(fi, fn, rhs)
    bufs = []
    for leaf in (leafl, leafr):
        if not (isinstance(leaf, ast.Subscript) and isinstance(leaf.value, ast.Name) and leaf.value.id in k.buffers):
            return 'far', 'operand `%s` is not an element of a typed buffer' % u(leaf)
        bufs.append(leaf.value.id)
    al, ar = _elem_alternatives(k, bufs[0]), _elem_alternatives(k, bufs[1])
    if not al or not ar:
        return 'far', 'element type of the buffers not known'
    if [f for f, _ in al] == [f for f, _ in ar] and al[0][0] is not None and len({f for f, _ in al}) == 1:
        pairs = list(zip(al, ar))                 # one fused type: specialised together
    else:
        pairs = [(p, q) for p in al for q in ar]
    lossy, undecided = [], []
    for (fl, el), (fr, er) in pairs:
        tl, tr = _static_type(el, cl, fl), _static_type(er, cr, fr)
        if tl is None or tr is None:
            undecided.append('%s: a type in the conversion is not in the table' % el)
            continue
        common = _common_type(tl, tr)
        if common is None:
            undecided.append('%s: common type of `%s` and `%s` depends on the platform' % (el, tl, tr))
            continue
        rl, wl = _through(el, cl + [common.text], fl)
        rr, wr = _through(er, cr + [common.text], fr)
        if rl is False or rr is False:
            lossy.append((el if rl is False else er, wl if rl is False else wr))
        elif rl is None or rr is None:
            undecided.append('%s: conversion to `%s` not decided' % (el, wl if rl is None else wr))
        elif rl != rr:
            undecided.append('%s / %s: the two operands are converted differently (%s vs %s)' % (el, er, rl[1] or 'unchanged', rr[1] or 'unchanged'))
    if lossy:
        kinds = sorted({e for e, _ in lossy})
        return 'near', 'elements of type %s are compared after conversion to `%s`, which does not represent every value of ' \
                       'that type: two different elements can compare equal' % (', '.join(kinds), lossy[0][1])
    if undecided:
        return 'far', undecided[0]
    return 'match', 'compared in %s' % ('the element type' if not (cl or cr) else 'a type that represents every element value')


def raw_compare_scan(ck, mod, kernels, fused):
    """A kernel whose normal form equals the reference's is analysed in the
    reference spelling (sa/core.py splices the reference function in).  The
    normal form forward-substitutes scalar temporaries WITHOUT regard to their
    declared C type, so `cdef double a = X[i, j]` ... `a != b` is spliced to
    `X[i, j] != y[j]` although the assignment converts the element.  For such
    kernels the comparisons between buffer elements are therefore judged once
    more on the function as written (parsed again, not normalised): only a
    comparison that is provably inexact is reported; anything else was already
    decided on the spliced form."""
    spliced = [kn for kn in kernels if kn in set(getattr(ck.repo, 'equivalent', {}).get(LD, ()))]
    if not spliced:
        return
    rule = 'C13.D5.formula.exact-compare'
    try:
        raw = Module(LD, mod.src, _canon_tree(parse_pyx_x(os.path.join(ck.repo.root, LD), LD)), 'pyx')
    except Exception as e:
        ck.missing(rule, 'kernels %s were recognised as re-spellings of the reference, but the source as written could not be '
                         'parsed again to judge the conversions of its C-typed temporaries (%r)' % (', '.join(spliced), e))
        return
    for kern in spliced:
        if kern not in raw.functions:
            continue
        fn = raw.functions[kern]
        fi = finfo(raw, fn)
        k = Kernel(raw, fn, fused)
        seen = set()
        for n in ast.walk(fn):
            if not (isinstance(n, ast.Compare) and len(n.ops) == 1 and isinstance(n.ops[0], (ast.Eq, ast.NotEq))) or id(n) in seen:
                continue
            seen.add(id(n))
            lhs, rhs = n.left, n.comparators[0]
            try:
                leaves = [_conv_chain(fi, fn, e)[1] for e in (lhs, rhs)]
            except Exception:
                continue
            if not all(isinstance(l, ast.Subscript) and isinstance(l.value, ast.Name) and l.value.id in k.buffers for l in leaves):
                continue
            xv, xd = exact_compare_verdict(k, fi, fn, lhs, rhs)
            if xv == 'near':
                ck.bad(rule, raw, n, kern, 'the elements are compared in a type that represents every value of every supported element type',
                       '%s compares `%s` with `%s` (= `%s` vs `%s` through C-typed temporaries / casts): %s'
                       % (kern, u(lhs), u(rhs), u(leaves[0]), u(leaves[1]), xd))


def _narrowing_scan(k, fi, fn, fused, expr):
    """Conversions inside `expr` (typecasts, C-typed scalar temporaries - also the bindings of C-typed
    parameters of inlined cdef helpers) that certainly change some value reaching them.  The widening to a
    type with at least double's mantissa is what the formula asks for and is never reported (int64 -> double
    rounds, but that IS the reference computation).  -> [(node, [value types affected], target type)]."""
    found = []

    def start_types(leaf):
        """[(fused name or None, type text)] of the values `leaf` can have."""
        if isinstance(leaf, ast.Subscript) and isinstance(leaf.value, ast.Name) and leaf.value.id in k.buffers:
            return _elem_alternatives(k, leaf.value.id)
        t = _CTypes(k, fn, fi, fused, set()).type_of(leaf)
        if t == 'double':
            return [(None, 'double')]
        return []

    def visit(e, depth=0):
        if depth > 12 or not isinstance(e, ast.AST):
            return
        chain, leaf = _conv_chain(fi, fn, e)
        if chain and leaf is not e:
            lossy = []
            for fname, elem in start_types(leaf):
                cur = _ctype_info(elem)
                if cur is None:
                    continue
                for tx in chain:
                    T = _ctype_info(elem) if (fname is not None and tx == fname) else _ctype_info(tx)
                    if T is None:
                        break
                    r = _conv_step(cur, T)
                    if r == 'exact':
                        continue
                    if T.kind == 'float' and T.lo >= 53:
                        cur = T                   # the widening to double (rounds 64-bit integers: reference behaviour)
                        continue
                    if r == 'lossy':
                        lossy.append((elem, tx))
                    break
            if lossy:
                tx = lossy[0][1]
                found.append((e, sorted({el for el, t in lossy if t == tx}), tx))
            visit(leaf, depth + 1)
            return
        if isinstance(e, ast.Name):
            # a temporary that is not C-typed / not a single pure definition: judge its definitions once
            try:
                defs = fi.defs_of_use(e) if isinstance(e.ctx, ast.Load) else ()
            except Exception:
                defs = ()
            for site in defs:
                if site in ('PARAM', 'UNBOUND') or id(site) in seen or not isinstance(site, (ast.Assign, ast.AnnAssign)):
                    continue
                seen.add(id(site))
                v = fi.def_value(site, e.id)
                if v is not None and e.id not in names_loaded(v):
                    visit(v, depth + 1)
            return
        for ch in ast.iter_child_nodes(e):
            if isinstance(ch, ast.expr):
                visit(ch, depth + 1)
    seen = set()
    visit(expr)
    return found


def _no_rows(k, c, X, out):
    """The comparison says that the number of rows is zero (`n == 0`, `n < 1`, `n <= 0` with n the extent
    of dimension 0 of X / out)."""
    def rows(e):
        t = norm_extent(e)
        return bool(k.extent_eq(t, out, 0) or k.extent_eq(t, X, 0))
    if c.op is ast.Eq:
        return (rows(c.lhs) and const_value(c.rhs) == 0 and not isinstance(const_value(c.rhs), bool)) or \
            (rows(c.rhs) and const_value(c.lhs) == 0 and not isinstance(const_value(c.lhs), bool))
    less = c.as_less()
    if less is not None:
        small, strict, big = less
        b = const_value(big)
        return rows(small) and isinstance(b, int) and not isinstance(b, bool) and (b <= 1 if strict else b <= 0)
    return False


def _written_term(s, out):
    """The accumulated term of `out[I] += T` / `out[I] = out[I] + T` as written
    (not expanded); None when the store has another shape."""
    if isinstance(s, ast.AugAssign):
        return s.value if isinstance(s.op, ast.Add) else None
    if isinstance(s, ast.Assign) and len(s.targets) == 1 and isinstance(s.value, ast.BinOp) and isinstance(s.value.op, ast.Add):
        tg = u(s.targets[0])
        for a, b in ((s.value.left, s.value.right), (s.value.right, s.value.left)):
            if u(a) == tg and out not in names_loaded(b):
                return b
    return None


def _after(fi, a, La, s, Ls):
    """Statement s can execute after a for the same cell (not counting a later
    iteration of the loop they share)."""
    if Ls is not None and Ls is La:
        return fi.cfg.reachable(a, s, avoiding=[La])
    return fi.cfg.reachable(a, s)


# ---------------------------------------------------------------------------
# cell form: the running value of row i held in a C scalar local
#
#     for i in prange(n):            for i in prange(n):
#         acc = 0                        out[i] = 0
#         for j in range(m):    ==       for j in range(m):
#             acc = acc + T                  out[i] = out[i] + T
#         out[i] = f(acc)                out[i] = f(out[i])
#
# The two programs store the same values into `out` when (a) every use of `acc`
# lies in the body of the one loop whose variable indexes the store, (b) in
# every iteration a plain assignment to `acc` comes before every other use
# (nothing is carried over from another row), (c) the store `out[i] = f(acc)`
# is executed in every iteration after the last assignment to `acc`, and
# nothing else touches `out` in that loop, (d) `acc` has the type of the cells
# of `out` (double), so that no value is converted on the way.  D3 and D5 are
# decided on the right-hand program (a copy of the module: positions kept);
# D1/D2 on the kernel as written (there `acc` must be a thread-private C scalar).
# When (a)-(c) hold but the declared type of `acc` cannot hold a double, the
# running sum is narrowed at every step: C13.D5.formula.accumulator-type.

_keep_alive = []


class _AccToCell(ast.NodeTransformer):
    def __init__(self, acc, out, idx):
        self.acc, self.out, self.idx = acc, out, idx

    def visit_Name(self, n):
        if n.id != self.acc:
            return n
        return ast.copy_location(ast.Subscript(value=ast.copy_location(ast.Name(id=self.out, ctx=ast.Load()), n),
                                               slice=ast.copy_location(ast.Name(id=self.idx, ctx=ast.Load()), n),
                                               ctx=type(n.ctx)()), n)


def _occurrence_stmts(fi, fn, name):
    """Statements (CFG nodes) in which the local `name` occurs, declarations
    without a value left out; None when an occurrence cannot be attributed."""
    out = []
    for n in walk_local(fn):
        if not (isinstance(n, ast.Name) and n.id == name):
            continue
        try:
            st = fi.stmt(n)
        except Exception:
            st = None
        if st is None:
            return None
        if isinstance(st, ast.AnnAssign) and st.value is None:
            continue
        if not any(st is x for x in out):
            out.append(st)
    return out


def _row_accumulator(mod, fn, k, name, t):
    """-> None (not a row accumulator / not recognised) | dict(loop, idx, init, finals, stmts)"""
    fi = k.fi
    out = params(fn)[2]
    sts = _occurrence_stmts(fi, fn, name)
    if not sts:
        return None
    # dead initialisers outside every loop (`cdef double acc = 0` at the top) are tolerated when (b) holds
    finals = [s for s in sts if isinstance(s, ast.Assign) and len(s.targets) == 1 and isinstance(s.targets[0], ast.Subscript)
              and isinstance(s.targets[0].value, ast.Name) and s.targets[0].value.id == out
              and name in names_loaded(s.value)]
    if not finals:
        return None
    Li = None
    for f in finals:
        tg = f.targets[0]
        loops = k.enclosing_loops(f)
        if not (isinstance(tg.slice, ast.Name) and len(loops) == 1 and isinstance(loops[0].target, ast.Name)
                and loops[0].target.id == tg.slice.id) or (Li is not None and loops[0] is not Li):
            return None
        Li = loops[0]
    idx = Li.target.id
    inside = [s for s in sts if Li in k.enclosing_loops(s)]
    outside = [s for s in sts if not any(s is x for x in inside)]
    for s in outside:
        ok = isinstance(s, (ast.Assign, ast.AnnAssign)) and not k.enclosing_loops(s) and s.value is not None \
            and name not in names_loaded(s.value) and isinstance((s.targets[0] if isinstance(s, ast.Assign) else s.target), ast.Name)
        if not ok:
            return None
    defs = [s for s in inside if name in stmt_defs(s)]
    inits = [s for s in defs if isinstance(s, ast.Assign) and len(s.targets) == 1 and isinstance(s.targets[0], ast.Name)
             and name not in names_loaded(s.value) and k.enclosing_loops(s) == [Li]]
    # (b) from the loop header no use is reached without passing an initialiser
    for s in inside:
        if any(s is x for x in inits):
            continue
        if fi.cfg.reachable(Li, s, avoiding=inits):
            # an accumulation `acc = acc <op> T` that an iteration reaches with whatever the local held before - and the
            # value is then stored to the cell of this row - is the scalar form of "accumulate before zeroing"
            selfacc = s in defs and name in (names_loaded(s.value) if not isinstance(s, ast.AugAssign) else {name})
            plain = all(isinstance(d, (ast.Assign, ast.AugAssign)) for d in defs)
            fresh = [d for d in defs if isinstance(d, ast.Assign) and name not in names_loaded(d.value)]
            if selfacc and plain and fi.cfg.reachable(Li, s, avoiding=fresh) \
                    and all(isinstance(o, (ast.Assign, ast.AnnAssign)) for o in outside):
                return {'carried': s, 'loop': Li, 'idx': idx, 'finals': finals, 'type': t}
            return None
    if not inits:
        return None
    # only plain / augmented assignments to the bare name define it (no tuple targets, no loop target)
    for s in defs:
        tg = s.targets[0] if isinstance(s, ast.Assign) and len(s.targets) == 1 else (s.target if isinstance(s, ast.AugAssign) else None)
        if not (isinstance(tg, ast.Name) and tg.id == name):
            return None
    # (c) the store is executed in every iteration, after the last assignment, and is the only access to `out`
    for f in finals:
        if any(_after(fi, f, Li, d, Li) for d in defs):
            return None
    if any(fi.cfg.reachable(i0, Li, avoiding=finals) for i0 in inits) or any(isinstance(x, (ast.Break, ast.Continue, ast.Return, ast.While))
                                                               for x in walk_local(Li)):
        return None
    for x in walk_local(Li):
        if isinstance(x, ast.Name) and x.id == out and not any(x is f.targets[0].value for f in finals):
            return None
    # the row index is not assigned inside the loop
    for x in walk_local(Li):
        if isinstance(x, ast.stmt) and x is not Li and idx in stmt_defs(x):
            return None
    return {'loop': Li, 'idx': idx, 'inits': inits, 'finals': finals, 'defs': defs, 'outside': outside, 'type': t}


def cell_form(ck, mod, kernels, fused, metric_of):
    """-> module in which recognised scalar row accumulators are rewritten to
    the cell they are stored to (`mod` itself when there is none)."""
    plans = []
    for kern in kernels:
        fn = mod.functions.get(kern)
        if fn is None or len(params(fn)) < 3:
            continue
        k = Kernel(mod, fn, fused)
        out = params(fn)[2]
        oel = [e for e in (k.buffers.get(out, (None, ''))[1] or '').split('|') if e]
        for name, t in fn.cy_locals.items():
            if t.is_buffer or getattr(t, 'pointer', False):
                continue
            ra = _row_accumulator(mod, fn, k, name, t)
            if ra is None:
                continue
            if 'carried' in ra:
                cs = ra['carried']
                ck.bad('C13.D3.zero-first', mod, cs, kern, 'row accumulator `%s` of `%s[%s]`: %s' % (name, out, ra['idx'], u(cs)),
                       '%s accumulates the value of row %s in the local `%s` (`%s`, stored by `%s`) but an iteration of `for %s in %s` '
                       'can reach that statement without first assigning `%s`: the sum starts from what an earlier row (with prange: '
                       'another thread\'s rows) left there, so the distances depend on the other rows' % (
                           kern, ra['idx'], name, u(cs), u(ra['finals'][0]), ra['idx'], u(ra['loop'].iter), name))
                continue
            info = _ctype_info(t.text)
            rule = 'C13.D5.formula.accumulator-type'
            construct = 'cdef %s %s: running value of `%s[%s]`' % (t.text, name, out, ra['idx'])
            plans.append((kern, name, ra))    # the shape of the computation is judged in cell form whatever the type
            if (t.text in WIDE or t.base in WIDE) and oel and all(e in WIDE for e in oel):
                ck.ok(rule, mod, ra['inits'][0], construct, 'the row accumulator has the type of the output cells')
                continue
            step = _conv_step(_ctype_info('double'), info) if info is not None else None
            accumulates = [d for d in ra['defs'] if not any(d is i for i in ra['inits'])]
            real_terms = any(m in ('euclidean', 'manhattan') for m in metric_of.get(kern, ()))
            if step == 'lossy' and accumulates and real_terms:
                ck.bad(rule, mod, accumulates[0], kern, construct,
                       '%s keeps the running sum of row %s in `cdef %s %s` (`%s`) and stores it to the float64 cell only at the end '
                       '(`%s`): every partial sum is converted to `%s`, which cannot hold a double (%s), so the distance is '
                       'rounded/truncated at every step. The accumulator must be a double'
                       % (kern, ra['idx'], t.text, name, u(accumulates[0]), u(ra['finals'][0]), t.text,
                          'integer: fractions are dropped' if info.kind == 'int' else '%d-bit mantissa' % info.hi))
            else:
                ck.missing(rule, '%s: row accumulator `%s` of type `%s` is not a double: effect of the conversions not decided'
                           % (kern, name, t.text))
    if not plans:
        return mod
    tree = copy.deepcopy(mod.tree)
    for a in ('cy_fused', 'cy_externs'):
        if hasattr(mod.tree, a):
            setattr(tree, a, getattr(mod.tree, a))
    clone = Module(mod.rel, mod.src, tree, mod.kind)
    # positions identify the statements of the copy
    for kern, name, ra in plans:
        fn2 = clone.functions[kern]
        out = params(fn2)[2]
        key = lambda s: (type(s).__name__, getattr(s, 'lineno', None), getattr(s, 'col_offset', None), u(s))
        drop = {key(s) for s in ra['outside']}
        tr = _AccToCell(name, out, ra['idx'])

        def rewrite(body):
            new = []
            for s in body:
                if isinstance(s, ast.AnnAssign) and isinstance(s.target, ast.Name) and s.target.id == name and s.value is None:
                    continue                  # the declaration
                if key(s) in drop:
                    continue                  # dead initialiser outside the loop
                for f in ('body', 'orelse', 'finalbody'):
                    b = getattr(s, f, None)
                    if isinstance(b, list) and b and isinstance(b[0], ast.stmt):
                        setattr(s, f, rewrite(b) or [ast.copy_location(ast.Pass(), s)])
                if not isinstance(s, (ast.For, ast.While, ast.If, ast.With, ast.Try)):
                    s = tr.visit(s)
                elif isinstance(s, (ast.If, ast.While)):
                    s.test = tr.visit(s.test)
                elif isinstance(s, ast.For):
                    s.iter = tr.visit(s.iter)
                if isinstance(s, ast.Assign) and len(s.targets) == 1 and u(_strip_wide(s.value)) == u(s.targets[0]):
                    continue                  # out[i] = out[i]
                new.append(s)
            return new
        fn2.body = rewrite(fn2.body) or [ast.Pass()]
        fn2.cy_locals = {n: t for n, t in fn2.cy_locals.items() if n != name}
    ast.fix_missing_locations(tree)
    clone = Module(mod.rel, mod.src, tree, mod.kind)
    _keep_alive.append(clone)
    return clone


def d5_formulas(ck, mod, fused, kernel_of):
    """The kernel an entry point reaches is judged against the formula of THAT
    entry point's metric."""
    rule = 'C13.D5.formula'
    nacc = 0
    want_fin = {'euclidean': 'sqrt', 'manhattan': None, 'hamming': 'div'}
    want_txt = {'euclidean': '(X[i,j]-y[j])**2 then sqrt', 'manhattan': 'fabs(X[i,j]-y[j])',
                'hamming': 'count of X[i,j] != y[j], divided by n_features'}
    for metric, kern in [(w, kn) for w in WRAPPERS for kn in kernel_of.get(w, ())]:
        fn = mod.func(kern)
        fi = finfo(mod, fn)
        k = Kernel(mod, fn, fused)
        X, y, out = params(fn)[:3]
        if any(_rebinds(fi, nm) for nm in (X, y, out)):
            ck.missing(rule, 'a buffer parameter of %s is rebound' % kern)
            continue

        def temp_ok(name, fn=fn):
            t = fn.cy_locals.get(name)
            return t is not None and not t.is_buffer and (t.text in WIDE or t.base in fused)

        def E():
            return Expander(fi, pure=CMATH, temp_ok=temp_ok)
        # scalars whose value is the same in every iteration (extents); a scalar assigned inside a loop
        # carries a running value: an expression over it is not "a function of the inputs"
        carried = {nm for st in walk_local(fn) if isinstance(st, ast.stmt) and not isinstance(st, ast.For)
                   and k.enclosing_loops(st) for nm in stmt_defs(st)}
        scalars = set(k.scalars) - carried
        # ---- every way `out` is written
        inits, accs, fins = [], [], []
        opaque_store = False
        for c in calls_in(fn):
            direct = [a for a in list(c.args) + [kw.value for kw in c.keywords] if isinstance(a, ast.Name) and a.id == out]
            meth = isinstance(c.func, ast.Attribute) and isinstance(c.func.value, ast.Name) and c.func.value.id == out \
                and c.func.attr in MUTATING_METHODS
            if direct and not meth and call_name(c) in _ALIASING_READS and len(c.args) == 1 and not c.keywords \
                    and any(c is x for r in returns_of(fn) if r.value is not None for x in ast.walk(r.value)):
                continue    # a no-copy array view of the buffer made inside the returned expression: nothing in the
                            # kernel can store through it (what the callers do with the kernel's result is D4)
            if (direct and call_name(c) not in _SHAPE_READS) or meth:
                opaque_store = True
                ck.missing(rule, '%s: the output buffer is handed to `%s`; its effect on the cells is not analysed' % (kern, u(c)))
        for s in walk_local(fn):
            if isinstance(s, ast.Assign) and len(s.targets) == 1:
                tg = s.targets[0]
            elif isinstance(s, ast.AugAssign):
                tg = s.target
            else:
                continue
            if not (isinstance(tg, ast.Subscript) and isinstance(tg.value, ast.Name) and tg.value.id == out):
                continue
            ev = E().expand(s.value)
            if isinstance(s, ast.AugAssign):
                if isinstance(s.op, ast.Add):
                    accs.append((s, tg, ev))
                    continue
                if isinstance(s.op, ast.Div):
                    fins.append((s, tg, 'div', ev))
                    continue
                kind = None
            else:
                reads = [x for x in walk_expr(ev) if isinstance(x, ast.Name) and x.id == out]
                if not reads:
                    inits.append((s, tg, ev))
                    continue
                kind = None
                same = lambda m: m is not None and u(m['_I']) == u(canon(tg.slice))
                for pat in ('%s[_I] + _T' % out, '_T + %s[_I]' % out):
                    m = match(pat, ev)
                    if same(m) and out not in names_loaded(m['_T']):
                        accs.append((s, tg, m['_T']))
                        kind = 'acc'
                        break
                if kind is None:
                    for pat in ('sqrt(%s[_I])' % out, 'np.sqrt(%s[_I])' % out, '%s[_I] ** 0.5' % out, 'pow(%s[_I], 0.5)' % out):
                        if same(match(pat, ev)):
                            fins.append((s, tg, 'sqrt', None))
                            kind = 'sqrt'
                            break
                if kind is None:
                    m = match('%s[_I] / _D' % out, ev)
                    if same(m) and out not in names_loaded(m['_D']):
                        fins.append((s, tg, 'div', m['_D']))
                        kind = 'div'
                if kind is not None:
                    continue
            loops = k.enclosing_loops(s)
            scope = {X, y, out} | scalars | {l.target.id for l in loops if isinstance(l.target, ast.Name)}
            if _closed(ev, scope, CMATH):
                ck.bad(rule + '.store', mod, s, kern, u(s),
                       '%s writes `%s` into the output buffer: not an initialisation, an accumulation of the '
                       'metric\'s term or its finishing step (%s)' % (kern, u(s), want_txt[metric]))
            else:
                opaque_store = True
                ck.missing(rule + '.store', 'store `%s` in %s not recognised' % (u(s), kern))

        def idx_loop(s, tg):
            """(index variable, its loop, all enclosing loops) of a store out[v]."""
            loops = k.enclosing_loops(s)
            if not isinstance(tg.slice, ast.Name):
                return None, None, loops
            byvar = {l.target.id: l for l in loops if isinstance(l.target, ast.Name)}
            return tg.slice.id, byvar.get(tg.slice.id), loops

        def coverage(s, loop, buf, dim, what):
            fr = _full_range(k, loop, buf, dim)
            construct = '%s covers %s' % (u(loop.iter), what)
            if fr:
                ck.ok(rule + '.coverage', mod, loop, construct, 'range(0, extent) with unit step')
            elif fr is False and names_loaded(loop.iter) <= scalars | {X, y, out, 'range', 'prange', 'len', 'True', 'False'}:
                ck.bad(rule + '.coverage', mod, loop, kern, construct,
                       'the loop `for %s in %s` around `%s` does not visit every %s exactly once '
                       '(expected range(0, extent) with unit step): cells/coordinates are skipped'
                       % (u(loop.target), u(loop.iter), u(s), what))
            else:
                ck.missing(rule + '.coverage', 'iteration space `%s` in %s not recognised' % (u(loop.iter), kern))
            return bool(fr)

        # ---- initial stores: the value 0
        for s, tg, ev in inits:
            c = const_value(ev)
            if c in (0, 0.0) and not isinstance(c, bool):
                ck.ok(rule + '.init', mod, s, u(s), 'cells start at 0')
            elif _closed(ev, {X, y} | scalars | {l.target.id for l in k.enclosing_loops(s) if isinstance(l.target, ast.Name)}, CMATH) \
                    and any(fi.cfg.reachable(s, a[0]) for a in accs):
                # the store is in the role "value the cell has when the accumulation starts"
                ck.bad(rule + '.init', mod, s, kern, u(s),
                       'the output cell must start at 0 before the per-row sum is accumulated; `%s` makes every '
                       'distance start from another value' % u(s))
            else:
                opaque_store = True
                ck.missing(rule + '.init', 'store `%s` in %s not recognised%s' % (
                    u(s), kern, (' (value of the loop-carried local %s not followed)' % ', '.join(sorted(names_loaded(ev) & carried)))
                    if names_loaded(ev) & carried else
                    (' (no accumulation follows it: another way of computing the cells, not compared with the formula)'
                     if not any(fi.cfg.reachable(s, a[0]) for a in accs) else '')))

        # ---- finishing stores: shape, once per cell
        fin_ok = []
        for s, tg, kind, opnd in fins:
            iv, Ls, loops = idx_loop(s, tg)
            sub = '.sqrt' if kind == 'sqrt' else '.fraction'
            if Ls is not None and len(loops) > 1 and all(_full_range(k, l, out, 0) is not None for l in loops):
                ck.bad(rule + sub, mod, s, kern, u(s),
                       'the finishing step `%s` sits inside %d nested loops: it is applied to the same cell more than once '
                       '(and to partial sums)' % (u(s), len(loops)))
                opaque_store = True       # no second report "missing finishing step"
                continue
            if Ls is None or len(loops) != 1:
                ck.missing(rule, 'finishing store `%s` in %s is not inside exactly one loop over its own index' % (u(s), kern))
                opaque_store = True
                continue
            conds, cok = _conds_between(mod, s, Ls)
            if conds or not cok:
                ck.missing(rule, 'finishing store `%s` in %s is conditional' % (u(s), kern))
                opaque_store = True
                continue
            if kind != want_fin[metric]:
                ck.bad(rule + ('.sqrt' if kind == 'sqrt' else '.fraction'), mod, s, kern, u(s),
                       '%s must not post-process its sums with `%s` (expected %s)' % (kern, u(s), want_txt[metric]))
                continue
            if not coverage(s, Ls, out, 0, 'every row'):
                continue
            if kind == 'div':
                d = _strip_cast(opnd)
                if k.extent_eq(norm_extent(d), X, 1) or k.extent_eq(norm_extent(d), y, 0):
                    ck.ok(rule + '.fraction', mod, s, u(s), 'count divided by the number of features')
                elif _closed(d, {X, y, out} | scalars):
                    ck.bad(rule + '.fraction', mod, s, kern, u(s),
                           'hamming must divide each row count by n_features (= X.shape[1]); `%s` is not known to equal it' % u(d))
                    continue
                else:
                    ck.missing(rule + '.fraction', 'divisor `%s` in %s not recognised' % (u(d), kern))
                    continue
            fin_ok.append((s, Ls, kind))

        # ---- accumulations
        rets = returns_of(fn)
        for s, tg, term in accs:
            nacc += 1
            iv, Li, loops = idx_loop(s, tg)
            if Li is None or len(loops) != 2 or not all(isinstance(l.target, ast.Name) for l in loops):
                ck.missing(rule, 'accumulation `%s` in %s is not inside a (row, feature) loop pair over its own index' % (u(s), kern))
                continue
            Lj = [l for l in loops if l is not Li][0]
            jv = Lj.target.id
            outer = loops[-1]
            if any(isinstance(x, (ast.Break, ast.Continue, ast.Return, ast.While)) for x in walk_local(outer)):
                ck.missing(rule, 'loop around `%s` in %s is left early (break/continue/return)' % (u(s), kern))
                continue
            coverage(s, Li, out, 0, 'every row')
            coverage(s, Lj, X, 1, 'every feature')
            conds0, cok = _conds_between(mod, s, outer)
            ex = E()
            conds = []
            compared = None           # hamming: (lhs, rhs) of the deciding comparison AS WRITTEN (casts, temporaries)
            for c in conds0:
                if isinstance(c, Cmp) and metric == 'hamming':
                    # shape: the elements that are compared, seen through every conversion; whether those
                    # conversions keep the comparison exact is a separate obligation (.exact-compare)
                    ll, lr = _conv_chain(fi, fn, c.lhs)[1], _conv_chain(fi, fn, c.rhs)[1]
                    conds.append(Cmp(ex.expand(ll), c.op, ex.expand(lr)))
                    compared = (c.lhs, c.rhs) if len(conds0) == 1 else None
                else:
                    conds.append(Cmp(ex.expand(c.lhs), c.op, ex.expand(c.rhs)) if isinstance(c, Cmp) else c)
            scope = {X, y, iv, jv}
            shape_term = _strip_wide(term)
            if metric == 'hamming' and not conds0:
                wr = _written_term(s, out)
                cmpn = _conv_chain(fi, fn, wr)[1] if wr is not None else None      # conversions of the 0/1 RESULT are exact
                if isinstance(cmpn, ast.Compare) and len(cmpn.ops) == 1:
                    compared = (cmpn.left, cmpn.comparators[0])
                    shape_term = ast.copy_location(ast.Compare(
                        left=ex.expand(_conv_chain(fi, fn, compared[0])[1]), ops=list(cmpn.ops),
                        comparators=[ex.expand(_conv_chain(fi, fn, compared[1])[1])]), cmpn)
            verdict, detail = _term_verdict(metric, shape_term, conds, cok, X, y, iv, jv, scope)
            ck.decide(verdict, rule, mod, s, kern, u(s), want_txt[metric] + ' [' + detail + ']',
                      '%s accumulates `%s`%s; expected %s' % (
                          kern, u(term), (' under `%s`' % ' and '.join(repr(c) if isinstance(c, Cmp) else u(c[1]) for c in conds)) if conds else '',
                          want_txt[metric]))
            # hamming: "differ" is decided on the elements themselves.  The comparison is carried out in the
            # common C type of its operands AFTER the conversions written in the source; a conversion that does
            # not represent every value of some specialisation of the fused element type (int64/uint64 through
            # double: 53 mantissa bits; a narrower integer; float) makes two different elements compare equal
            if metric == 'hamming' and verdict == 'match':
                xrule = rule + '.exact-compare'
                if compared is None:
                    ck.missing(xrule, '%s: the comparison that decides `differ` was not located as written' % kern)
                else:
                    xv, xd = exact_compare_verdict(k, fi, fn, compared[0], compared[1])
                    ck.decide(xv, xrule, mod, s, kern,
                              'hamming: the elements are compared in a type that represents every value of every supported element type',
                              '`%s` vs `%s`: %s' % (u(compared[0]), u(compared[1]), xd),
                              '%s decides whether two coordinates differ by comparing `%s` with `%s`: %s. The count (and the '
                              'fraction) is then too small for such data; compare the elements in their own type '
                              '(`X[i, j] != y[j]`)' % (kern, u(compared[0]), u(compared[1]), xd))
            # where the arithmetic of the term is carried out: the accumulator is float64, but a
            # difference / square of two cells of the (fused) element type is computed IN that type and
            # only its result is widened: int32/int64 wrap around, float32 rounds / overflows to inf
            if metric in ('euclidean', 'manhattan'):
                ct = _CTypes(k, fn, fi, fused, {out})
                ct.type_of(s.value)
                wrule = rule + '.widen'
                if ct.narrow:
                    b = ct.narrow[0]          # innermost first
                    txt = u(b)[:100]
                    ck.bad(wrule, mod, b if hasattr(b, 'lineno') else s, kern,
                           '%s: arithmetic of the accumulated term is carried out in the element type of the input buffers' % metric,
                           '%s computes `%s` in the (fused) element type of X and y and widens only the result to the float64 '
                           'accumulator: for np.int32_t / np.int64_t data the difference (and its square) wraps around in C integer '
                           'arithmetic (nan or a silently wrong distance), for np.float32_t data it is rounded to single precision '
                           'and its square overflows to inf / underflows to 0. Both operands must be widened to double BEFORE '
                           'the subtraction (`<double>X[i, j] - <double>y[j]`)' % (kern, txt))
                elif ct.unknown:
                    ck.missing(wrule, '%s: C type of `%s` in the accumulated term not decided' % (kern, u(ct.unknown[0])[:80]))
                else:
                    ck.ok(wrule, mod, s, u(s), 'every arithmetic operation of the term has a double operand (widened before the operation)')
                # ... and no value is NARROWED on its way into the term: a typecast / C-typed temporary / C-typed
                # helper parameter whose type cannot hold every value that reaches it (float for int32/int64/float64
                # elements or for a double intermediate, an integer type for a double) changes the distance
                for node, kinds, tx in _narrowing_scan(k, fi, fn, fused, s.value):
                    ck.bad(rule + '.narrowing', mod, node if hasattr(node, 'lineno') else s, kern,
                           '%s: a value of the accumulated term is converted to a narrower C type' % metric,
                           '%s converts `%s` to `%s` inside the accumulated term `%s`: values of type %s are not representable in '
                           '`%s` (rounded / truncated), so the distance differs from the float64 2-norm / 1-norm of x - y for such data. '
                           'Elements must be widened to double and stay double' % (
                               kern, u(node)[:80], tx, u(s.value)[:120], ', '.join(kinds), tx))
            # nothing resets the cell after it was accumulated into
            for z, ztg, _ in inits:
                _, Lz, _l = idx_loop(z, ztg)
                if _after(fi, s, Li, z, Lz):
                    ck.bad(rule + '.init', mod, z, kern, u(z) + ' after ' + u(s),
                           'the cell is overwritten after the sum was accumulated: the result is lost')
            # the finishing store, exactly once, on every path to a return
            kind = want_fin[metric]
            if kind is None:
                continue
            sub = '.sqrt' if kind == 'sqrt' else '.fraction'
            what = ('out[i] = sqrt(out[i]) applied once' if kind == 'sqrt'
                    else 'count divided by the number of features once per row')
            for r in rets:
                if not fi.cfg.reachable(s, r):
                    continue
                on = []
                for f, Ls, fk in fin_ok:
                    if _after(fi, s, Li, f, Ls) and not _after(fi, f, Ls, s, Li) and fi.cfg.reachable(f, r):
                        on.append((f, Ls))
                if len(on) == 1:
                    f, Ls = on[0]
                    bypass = fi.cfg.reachable(s, r, avoiding=[f if Ls is Li else Ls])
                    ck.check(not bypass, rule + sub, mod, f, kern, u(f), what,
                             'a path from the accumulation `%s` to the return goes round `%s`' % (u(s), u(f)))
                elif len(on) > 1:
                    ck.bad(rule + sub, mod, on[1][0], kern, '; '.join(u(f) for f, _ in on),
                           ('euclidean must take the square root of each accumulated sum exactly once' if kind == 'sqrt'
                            else 'hamming must divide each row count by n_features once') + ': applied %d times' % len(on))
                elif opaque_store:
                    ck.missing(rule + sub, 'finishing step of %s not recognised' % kern)
                else:
                    ck.bad(rule + sub, mod, fn, kern, 'sqrt' if kind == 'sqrt' else '/=',
                           ('euclidean must take the square root of each accumulated sum exactly once' if kind == 'sqrt'
                            else 'hamming must divide each row count by n_features once') +
                           ': no such store follows `%s`' % u(s))
        # ---- every way OUT of the kernel passes the accumulation: a return that can be reached round the
        # (outermost) loop of an accumulation hands back cells that were not computed by this call
        seen_loops = []
        for s, tg, term in accs:
            loops = k.enclosing_loops(s)
            if not loops or any(loops[-1] is l for l in seen_loops):
                continue
            seen_loops.append(loops[-1])
            for r in rets:
                if not fi.cfg.reachable(ENTRY, r, avoiding=[loops[-1]]):
                    continue
                conds, cok = _conds_between(mod, r, fn)
                construct = 'exit `%s` of %s round the loop `for %s in %s`' % (u(r), kern, u(loops[-1].target), u(loops[-1].iter))
                if cok and conds and not k.enclosing_loops(r) and any(isinstance(c, Cmp) and _no_rows(k, c, X, out) for c in conds):
                    ck.ok(rule + '.exit', mod, r, construct, 'taken only when there is no row to compute')
                elif cok and conds and not k.enclosing_loops(r) and all(
                        isinstance(c, Cmp) and _closed(c.lhs, {X, y, out} | scalars) and _closed(c.rhs, {X, y, out} | scalars)
                        for c in conds):
                    ck.bad(rule + '.exit', mod, r, kern, construct,
                           '%s returns under `%s` without running the accumulation `%s`: for such input the cells of the output '
                           'buffer are not the distances of this call (stale contents of the caller\'s buffer / zeros / another '
                           'formula)' % (kern, ' and '.join(repr(c) for c in conds), u(s)))
                else:
                    ck.missing(rule + '.exit', '%s: `%s` at %s can be reached without running the accumulation `%s`; the '
                               'condition of that exit is not recognised' % (kern, u(r), mod.loc(r), u(s)))
        if not accs and not opaque_store:
            ck.bad(rule, mod, fn, kern, kern, 'expected an accumulation `out[i] += term`, found none')
    ck.floor(rule, nacc, 3, 'accumulations into the output buffer')


# ---------------------------------------------------------------------------
# D3: semantic second opinion for the shared (partly positional) kernel rule

class _Recheck:
    """Checker proxy: an obligation the shared kernel rule reports as broken is
    re-examined with a semantic predicate before it is recorded."""

    def __init__(self, ck, again):
        self._ck, self._again = ck, again

    def __getattr__(self, name):
        return getattr(self._ck, name)

    def check(self, cond, rule, mod, node, function, construct, detail_ok='', detail_bad='', witness=None):
        if not cond:
            why = self._again(node)
            if why:
                self._ck.ok(rule, mod, node, construct, why)
                return True
        return self._ck.check(cond, rule, mod, node, function, construct, detail_ok, detail_bad, witness)


def _zero_first(mod, fn, fused):
    """again(acc) -> reason if every execution of the accumulation `out[i] op= v`
    is preceded by a plain store to that cell: in the same row iteration
    (dominating store to out[i]), by a dominating earlier loop that stores
    every row unconditionally, or by a dominating whole-buffer store."""
    k = Kernel(mod, fn, fused)
    fi = k.fi
    out = params(fn)[2]

    def own_loop(s, tg):
        if not isinstance(tg.slice, ast.Name):
            return None
        for l in k.enclosing_loops(s):
            if isinstance(l.target, ast.Name) and l.target.id == tg.slice.id:
                return l
        return None

    def again(acc):
        atg = acc.target if isinstance(acc, ast.AugAssign) else (
            acc.targets[0] if isinstance(acc, ast.Assign) and len(acc.targets) == 1 else None)
        if not (isinstance(atg, ast.Subscript) and isinstance(atg.value, ast.Name) and atg.value.id == out):
            return None
        La = own_loop(acc, atg)
        if La is None:
            return None
        for z in walk_local(fn):
            if not (isinstance(z, ast.Assign) and len(z.targets) == 1 and isinstance(z.targets[0], ast.Subscript)
                    and isinstance(z.targets[0].value, ast.Name) and z.targets[0].value.id == out
                    and out not in names_loaded(z.value)):
                continue
            tg = z.targets[0]
            sl = tg.slice
            if isinstance(sl, ast.Slice) and sl.lower is None and sl.upper is None and sl.step is None:
                if fi.cfg.dominates(z, acc):
                    return 'the whole buffer is stored (`%s`) before every accumulation' % u(z)
                continue
            Lz = own_loop(z, tg)
            if Lz is None:
                continue
            if Lz is La:
                if fi.cfg.dominates(z, acc):
                    return 'cell %s is stored (`%s`) before every accumulation in the same iteration' % (u(tg), u(z))
                continue
            conds, cok = _conds_between(mod, z, Lz)
            if len(k.enclosing_loops(z)) == 1 and not conds and cok and _full_range(k, Lz, out, 0) \
                    and not any(isinstance(x, (ast.Break, ast.Continue, ast.Return)) for x in walk_local(Lz)) \
                    and fi.cfg.dominates(Lz, acc) and not fi.cfg.reachable(acc, Lz):
                return 'a dominating earlier loop `for %s in %s` stores every cell (`%s`)' % (u(Lz.target), u(Lz.iter), u(z))
        return None
    return again


# ---------------------------------------------------------------------------
# D6: registry

def _module_imports(mod):
    """local name -> (module, original name or None for `import m as x`)."""
    out = {}
    for n in ast.walk(mod.tree):
        if isinstance(n, ast.ImportFrom):
            for a in n.names:
                out[a.asname or a.name] = ((n.module or ''), a.name)
        elif isinstance(n, ast.Import):
            for a in n.names:
                if a.asname:
                    out[a.asname] = (a.name, None)
                else:
                    out[a.name.split('.')[0]] = (a.name.split('.')[0], None)
    return out


def _module_constant(mod, name):
    """Elements of a module-level `name = [consts...]` (single assignment)."""
    vals = [s.value for s in mod.tree.body if isinstance(s, ast.Assign)
            and any(isinstance(t, ast.Name) and t.id == name for t in s.targets)]
    others = [s for s in ast.walk(mod.tree) if isinstance(s, (ast.Assign, ast.AugAssign, ast.AnnAssign))
              and name in sum((target_names(t) for t in (s.targets if isinstance(s, ast.Assign) else [s.target])), [])]
    if len(vals) != 1 or len(others) != 1:
        return None
    return _const_elems(vals[0])


def _const_elems(e):
    if isinstance(e, (ast.List, ast.Tuple, ast.Set)) and all(isinstance(x, ast.Constant) for x in e.elts):
        return [x.value for x in e.elts]
    if isinstance(e, ast.Dict) and all(isinstance(x, ast.Constant) for x in e.keys):
        return [x.value for x in e.keys]
    return None


_DICT_READS = ('get', 'keys', 'values', 'items', 'copy')


def _module_table(mod, name):
    """[(key, value expr)] of a module-level `name = {const: expr, ...}` that is
    assigned once and only ever read (membership test, subscript load,
    .get/.keys/.values/.items, len, iteration); None otherwise."""
    vals = [s.value for s in mod.tree.body if isinstance(s, ast.Assign) and len(s.targets) == 1
            and isinstance(s.targets[0], ast.Name) and s.targets[0].id == name]
    if len(vals) != 1 or _module_constant(mod, name) is None:
        return None
    tab = _dict_items(vals[0])
    if tab is None:
        return None
    for n in ast.walk(mod.tree):
        if not (isinstance(n, ast.Name) and n.id == name):
            continue
        if not isinstance(n.ctx, ast.Load):
            if isinstance(n.ctx, ast.Del):
                return None
            continue                      # the single assignment (checked by _module_constant)
        p = mod.parent.get(n)
        if isinstance(p, ast.Compare) and n in p.comparators and all(isinstance(o, (ast.In, ast.NotIn)) for o in p.ops):
            continue
        if isinstance(p, ast.Subscript) and p.value is n and isinstance(p.ctx, ast.Load):
            continue
        if isinstance(p, ast.Attribute) and p.value is n and p.attr in _DICT_READS and isinstance(p.ctx, ast.Load):
            continue
        if isinstance(p, ast.Call) and call_name(p) in ('len', 'sorted', 'list', 'tuple', 'set', 'frozenset') and n in p.args:
            continue
        if isinstance(p, (ast.For, ast.comprehension)) and p.iter is n:
            continue
        return None                       # stored into, deleted from, updated, handed to other code
    return tab


def _dict_items(e):
    """[(constant key, value expr)] of a dict display with constant keys."""
    if isinstance(e, ast.Dict) and e.keys and all(isinstance(x, ast.Constant) for x in e.keys):
        return [(kx.value, vx) for kx, vx in zip(e.keys, e.values)]
    return None


_ABSENT = object()


def _lookup(e, metric, val, mod):
    """`e` is a lookup of the parameter `metric` in a constant table
    (`T[metric]`, `T.get(metric[, default])`; T a dict display or a read-only
    module-level dict) -> ('value', expr, module_level) | ('keyerror',) when
    metric == val; None when `e` is not such a lookup."""
    def table(t):
        if isinstance(t, ast.Dict):
            tab = _dict_items(t)
            return (tab, False) if tab is not None else None
        if isinstance(t, ast.Name):
            tab = _module_table(mod, t.id)
            return (tab, True) if tab is not None else None
        return None

    def is_metric(x):
        return isinstance(x, ast.Name) and x.id == metric

    def find(tab):
        hit = _ABSENT
        if val is _CALLABLE:
            return hit                    # a function object equals no constant key
        for kx, vx in tab:
            if type(kx) is type(val) and kx == val:
                hit = vx                  # a later duplicate key wins
        return hit
    if isinstance(e, ast.Subscript) and is_metric(e.slice):
        tb = table(e.value)
        if tb is None:
            return None
        hit = find(tb[0])
        return ('keyerror',) if hit is _ABSENT else ('value', hit, tb[1])
    if isinstance(e, ast.Call) and isinstance(e.func, ast.Attribute) and e.func.attr == 'get' and not e.keywords \
            and len(e.args) in (1, 2) and is_metric(e.args[0]):
        tb = table(e.func.value)
        if tb is None:
            return None
        hit = find(tb[0])
        if hit is not _ABSENT:
            return ('value', hit, tb[1])
        return ('value', e.args[1] if len(e.args) == 2 else ast.Constant(value=None), False)
    return None


_CALLABLE = object()      # a user-supplied distance function
_COMPOUND = tuple(getattr(ast, n) for n in ('For', 'AsyncFor', 'While', 'With', 'AsyncWith', 'Match') if hasattr(ast, n))


def _resolve(e, metric, val, mod, fi, depth=4):
    """The value expression `e` denotes when metric == val: temporaries
    expanded, conditional expressions decided, lookups in constant tables
    replaced by the entry.  -> ('value', expr, module_level) | ('keyerror',) |
    None (a condition could not be decided)."""
    if fi is not None and not (isinstance(e, ast.Name) and e.id == metric):
        try:
            e = fi.expand(e, stop=(metric,))
        except Exception:
            pass
    while isinstance(e, ast.IfExp) and depth > 0:
        t = _ev(e.test, metric, val, mod, fi)
        if t is None:
            return None
        e = e.body if t else e.orelse
        depth -= 1
    lk = _lookup(e, metric, val, mod)
    if lk is None:
        return ('value', e, False)
    if lk[0] == 'value' and not lk[2] and depth > 0:
        return _resolve(lk[1], metric, val, mod, None, depth - 1)     # default of .get / entry of a local display
    return lk


def _looked_up(e, metric, val, mod, fi):
    """Is the value of `e` known to be None / a reference to a function?
    -> None (unknown / raises) | 'none' | 'object' (neither None nor falsy: a
    reference to an imported function or module attribute)."""
    if isinstance(e, ast.Name) and e.id == metric:
        return None
    r = _resolve(e, metric, val, mod, fi)
    if r is None or r[0] != 'value':
        return None
    v = r[1]
    if isinstance(v, ast.Constant):
        return 'none' if v.value is None else None
    if fi is not None and isinstance(v, (ast.Name, ast.Attribute)) and _global_ref(mod, fi, v, True) is not None:
        return 'object'       # an imported function / attribute of an imported module
    return None


def _ev(test, metric, val, mod, fi=None):
    """Three-valued truth of `test` when parameter `metric` has value `val`
    (a string, or _CALLABLE)."""
    if isinstance(test, ast.UnaryOp) and isinstance(test.op, ast.Not):
        v = _ev(test.operand, metric, val, mod, fi)
        return None if v is None else not v
    if isinstance(test, ast.BoolOp):
        vs = [_ev(x, metric, val, mod, fi) for x in test.values]
        if isinstance(test.op, ast.And):
            return False if False in vs else (None if None in vs else True)
        return True if True in vs else (None if None in vs else False)
    if isinstance(test, ast.Compare) and len(test.ops) == 1 and isinstance(test.ops[0], (ast.Is, ast.IsNot)) \
            and isinstance(test.comparators[0], ast.Constant) and test.comparators[0].value is None:
        lu = _looked_up(test.left, metric, val, mod, fi)
        if lu is None:
            return None
        return (lu == 'none') == isinstance(test.ops[0], ast.Is)
    if isinstance(test, (ast.Name, ast.Subscript)) or (isinstance(test, ast.Call) and isinstance(test.func, ast.Attribute)
                                                       and test.func.attr == 'get'):
        lu = _looked_up(test, metric, val, mod, fi)
        return None if lu is None else lu == 'object'
    if isinstance(test, ast.Call) and not test.keywords:
        cn = call_name(test)
        if cn == 'callable' and len(test.args) == 1 and isinstance(test.args[0], ast.Name) and test.args[0].id == metric:
            return val is _CALLABLE
        if cn == 'isinstance' and len(test.args) == 2 and isinstance(test.args[0], ast.Name) and test.args[0].id == metric \
                and u(test.args[1]) == 'str':
            return val is not _CALLABLE
        return None
    if isinstance(test, ast.Compare) and len(test.ops) == 1:
        op, a, b = test.ops[0], test.left, test.comparators[0]
        if isinstance(op, (ast.Eq, ast.NotEq)):
            if isinstance(b, ast.Name) and b.id == metric:
                a, b = b, a
            if isinstance(a, ast.Name) and a.id == metric and isinstance(b, ast.Constant):
                eq = (val is not _CALLABLE) and b.value == val
                return eq if isinstance(op, ast.Eq) else not eq
            return None
        if isinstance(op, (ast.In, ast.NotIn)) and isinstance(a, ast.Name) and a.id == metric:
            elems = _const_elems(b)
            if elems is None and isinstance(b, ast.Name):
                elems = _module_constant(mod, b.id)
            if elems is None:
                return None
            inside = (val is not _CALLABLE) and val in elems
            return inside if isinstance(op, ast.In) else not inside
    return None


def _decision_paths(stmts, conds, metric):
    """Execution paths of a statement list as (conditions, outcome) in
    evaluation order; outcome = ('return', expr) | ('raise', stmt) |
    ('fall', None) | ('opaque', stmt)."""
    for i, s in enumerate(stmts):
        rest = stmts[i + 1:]
        if isinstance(s, ast.If):
            yield from _decision_paths(s.body + rest, conds + [(s.test, True)], metric)
            yield from _decision_paths(s.orelse + rest, conds + [(s.test, False)], metric)
            return
        if isinstance(s, ast.Return):
            yield conds, ('return', s.value)
            return
        if isinstance(s, ast.Raise):
            yield conds, ('raise', s)
            return
        if isinstance(s, ast.Try):
            # normal completion of the body; handlers are alternative outcomes
            # of the same conditions and are not needed to decide the mapping
            yield from _decision_paths(s.body + s.orelse + s.finalbody + rest, conds, metric)
            return
        if isinstance(s, _COMPOUND):
            yield conds, ('opaque', s)
            return
        if metric in stmt_defs(s):
            yield conds, ('opaque', s)
            return
    yield conds, ('fall', None)


def _decide(fn, metric, val, mod, fi=None):
    """Outcome of the function for metric == val, or ('unknown', why)."""
    for conds, outcome in _decision_paths(fn.body, [], metric):
        verdict = True
        for test, pol in conds:
            v = _ev(test, metric, val, mod, fi)
            if v is None:
                verdict = None
                break
            if v != pol:
                verdict = False
                break
        if verdict is None:
            return ('unknown', 'condition `%s` not evaluated' % u(test))
        if verdict:
            return outcome
    return ('unknown', 'no path')


def _global_ref(mod, fi, e, module_level=False):
    """(module, attribute) an expression refers to through the imports.
    module_level: `e` is evaluated at module level (an entry of a module-level
    table), not inside the function."""
    if not module_level:
        e = fi.expand(e) if e is not None else e
    imps = _module_imports(mod)
    shadow = set(mod.functions) | set(mod.classes) | {t for s in mod.tree.body if isinstance(s, ast.Assign)
                                                      for tt in s.targets for t in target_names(tt)}
    if isinstance(e, ast.Name):
        if e.id in shadow or e.id not in imps or fi.rd.locals and e.id in fi.rd.locals:
            return None
        m, a = imps[e.id]
        return (m, a) if a is not None else None
    if isinstance(e, ast.Attribute) and isinstance(e.value, ast.Name):
        b = e.value.id
        if b in shadow or b not in imps or b in fi.rd.locals:
            return None
        m, a = imps[b]
        return ((m + '.' + a) if a is not None else m, e.attr)
    return None


# Registry adapters.  Everything the registry hands out is called by the clustering
# code as d(data, target) - the calling convention of the three native kernels
# (X: one row per sample, y: the point the rows are compared with).  A function the
# registry DEFINES itself (nested def / lambda) in order to adapt a foreign distance
# routine therefore has to put its own first parameter into the routine's data slot,
# its second into the target slot, and the metric name it was asked for into the
# metric slot.  The signatures of the foreign routines are library facts:
#   dotted name -> ((keyword, position) of data, of target, of the metric name or None,
#                   metric the routine computes when none is passed)
_DELEGATES = {
    'msmbuilder.libdistance.dist': (('X', 0), ('y', 1), ('metric', 2), 'euclidean'),
    'geometry.libdist.euclidean': (('X', 0), ('y', 1), None, None),
    'geometry.libdist.manhattan': (('X', 0), ('y', 1), None, None),
    'geometry.libdist.hamming': (('X', 0), ('y', 1), None, None),
    'mdtraj.rmsd': (('target', 0), ('reference', 1), None, None),
}


def _delegate_sig(path):
    if path is None:
        return None
    for k, v in _DELEGATES.items():
        if path == k or path.endswith('.' + k):
            return v
    return None


def _dotted(e):
    """['a', 'b', 'c'] of the attribute chain a.b.c, None for anything else."""
    parts = []
    while isinstance(e, ast.Attribute):
        parts.append(e.attr)
        e = e.value
    if not isinstance(e, ast.Name):
        return None
    return [e.id] + parts[::-1]


def _callee_path(mod, fi, func, inner_bound):
    """Dotted import path of the callee `func` of a call made inside a function
    nested in fi's function: the base name is bound only by import statements of
    the enclosing function (or by a module-level import and by nothing else).
    None when it cannot be followed."""
    parts = _dotted(func)
    if parts is None or parts[0] in inner_bound:
        return None
    base = parts[0]
    binds = _rebinds(fi, base)
    if not binds:
        if base in fi.rd.locals:
            return None
        ref = _global_ref(mod, fi, ast.Name(id=base, ctx=ast.Load()), True)
        if ref is not None:
            prefix = ref[0] + '.' + ref[1]
        else:
            imps = _module_imports(mod)
            shadow = set(mod.functions) | set(mod.classes) | {t for s in mod.tree.body if isinstance(s, ast.Assign)
                                                              for tt in s.targets for t in target_names(tt)}
            if base in shadow or base not in imps or imps[base][1] is not None:
                return None
            prefix = imps[base][0]
        return '.'.join([prefix] + parts[1:])
    prefixes = set()
    for s in binds:
        if isinstance(s, ast.Import):
            for a in s.names:
                if a.asname == base:
                    prefixes.add(a.name)
                elif a.asname is None and a.name.split('.')[0] == base:
                    prefixes.add(base)
        elif isinstance(s, ast.ImportFrom) and not s.level and s.module:
            for a in s.names:
                if (a.asname or a.name) == base:
                    prefixes.add(s.module + '.' + a.name)
        else:
            return None
    if len(prefixes) != 1:
        return None
    return '.'.join([prefixes.pop()] + parts[1:])


def _adapter_body(ad):
    """The expression an adapter evaluates to: the body of a lambda, or the value
    of the single `return` that makes up a nested def (docstring / pass apart)."""
    if isinstance(ad, ast.Lambda):
        return ad.body
    body = [s for s in ad.body if not isinstance(s, ast.Pass)
            and not (isinstance(s, ast.Expr) and isinstance(s.value, ast.Constant))]
    if len(body) == 1 and isinstance(body[0], ast.Return) and body[0].value is not None:
        return body[0].value
    return None


_SAME_ARRAY = ('np.asarray', 'np.asanyarray', 'np.ascontiguousarray', 'np.asfortranarray', 'np.array', 'np.require',
               'numpy.asarray', 'numpy.asanyarray', 'numpy.ascontiguousarray', 'numpy.asfortranarray', 'numpy.array',
               'numpy.require')


def _carries(e, name):
    """`e` is `name` or the same array values re-laid-out (np.asarray(name), ...)."""
    while isinstance(e, ast.Call) and call_name(e) in _SAME_ARRAY and e.args and not isinstance(e.args[0], ast.Starred):
        e = e.args[0]
    return isinstance(e, ast.Name) and e.id == name


def _slot(call, name):
    """Where the array `name` is passed in `call`: list of int position | keyword
    name, None for an occurrence inside star-arguments."""
    out = []
    starred = False
    for i, a in enumerate(call.args):
        if isinstance(a, ast.Starred):
            starred = True
            if name in names_loaded(a):
                out.append(None)
        elif _carries(a, name):
            out.append(None if starred else i)      # position unknown behind *args
    for k in call.keywords:
        if k.arg is None:
            if name in names_loaded(k.value):
                out.append(None)
        elif _carries(k.value, name):
            out.append(k.arg)
    return out


def d6_adapters(ck, mod, fn, fi, metric):
    """Every function the registry defines itself and returns forwards (data,
    target, metric name) into the matching slots of the routine it adapts."""
    rule = 'C13.D6.registry.adapter'
    nested = {}
    for s in walk_local(fn):
        if isinstance(s, (ast.FunctionDef, ast.AsyncFunctionDef)):
            nested.setdefault(s.name, []).append(s)
    seen = set()
    for r in walk_local(fn):
        if not isinstance(r, ast.Return) or r.value is None:
            continue
        v = r.value
        if isinstance(v, ast.Name) and v.id not in nested:
            try:
                v = fi.expand(v, stop=(metric,))
            except Exception:
                pass
        ad = None
        if isinstance(v, ast.Lambda):
            ad = v
        elif isinstance(v, ast.Name) and v.id in nested:
            binds = _rebinds(fi, v.id)
            if len(nested[v.id]) != 1 or any(b is not nested[v.id][0] for b in binds):
                ck.missing(rule, 'returned name `%s` is bound more than once' % v.id)
                continue
            ad = nested[v.id][0]
        if ad is None or id(ad) in seen:
            continue
        seen.add(id(ad))
        a = ad.args
        ps = [x.arg for x in getattr(a, 'posonlyargs', []) + a.args]
        label = '%s(%s)' % (getattr(ad, 'name', 'lambda'), ', '.join(ps))
        if isinstance(ad, ast.AsyncFunctionDef) or getattr(ad, 'decorator_list', None):
            ck.missing(rule, 'adapter %s is decorated / asynchronous' % label)
            continue
        if len(ps) < 2 or a.vararg is not None:
            ck.missing(rule, 'adapter %s does not take (data, target) as its first two positional parameters' % label)
            continue
        body = _adapter_body(ad)
        if body is None:
            ck.missing(rule, 'adapter %s is not a single forwarding expression' % label)
            continue
        inner = set(ps) | {x.arg for x in a.kwonlyargs} | ({a.kwarg.arg} if a.kwarg else set())
        inner |= {n.id for n in ast.walk(ad) if isinstance(n, ast.Name) and isinstance(n.ctx, ast.Store)}
        inner |= {x.arg for n in ast.walk(body) if isinstance(n, ast.Lambda) for x in n.args.args}
        fwd = [c for c in ast.walk(body) if isinstance(c, ast.Call) and call_name(c) not in _SAME_ARRAY
               and _slot(c, ps[0]) and _slot(c, ps[1])]
        if len(fwd) != 1:
            ck.missing(rule, 'adapter %s: no single call receives both `%s` and `%s`' % (label, ps[0], ps[1]))
            continue
        call = fwd[0]
        path = _callee_path(mod, fi, call.func, inner)
        sig = _delegate_sig(path)
        if sig is None:
            ck.missing(rule, 'adapter %s forwards to `%s`, a routine whose signature is not known' % (label, u(call.func)[:60]))
            continue
        (dk, dp), (tk, tp), mslot, default_metric = sig
        sd, st = _slot(call, ps[0]), _slot(call, ps[1])
        loads = [n for n in ast.walk(body) if isinstance(n, ast.Name) and n.id in (ps[0], ps[1])]
        if len(sd) != 1 or len(st) != 1 or None in sd or None in st or len(loads) != 2:
            ck.missing(rule, 'adapter %s: how `%s` and `%s` reach `%s` is not decided' % (label, ps[0], ps[1], u(call)[:80]))
            continue
        sd, st = sd[0], st[0]
        shown = '%s -> %s' % (label, u(body)[:120])
        if sd in (dk, dp) and st in (tk, tp):
            ck.ok(rule, mod, call, shown, 'the adapter\'s first parameter is the data matrix of %s, its second the target' % path)
        elif sd in (tk, tp) and st in (dk, dp):
            ck.bad(rule, mod, call, '_get_distance_method', shown,
                   'the registry\'s functions are called as d(data, target); this adapter hands its first parameter `%s` to %s '
                   'as the target and its second `%s` as the data matrix: rows and target are exchanged' % (ps[0], path, ps[1]))
            continue
        else:
            ck.missing(rule, 'adapter %s: `%s` / `%s` are passed in slots %r / %r of %s' % (label, ps[0], ps[1], sd, st, path))
            continue
        if mslot is None:
            continue
        mk, mp = mslot
        marg = kwarg(call, mk)
        if marg is None and len(call.args) > mp and not any(isinstance(x, ast.Starred) for x in call.args[:mp + 1]):
            marg = call.args[mp]
        shown_m = '%s: metric = %s' % (label, u(marg) if marg is not None else '<default>')
        if any(isinstance(x, ast.Starred) for x in call.args) or any(k.arg is None for k in call.keywords):
            ck.missing(rule, 'adapter %s: star-arguments in `%s`' % (label, u(call)[:80]))
        elif marg is None:
            ck.bad(rule, mod, call, '_get_distance_method', shown_m,
                   'no metric name is handed to %s: it computes its default \'%s\' whatever name the registry was asked for'
                   % (path, default_metric))
        elif isinstance(marg, ast.Name) and marg.id == metric and metric not in inner and not _rebinds(fi, metric):
            ck.ok(rule, mod, call, shown_m, 'the routine computes the metric the registry was asked for')
        else:
            ck.missing(rule, 'adapter %s: metric argument `%s` of %s is not the registry\'s own parameter' % (label, u(marg)[:60], path))


def d6_registry(ck):
    rule = 'C13.D6.registry'
    mod = ck.repo.mod(CU)
    fn = mod.func('_get_distance_method')
    ck.analysed(mod, fn)
    fi = finfo(mod, fn)
    if not params(fn):
        ck.missing(rule, '_get_distance_method takes no parameter')
        return
    metric = params(fn)[0]
    want = {'euclidean': ('libdist', 'euclidean'), 'manhattan': ('libdist', 'manhattan'),
            'cityblock': ('libdist', 'manhattan'), 'rmsd': ('mdtraj', 'rmsd')}
    n = 0
    def through_table(out, val):
        """A returned table lookup `T[metric]` / `T.get(metric)` (possibly held in a
        temporary / selected by a conditional expression) is replaced by the table's
        entry for this metric name -> (outcome, entry is evaluated at module level)."""
        if out[0] != 'return' or out[1] is None:
            return out, False
        r = _resolve(out[1], metric, val, mod, fi)
        if r is None:
            return ('unknown', 'value `%s` not decided' % u(out[1])[:80]), False
        if r[0] == 'keyerror':
            return ('raise', out[1]), False
        return ('return', r[1]), r[2]

    for key, (wm, wa) in want.items():
        out = _decide(fn, metric, key, mod, fi)
        n += out[0] in ('return', 'raise', 'fall')
        shown = "'%s' -> %s" % (key, u(out[1]) if out[0] == 'return' else out[0])
        if out[0] == 'unknown' or out[0] == 'opaque':
            ck.missing(rule, "mapping of metric name '%s' not decided: %s" % (key, out[1] if out[0] == 'unknown' else u(out[1])[:80]))
            continue
        out, modlevel = through_table(out, key)
        if out[0] == 'unknown':
            ck.missing(rule, "mapping of metric name '%s' not decided: %s" % (key, out[1]))
            continue
        if out[0] == 'return' and out[1] is not None and u(out[1]) not in shown:
            shown += ' = %s' % u(out[1])
        if out[0] != 'return' or out[1] is None:
            ck.bad(rule, mod, fn, '_get_distance_method', shown, "metric name '%s' must map to %s" % (key, wa))
            continue
        ref = _global_ref(mod, fi, out[1], True)      # already expanded by through_table
        if ref is None:
            ev = out[1]
            if isinstance(ev, ast.Name) and ev.id == metric:
                ck.bad(rule, mod, fn, '_get_distance_method', shown, "metric name '%s' must map to %s" % (key, wa))
            else:
                ck.missing(rule, "value `%s` returned for metric name '%s' cannot be followed to an import" % (u(out[1])[:80], key))
            continue
        okm = ref[1] == wa and (ref[0] == wm or ref[0].endswith('.' + wm))
        ck.check(okm, rule, mod, fn, '_get_distance_method', shown,
                 "metric name '%s' maps to %s.%s" % (key, ref[0], ref[1]),
                 "metric name '%s' must map to %s.%s (it maps to %s.%s)" % (key, wm, wa, ref[0], ref[1]))
    out = _decide(fn, metric, _CALLABLE, mod, fi)
    if out[0] in ('unknown', 'opaque'):
        ck.missing(rule, 'treatment of a callable metric not decided: %s' % (out[1] if out[0] == 'unknown' else u(out[1])[:80]))
    else:
        out, _ml = through_table(out, _CALLABLE)
        ok = out[0] == 'return' and isinstance(out[1], ast.AST)
        if ok:
            ev = out[1]
            ok = isinstance(ev, ast.Name) and ev.id == metric and not _rebinds(fi, metric)
        if out[0] == 'unknown':
            ck.missing(rule, 'treatment of a callable metric not decided: %s' % out[1])
        else:
            ck.check(ok, rule, mod, fn, '_get_distance_method', 'callable(metric) -> metric',
                     'user callables are passed through', 'a user-supplied callable must be returned unchanged')
    ck.floor(rule, n, 4, 'metric names')
    d6_adapters(ck, mod, fn, fi, metric)


# ---------------------------------------------------------------------------

def check(ck):
    mod = load_libdist(ck.repo)
    fused = mod.tree.cy_fused
    kernel_of, kernels, preps = discover(mod, fused)
    if not kernels:
        kernels = [k for k in WRAPPERS.values() if k in mod.functions]
        kernel_of = {w: [k] for w, k in WRAPPERS.items() if k in mod.functions}
    if not preps:
        ck.missing('C13.D0.validation', 'no preparation/validation function found between the entry points and the kernels')
    for pname in preps:
        d0_validation(ck, mod, pname, kernels)
    nb = np_ = nz = 0
    metric_of = {}
    for w, ks in kernel_of.items():
        for kn in ks:
            metric_of.setdefault(kn, []).append(w)
    mod5 = cell_form(ck, mod, kernels, fused, metric_of)       # D3 / D5 see scalar row accumulators as the cell they stand for
    for kern in kernels:
        fn = mod.func(kern)
        d = fn.cy_directives
        ck.ok('C13.kernel', mod, fn, '%s boundscheck=%s wraparound=%s' % (kern, d.get('boundscheck'), d.get('wraparound')),
              'analysed as an unchecked kernel' if d.get('boundscheck') is False else 'bounds-checked by Cython')
        # instance floors are per kernel (every kernel has its bounds obligations for the
        # four buffer dimensions, a parallel loop and an accumulation), not a frozen total:
        # merging or splitting loops changes the totals but not what has to be shown
        c, k = check_bounds(ck, 'C13.D1.bounds', mod, fn, fused)
        nb += min(c, 4)
        np_ += min(check_prange(ck, 'C13.D2.prange', mod, fn, fused), 1)
        fn5 = mod5.func(kern)
        zf = _zero_first(mod5, fn5, fused)
        nzk = check_zero_before_accumulate(_Recheck(ck, zf), 'C13.D3.zero-first', mod5, fn5, fused)
        # read-modify-write spelled as a plain assignment: out[i] = out[i] <op> v
        o = params(fn5)[2]
        for s in walk_local(fn5):
            if isinstance(s, ast.Assign) and len(s.targets) == 1 and isinstance(s.targets[0], ast.Subscript) and \
                    isinstance(s.targets[0].value, ast.Name) and s.targets[0].value.id == o and o in names_loaded(s.value):
                nzk += 1
                why = zf(s)
                ck.check(bool(why), 'C13.D3.zero-first', mod5, s, kern, u(s), why or '',
                         'the kernel updates caller-supplied `%s` from its previous contents without first storing '
                         'to that cell: the result depends on what the buffer held before' % o)
        nz += min(nzk, 1)
        check_elem_type_temps(ck, 'C13.D5.no-narrow-temp', mod, fn, fused)
        # no raw pointer arithmetic / casts
        for c2 in calls_in(fn):
            if call_name(c2) == '__cy_addr__' or (call_name(c2) == '__cy_cast__' and c2.args and
                                                   '*' in str(const_value(c2.args[0], ''))):
                ck.bad('C13.D1.no-pointers', mod, c2, kern, u(c2),
                       'raw address / pointer typecast inside a distance kernel: pointer arithmetic ignores the strides of the '
                       'typed buffer, so Fortran-ordered and column-sliced inputs are read from the wrong cells')
        for nm, t in fn.cy_locals.items():
            if getattr(t, 'pointer', False):
                ck.bad('C13.D1.no-pointers', mod, fn, kern, 'cdef %s %s' % (t.text, nm),
                       'a raw C pointer is declared in a distance kernel: every element access must go through the typed '
                       'buffer (which honours strides for every memory layout)')
    ck.floor('C13.D1.bounds', nb, 12, 'bounds obligations (4 buffer dimensions in each of 3 kernels)')
    ck.floor('C13.D2.prange', np_, 3, 'kernels with a prange loop')
    ck.floor('C13.D3.zero-first', nz, 3, 'kernels with an accumulation into the output buffer')
    d1_acquisition(ck, mod, kernels, kernel_of)
    d4_wrappers(ck, mod, kernel_of, preps)
    d5_formulas(ck, mod5, fused, kernel_of)
    raw_compare_scan(ck, mod, kernels, fused)
    d6_registry(ck)
    return EXPLANATION

"""C13 Distance kernels: validation, bounds, prange ownership, zeroing,
wrapper discipline, formula shape, metric registry."""
import ast

from ..cfg import ENTRY, EXIT, Assume
from ..core import (AnalysisIncomplete, call_name, const_value, kwarg,
                    names_loaded, params, target_names, u, walk_expr,
                    walk_local)
from ..cykernel import (check_bounds, check_elem_type_temps, check_prange,
                        check_zero_before_accumulate, subscript_dims)
from ..patterns import Cmp, calls_in, conjuncts, finfo, returns_of

LD = 'enspara/geometry/libdist.pyx'
CU = 'enspara/cluster/util.py'
KERNELS = ('_hamming', '_manhattan', '_euclidean')
WRAPPERS = {'hamming': '_hamming', 'manhattan': '_manhattan', 'euclidean': '_euclidean'}

EXPLANATION = (
    'Static decision, on Cython\'s own parse tree of libdist.pyx, of: (D0) the '
    'five validation guards (rank of X, rank of y, width, out dtype, out '
    'length/rank) each end in a raise and dominate every kernel call; (D1) '
    'every typed-buffer subscript in the boundscheck(False) kernels is in '
    'range in every dimension (loop ranges vs extents through equalities '
    'harvested from cdef initialisers and asserts); (D2) inside prange each '
    'iteration writes only out[i] and reads no cell another iteration writes; '
    '(D3) out[i] is stored before it is accumulated into; (D4) the wrappers '
    'return the very buffer that was validated/allocated and handed to the '
    'kernel; (D5) the accumulated term has the right shape per metric and no '
    'element-typed temporary holds an arithmetic result; (D6) metric names map '
    'to the right kernels. Floating-point exactness and memory layouts are '
    'delegated to Cython typed-buffer indexing (no raw pointers: checked).')


def d0_validation(ck, mod):
    rule = 'C13.D0.validation'
    prep = mod.func('_prepare_for_2d_to_1d_distance')
    ck.analysed(mod, prep)
    fi = finfo(mod, prep)
    X, y, out = params(prep)[:3]
    # helper checks
    for helper, arg, rank in (('_check_is_2d', X, 2), ('_check_is_1d', y, 1)):
        h = mod.func(helper)
        ifs = [n for n in h.body if isinstance(n, ast.If)]
        p = params(h)[0]
        ok = len(ifs) == 1 and any(isinstance(x, ast.Raise) for x in ifs[0].body) and \
            u(ifs[0].test) in ('len(%s.shape) != %d' % (p, rank), '%s.ndim != %d' % (p, rank))
        ck.check(ok, rule, mod, ifs[0] if ifs else h, helper, u(ifs[0].test) if ifs else helper,
                 'rank != %d raises' % rank, '%s must raise unless the rank is exactly %d' % (helper, rank))
        cs = [c for c in calls_in(prep) if call_name(c) == helper]
        ok = len(cs) == 1 and cs[0].args and u(cs[0].args[0]) == arg and \
            fi.stmt(cs[0]) in prep.body
        ck.check(ok, rule, mod, cs[0] if cs else prep, '_prepare_for_2d_to_1d_distance',
                 u(cs[0]) if cs else helper, '%s(%s) called unconditionally' % (helper, arg),
                 '%s(%s) must be called unconditionally before the kernel' % (helper, arg))
    def raising_if(pred):
        for n in walk_local(prep):
            if isinstance(n, ast.If) and any(isinstance(x, ast.Raise) for x in n.body):
                cs = conjuncts(n.test, True)
                if cs and len(cs) == 1 and isinstance(cs[0], Cmp) and pred(cs[0]):
                    return n
        return None
    def neq(a, b):
        return lambda c: c.op is ast.NotEq and {u(c.lhs), u(c.rhs)} == {a, b}
    checks = [
        ('width', neq('%s.shape[1]' % X, '%s.shape[0]' % y)),
        ('out dtype', neq('%s.dtype' % out, 'np.float64')),
        ('out length', neq('%s.shape[0]' % out, '%s.shape[0]' % X)),
        ('out rank', lambda c: c.op is ast.NotEq and {u(c.lhs), u(c.rhs)} in (
            {'len(%s.shape)' % out, '1'}, {'%s.ndim' % out, '1'})),
    ]
    for label, pred in checks:
        n = raising_if(pred)
        ck.check(n is not None, rule, mod, n or prep, '_prepare_for_2d_to_1d_distance',
                 '%s guard: %s' % (label, u(n.test) if n else 'missing'),
                 '%s mismatch raises' % label,
                 'the %s guard (raise on mismatch) is missing or weakened: the nogil kernel '
                 'would read/write out of bounds' % label)
        if n is not None and label.startswith('out'):
            # must be on the `out is not None` path and not skipped
            g = mod.parent.get(n)
            while g is not None and not isinstance(g, ast.If):
                g = mod.parent.get(g)
            okg = g is not None and u(g.test) in ('%s is None' % out, '%s is not None' % out)
            ck.check(okg, rule, mod, n, '_prepare_for_2d_to_1d_distance', 'path of ' + label,
                     'checked whenever a buffer is supplied', 'guard is not on the supplied-buffer path')
    # allocation when out is None
    allocs = [s for s in walk_local(prep) if isinstance(s, ast.Assign) and u(s.targets[0]) == out
              and isinstance(s.value, ast.Call)]
    ok = len(allocs) == 1 and call_name(allocs[0].value) == 'np.zeros' and \
        u(allocs[0].value.args[0]) in ('%s.shape[0]' % X, '(%s.shape[0],)' % X, 'len(%s)' % X) and \
        u(kwarg(allocs[0].value, 'dtype')) == 'np.float64'
    ck.check(ok, rule + '.alloc', mod, allocs[0] if allocs else prep, '_prepare_for_2d_to_1d_distance',
             u(allocs[0]) if allocs else 'allocation', 'default buffer: zeros(n_samples) float64, 1-D',
             'the default output must be np.zeros(X.shape[0], dtype=np.float64)')
    # returns the buffer object itself
    for r in returns_of(prep):
        ok = isinstance(r.value, ast.Name) and r.value.id == out
        if ok:
            defs = fi.defs_of_use(r.value)
            ok = all(d == 'PARAM' or d in allocs for d in defs)
        ck.check(ok, 'C13.D4.same-buffer', mod, r, '_prepare_for_2d_to_1d_distance', u(r),
                 'returns the caller\'s buffer object (or the fresh allocation)',
                 'the preparation step must hand back the caller\'s `out` object itself; a '
                 'converted copy (ascontiguousarray/astype/reshape-copy) makes the kernel '
                 'fill a temporary and the caller\'s buffer never holds the result')


def d4_wrappers(ck, mod):
    rule = 'C13.D4.wrapper'
    n = 0
    for w, kern in WRAPPERS.items():
        fn = mod.func(w)
        ck.analysed(mod, fn)
        fi = finfo(mod, fn)
        X, y, out = params(fn)[:3]
        prep = [c for c in calls_in(fn) if call_name(c) == '_prepare_for_2d_to_1d_distance']
        kc = [c for c in calls_in(fn) if (call_name(c) or '').startswith('_') and call_name(c) != '_prepare_for_2d_to_1d_distance']
        n += 1
        if len(prep) != 1 or len(kc) != 1:
            ck.bad(rule, mod, fn, w, w, 'wrapper must call the validation once and one kernel once')
            continue
        ck.check(call_name(kc[0]) == kern, rule + '.kernel', mod, kc[0], w, u(kc[0]),
                 '%s dispatches to %s' % (w, kern), '%s must dispatch to %s' % (w, kern))
        ps, ks = fi.stmt(prep[0]), fi.stmt(kc[0])
        ok = fi.cfg.dominates(ps, ks) and isinstance(ps, ast.Assign) and u(ps.targets[0]) == out and \
            [u(a) for a in prep[0].args] == [X, y, out]
        ck.check(ok, rule + '.order', mod, ps, w, '%s ; %s' % (u(ps), u(ks)),
                 'validation dominates the kernel call',
                 'the kernel must be reached only through `out = _prepare_for_2d_to_1d_distance(X, y, out)`')
        okargs = [u(a) for a in kc[0].args] == [X, y, out] and all(
            fi.defs_of_use(a) == {ps} for a in kc[0].args if isinstance(a, ast.Name) and a.id == out)
        ck.check(okargs, rule + '.args', mod, kc[0], w, u(kc[0]),
                 'kernel receives (X, y, validated out)', 'kernel must receive (X, y, out) with the validated buffer')
        for r in returns_of(fn):
            ok = isinstance(r.value, ast.Name) and r.value.id == out and fi.defs_of_use(r.value) == {ps}
            ck.check(ok, 'C13.D4.same-buffer', mod, r, w, u(r),
                     'returns the validated 1-D float64 buffer handed to the kernel',
                     'the wrapper must return the validated buffer `out` itself (1-D float64), not '
                     'the kernel\'s return value or another array')
    ck.floor(rule, n, 3, 'wrappers')


def d5_formulas(ck, mod):
    rule = 'C13.D5.formula'
    for kern in KERNELS:
        fn = mod.func(kern)
        X, y, out = params(fn)[:3]
        accs = [s for s in walk_local(fn) if isinstance(s, ast.AugAssign) and
                isinstance(s.target, ast.Subscript) and u(s.target.value) == out]
        adds = [s for s in accs if isinstance(s.op, ast.Add)]
        if len(adds) != 1:
            ck.bad(rule, mod, fn, kern, kern, 'expected exactly one accumulation `out[i] += term`, found %d' % len(adds))
            continue
        a = adds[0]
        i = u(a.target.slice)
        inner = None
        p = mod.parent.get(a)
        while p is not None and not isinstance(p, ast.For):
            p = mod.parent.get(p)
        j = u(p.target) if p is not None else '?'
        xij, yj = '%s[%s, %s]' % (X, i, j), '%s[%s]' % (y, j)
        fik = finfo(mod, fn)

        def rs(e):
            return fik.resolve(e) if isinstance(e, ast.Name) else e
        term = rs(a.value)
        if isinstance(term, ast.BinOp):
            term = ast.BinOp(left=rs(term.left), op=term.op, right=rs(term.right))
        elif isinstance(term, ast.Call) and term.args:
            term = ast.Call(func=term.func, args=[rs(term.args[0])] + term.args[1:], keywords=term.keywords)
        if kern == '_euclidean':
            ok = isinstance(term, ast.BinOp) and (
                (isinstance(term.op, ast.Pow) and const_value(term.right) == 2 and _is_diff(term.left, xij, yj)) or
                (isinstance(term.op, ast.Mult) and _is_diff(term.left, xij, yj) and u(term.left) == u(term.right)))
            want = '(X[i,j]-y[j])**2 then sqrt'
            sq = [s for s in walk_local(fn) if isinstance(s, ast.Assign) and isinstance(s.targets[0], ast.Subscript)
                  and u(s.targets[0].value) == out and isinstance(s.value, ast.Call) and call_name(s.value) == 'sqrt'
                  and u(s.value.args[0]) == u(s.targets[0])]
            ck.check(len(sq) == 1, rule + '.sqrt', mod, sq[0] if sq else fn, kern, u(sq[0]) if sq else 'sqrt',
                     'out[i] = sqrt(out[i]) applied once', 'euclidean must take the square root of each accumulated sum exactly once')
        elif kern == '_manhattan':
            ok = isinstance(term, ast.Call) and call_name(term) in ('fabs', 'abs') and _is_diff(term.args[0], xij, yj)
            want = 'fabs(X[i,j]-y[j])'
        else:
            g = mod.parent.get(a)
            ok = isinstance(g, ast.If) and const_value(term) == 1
            if ok:
                cs = conjuncts(g.test, True)
                ok = cs is not None and len(cs) == 1 and isinstance(cs[0], Cmp) and cs[0].op is ast.NotEq \
                    and {u(cs[0].lhs), u(cs[0].rhs)} == {xij, yj}
            want = 'count of X[i,j] != y[j], divided by n_features'
            divs = [s for s in accs if isinstance(s.op, ast.Div)]
            okd = len(divs) == 1 and u(divs[0].value) in ('n_features', 'len(%s)' % y, '%s.shape[1]' % X)
            ck.check(okd, rule + '.fraction', mod, divs[0] if divs else fn, kern, u(divs[0]) if divs else '/=',
                     'count divided by the number of features once per row', 'hamming must divide each row count by n_features once')
        ck.check(ok, rule, mod, a, kern, u(a), want,
                 '%s accumulates `%s`; expected %s' % (kern, u(term), want))


def _is_diff(e, a, b):
    return isinstance(e, ast.BinOp) and isinstance(e.op, ast.Sub) and {u(e.left), u(e.right)} == {a, b}


def d6_registry(ck):
    rule = 'C13.D6.registry'
    mod = ck.repo.mod(CU)
    fn = mod.func('_get_distance_method')
    ck.analysed(mod, fn)
    table = {}
    for n in walk_local(fn):
        if isinstance(n, ast.If):
            cs = conjuncts(n.test, True)
            if cs and len(cs) == 1 and isinstance(cs[0], Cmp) and u(cs[0].lhs) == 'metric':
                rets = [r for r in n.body if isinstance(r, ast.Return)]
                if not rets:
                    continue
                if cs[0].op is ast.Eq and isinstance(cs[0].rhs, ast.Constant):
                    table[cs[0].rhs.value] = u(rets[0].value)
                elif cs[0].op is ast.In and isinstance(cs[0].rhs, (ast.List, ast.Tuple)):
                    for e in cs[0].rhs.elts:
                        if isinstance(e, ast.Constant):
                            table[e.value] = u(rets[0].value)
    want = {'euclidean': 'euclidean', 'manhattan': 'manhattan', 'cityblock': 'manhattan', 'rmsd': 'md.rmsd'}
    for k, v in want.items():
        ck.check(table.get(k) == v, rule, mod, fn, '_get_distance_method', "'%s' -> %s" % (k, table.get(k)),
                 "metric name '%s' maps to %s" % (k, v), "metric name '%s' must map to %s" % (k, v))
    # the imported names are libdist's
    imp = [n for n in ast.walk(mod.tree) if isinstance(n, ast.ImportFrom) and (n.module or '').endswith('libdist')]
    names = {a.asname or a.name: a.name for n in imp for a in n.names}
    ck.check(names.get('euclidean') == 'euclidean' and names.get('manhattan') == 'manhattan', rule, mod,
             imp[0] if imp else fn, 'module', 'from ..geometry.libdist import %s' % names,
             'kernels imported under their own names', 'euclidean/manhattan must be libdist.euclidean/manhattan')
    cb = [n for n in walk_local(fn) if isinstance(n, ast.If) and u(n.test) == 'callable(metric)']
    ck.check(bool(cb) and any(isinstance(r, ast.Return) and u(r.value) == 'metric' for r in cb[0].body) if cb else False,
             rule, mod, cb[0] if cb else fn, '_get_distance_method', 'callable(metric) -> metric',
             'user callables are passed through', 'a user-supplied callable must be returned unchanged')


def check(ck):
    mod = ck.repo.mod(LD)
    fused = mod.tree.cy_fused
    d0_validation(ck, mod)
    nb = np_ = nz = 0
    for kern in KERNELS:
        fn = mod.func(kern)
        d = fn.cy_directives
        ck.ok('C13.kernel', mod, fn, '%s boundscheck=%s wraparound=%s' % (kern, d.get('boundscheck'), d.get('wraparound')),
              'analysed as an unchecked kernel' if d.get('boundscheck') is False else 'bounds-checked by Cython')
        c, k = check_bounds(ck, 'C13.D1.bounds', mod, fn, fused)
        nb += c
        np_ += check_prange(ck, 'C13.D2.prange', mod, fn, fused)
        nz += check_zero_before_accumulate(ck, 'C13.D3.zero-first', mod, fn, fused)
        check_elem_type_temps(ck, 'C13.D5.no-narrow-temp', mod, fn, fused)
        # kernel asserts present (the equalities the bounds proof used)
        # no raw pointer arithmetic / casts
        for c2 in calls_in(fn):
            if call_name(c2) in ('__cy_cast__', '__cy_addr__'):
                ck.bad('C13.D1.no-pointers', mod, c2, kern, u(c2),
                       'raw address / typecast inside a distance kernel: pointer arithmetic ignores the strides of the '
                       'typed buffer, so Fortran-ordered and column-sliced inputs are read from the wrong cells')
        for nm, t in fn.cy_locals.items():
            if getattr(t, 'pointer', False):
                ck.bad('C13.D1.no-pointers', mod, fn, kern, 'cdef %s %s' % (t.text, nm),
                       'a raw C pointer is declared in a distance kernel: every element access must go through the typed '
                       'buffer (which honours strides for every memory layout)')
    ck.floor('C13.D1.bounds', nb, 12, 'bounds obligations')
    ck.floor('C13.D2.prange', np_, 6, 'prange loops')
    ck.floor('C13.D3.zero-first', nz, 4, 'accumulations')
    d4_wrappers(ck, mod)
    d5_formulas(ck, mod)
    d6_registry(ck)
    return EXPLANATION

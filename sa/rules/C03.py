"""C03 Transition counts: lag-shifted slice pairs, orientation, no
cross-trajectory pairs, -1 masking, unit weights, inferred state count."""
import ast

from ..core import (AnalysisIncomplete, call_name, const_value, kwarg,
                    names_loaded, params, target_names, u, walk_expr,
                    walk_local)
from ..patterns import (Cmp, assigns_to, calls_in, check_no_arg_mutation,
                        conjuncts, finfo, returns_of)

TM = 'enspara/msm/transition_matrices.py'

EXPLANATION = (
    'Static decision of the structural necessary conditions of exact '
    'transition counting.  Lemma (proved on paper, frozen in the rule): for '
    'L >= 1, s >= 1 and any length n, a[:-L:s] and a[L::s] have equal length '
    'and pair position t with t+L.  (D1) both branches of _transitions_helper '
    'instantiate the lemma with L = lag_time on the same array, s = 1 '
    '(sliding) resp. s = lag_time (strided), and lag_time < 1 raises before '
    'any call; (D2) from-states are row 0 and to-states row 1 of the stacked '
    'coordinates handed unsliced to coo_matrix with a square shape; (D3) the '
    'helper is applied per trajectory row and the pair list is never thinned '
    'or re-sliced after concatenation; (D4) the -1 filter is applied per row '
    'before slicing and every pair has weight one; (D5) the inferred number '
    'of states comes from all assigned frames, not from the pair list. '
    'Additivity/permutation invariance as values follow but are not '
    're-derived.')


def _slice_of(e):
    if isinstance(e, ast.Subscript) and isinstance(e.slice, ast.Slice):
        return e.value, e.slice
    return None, None


def d1_slices(ck):
    rule = 'C03.D1.slices'
    mod = ck.repo.mod(TM)
    fn = mod.func('_transitions_helper')
    ck.analysed(mod, fn)
    fi = finfo(mod, fn)
    ps = params(fn)
    arr, lag, sw = ps[0], ps[1], ps[2]
    ifs = [n for n in fn.body if isinstance(n, ast.If)]
    if len(ifs) != 1 or not ifs[0].orelse:
        ck.bad(rule, mod, fn, '_transitions_helper', 'if %s: ... else: ...' % sw,
               'the helper must have a sliding and a strided branch selected by `%s`; '
               'found %d if-statements' % (sw, len(ifs)))
        return
    node = ifs[0]
    pol = None
    if u(node.test) == sw:
        pol = True
    elif u(node.test) in ('not %s' % sw,):
        pol = False
    if pol is None:
        ck.bad(rule, mod, node, '_transitions_helper', u(node.test),
               'branch must be selected by the sliding_window flag')
        return
    sliding, strided = (node.body, node.orelse) if pol else (node.orelse, node.body)
    # returned stack: which names are row 0 / row 1
    rets = returns_of(fn)
    stack = None
    for r in rets:
        v = fi.resolve(r.value) if isinstance(r.value, ast.Name) else r.value
        if isinstance(v, ast.Call) and call_name(v) in ('np.row_stack', 'np.vstack', 'np.array', 'np.stack'):
            stack = v
    if stack is None or not stack.args or not isinstance(stack.args[0], (ast.Tuple, ast.List)) \
            or len(stack.args[0].elts) != 2:
        ck.bad('C03.D2.orientation', mod, fn, '_transitions_helper', u(rets[0]) if rets else 'return',
               'the helper must return the 2-row stack (from_states, to_states)')
        return
    r0, r1 = [u(e) for e in stack.args[0].elts]
    for label, body, want_step in (('sliding', sliding, ('1', 'None')), ('strided', strided, (lag,))):
        defs = {}
        for s in body:
            if isinstance(s, ast.Assign) and isinstance(s.targets[0], ast.Name):
                defs[s.targets[0].id] = s
        if r0 not in defs or r1 not in defs:
            ck.bad(rule, mod, node, '_transitions_helper', '%s branch' % label,
                   '%s branch does not define both `%s` and `%s`' % (label, r0, r1))
            continue
        b0, s0 = _slice_of(defs[r0].value)
        b1, s1 = _slice_of(defs[r1].value)
        if s0 is None or s1 is None:
            ck.bad(rule, mod, defs[r0], '_transitions_helper', u(defs[r0]) + ' ; ' + u(defs[r1]),
                   '%s branch: from/to states must be plain slices of the trajectory' % label)
            continue
        ok_arr = u(b0) == arr and u(b1) == arr
        ok_from = s0.lower is None and u(s0.upper) == '-%s' % lag
        ok_to = u(s1.lower) == lag and s1.upper is None
        st0, st1 = u(s0.step), u(s1.step)
        ok_step = st0 in want_step and st1 in want_step
        ck.check(ok_arr and ok_from and ok_to and ok_step, rule, mod, defs[r0], '_transitions_helper',
                 '%s: %s ; %s' % (label, u(defs[r0]), u(defs[r1])),
                 'instance of the slice lemma with L=%s, s=%s' % (lag, want_step[0]),
                 '%s branch must pair a[:-%s:%s] (from) with a[%s::%s] (to) on the same array `%s`: '
                 'any other start/stop/step pairs frame t with a frame other than t+%s or gives '
                 'slices of different length' % (label, lag, want_step[0], lag, want_step[0], arr, lag))
    ck.ok('C03.D2.orientation', mod, stack, u(stack), 'row 0 = from-states (%s), row 1 = to-states (%s)' % (r0, r1))
    # names: r0 is the [:-L] slice -> from state. Checked above through ok_from/ok_to.


def d_counts(ck):
    mod = ck.repo.mod(TM)
    fn = mod.func('assigns_to_counts')
    ck.analysed(mod, fn)
    fi = finfo(mod, fn)
    ps = params(fn)
    assigns, lag = ps[0], ps[1]
    # lag guard
    guards = []
    for n in fn.body:
        if isinstance(n, ast.If) and any(isinstance(x, ast.Raise) for x in n.body):
            cs = conjuncts(n.test, True)
            if cs and len(cs) == 1 and isinstance(cs[0], Cmp):
                less = cs[0].as_less()
                if less and u(less[0]) == lag and ((less[1] and const_value(less[2]) == 1) or
                                                   (not less[1] and const_value(less[2]) == 0)):
                    guards.append(n)
    helper_calls = [c for c in calls_in(fn) if call_name(c) == '_transitions_helper']
    ck.check(bool(guards), 'C03.D1.lag-guard', mod, guards[0] if guards else fn, 'assigns_to_counts',
             u(guards[0].test) if guards else 'lag_time < 1',
             'lag_time < 1 raises (a[:-0] would be empty)',
             'lag_time < 1 must raise before counting: with L = 0 the slice a[:-0] is empty and '
             'negative lags pair the wrong frames')
    if guards and helper_calls:
        ok = all(fi.cfg.dominates(guards[0], fi.stmt(c)) for c in helper_calls)
        ck.check(ok, 'C03.D1.lag-guard', mod, guards[0], 'assigns_to_counts', 'guard dominates helper calls',
                 'guard dominates every helper call', 'the lag guard does not dominate the helper call')
    if len(helper_calls) != 1:
        ck.missing('C03.D3.per-row', '_transitions_helper call in assigns_to_counts (found %d)' % len(helper_calls))
        return
    hc = helper_calls[0]
    # D3: helper call inside a comprehension/loop over the masked per-row array
    comp = mod.parent.get(hc)
    while comp is not None and not isinstance(comp, (ast.ListComp, ast.GeneratorExp, ast.For)):
        comp = mod.parent.get(comp)
    row_var = it = None
    if isinstance(comp, (ast.ListComp, ast.GeneratorExp)) and len(comp.generators) == 1:
        row_var, it = u(comp.generators[0].target), comp.generators[0].iter
    elif isinstance(comp, ast.For):
        row_var, it = u(comp.target), comp.iter
    ok = row_var is not None and hc.args and u(hc.args[0]) == row_var and isinstance(it, ast.Name) and it.id == assigns
    ck.check(ok, 'C03.D3.per-row', mod, hc, 'assigns_to_counts', u(comp)[:160] if comp is not None else u(hc),
             'pairs are formed inside one trajectory row at a time',
             'the lagged pairs must be built per trajectory: the helper must receive the loop '
             'variable iterating over the (masked) rows of `%s`' % assigns)
    kw_ok = u(kwarg(hc, 'lag_time')) == lag and u(kwarg(hc, 'sliding_window')) == ps[3]
    if not kw_ok and len(hc.args) >= 3:
        kw_ok = u(hc.args[1]) == lag and u(hc.args[2]) == ps[3]
    ck.check(kw_ok, 'C03.D3.per-row', mod, hc, 'assigns_to_counts', u(hc),
             'lag_time and sliding_window are forwarded to the helper',
             'the helper must receive lag_time=%s and sliding_window=%s' % (lag, ps[3]))
    # D4: masking per row: assigns = np.array([a[np.where(a != -1)] for a in assigns], dtype='O')
    mdefs = [s for s in assigns_to(fn, assigns) if isinstance(s, ast.Assign)]
    okm = False
    for s in mdefs:
        for lc in ast.walk(s.value):
            if isinstance(lc, ast.ListComp) and len(lc.generators) == 1:
                tv = u(lc.generators[0].target)
                e = lc.elt
                if isinstance(e, ast.Subscript) and u(e.value) == tv and ('%s != -1' % tv) in u(e.slice) \
                        and u(lc.generators[0].iter) == assigns:
                    okm = True
    masked_before = okm and it is not None and all(
        isinstance(d, ast.Assign) and d in mdefs for d in fi.defs_of_use(it) if d != 'PARAM') and \
        'PARAM' not in fi.defs_of_use(it)
    ck.check(masked_before, 'C03.D4.mask', mod, mdefs[0] if mdefs else fn, 'assigns_to_counts',
             u(mdefs[0])[:160] if mdefs else 'mask',
             'padding -1 is removed per row before the lagged slices are taken',
             'each row must be filtered with row[row != -1] before slicing, and the helper must '
             'iterate over the filtered rows (otherwise padding is counted as a state / pairs span padding)')
    # D2/D3: hstack result flows unsliced into coo_matrix and np.ones
    coo = [c for c in calls_in(fn) if (call_name(c) or '').endswith('coo_matrix')]
    if len(coo) != 1:
        ck.missing('C03.D2.coo', 'coo_matrix construction')
        return
    c = coo[0]
    tup = c.args[0] if c.args else None
    shape = kwarg(c, 'shape') or (c.args[1] if len(c.args) > 1 else None)
    ok_shape = isinstance(shape, ast.Tuple) and len(shape.elts) == 2 and u(shape.elts[0]) == u(shape.elts[1]) == ps[2]
    ck.check(ok_shape, 'C03.D2.coo', mod, c, 'assigns_to_counts', u(c),
             'square matrix with the requested/inferred number of states',
             'the count matrix must have shape (max_n_states, max_n_states)')
    ok_t = isinstance(tup, ast.Tuple) and len(tup.elts) == 2 and all(isinstance(e, ast.Name) for e in tup.elts)
    if not ok_t:
        ck.bad('C03.D2.coo', mod, c, 'assigns_to_counts', u(c), 'coo_matrix must receive (data, coords) names')
        return
    data, coords = tup.elts
    cv = fi.resolve(coords)
    ok = isinstance(cv, ast.Call) and call_name(cv) in ('np.hstack', 'np.concatenate') and cv.args
    if ok and call_name(cv) == 'np.concatenate':
        ok = const_value(kwarg(cv, 'axis')) == 1
    src_ok = False
    if ok:
        tv = fi.resolve(cv.args[0]) if isinstance(cv.args[0], ast.Name) else cv.args[0]
        src_ok = any(x is hc for x in ast.walk(tv))
    ck.check(ok and src_ok, 'C03.D3.unsliced', mod, c, 'assigns_to_counts',
             '%s = %s' % (u(coords), u(cv)[:100]),
             'coordinates are the plain horizontal concatenation of the per-row pair lists',
             'the coordinate array given to coo_matrix must be np.hstack(<per-row helper results>) '
             'itself: thinning/slicing the concatenated pair list (e.g. [:, ::lag]) carries the '
             'stride phase across trajectory boundaries')
    dv = fi.resolve(data)
    ok = isinstance(dv, ast.Call) and call_name(dv) == 'np.ones' and dv.args and \
        u(dv.args[0]) == '%s.shape[1]' % u(coords)
    ck.check(ok, 'C03.D4.unit-weights', mod, c, 'assigns_to_counts', '%s = %s' % (u(data), u(dv)),
             'one unit of weight per coordinate column (duplicates summed by COO)',
             'every pair must carry weight one: data must be np.ones(%s.shape[1])' % u(coords))
    # D5: inferred number of states
    nd = [s for s in assigns_to(fn, ps[2]) if isinstance(s, ast.Assign)]
    okn = False
    if len(nd) == 1:
        v = nd[0].value
        okn = isinstance(v, ast.BinOp) and isinstance(v.op, ast.Add) and const_value(v.right) == 1 and \
            isinstance(v.left, ast.Call) and isinstance(v.left.func, ast.Attribute) and v.left.func.attr == 'max' and \
            isinstance(v.left.func.value, ast.Call) and call_name(v.left.func.value) == 'np.concatenate' and \
            u(v.left.func.value.args[0]) == assigns
        g = mod.parent.get(nd[0])
        okn = okn and isinstance(g, ast.If) and u(g.test) == '%s is None' % ps[2]
    ck.check(okn, 'C03.D5.n-states', mod, nd[0] if nd else fn, 'assigns_to_counts', u(nd[0]) if nd else ps[2],
             'inferred number of states = largest assigned state + 1 over ALL assigned frames',
             'when max_n_states is None it must be np.concatenate(<masked rows>).max() + 1: inferring '
             'it from the pair list loses states that only occur in frames without a partner '
             '(trajectories not longer than the lag, frames skipped by the strided window)')


def check(ck):
    d1_slices(ck)
    d_counts(ck)
    check_no_arg_mutation(ck, 'C03.D6.inputs-unmodified', [
        (TM, 'assigns_to_counts'), (TM, '_transitions_helper')])
    return EXPLANATION

"""C03 Transition counts: lag-shifted slice pairs, orientation, no
cross-trajectory pairs, -1 masking, unit weights, inferred state count.

All constructs are located by ROLE (parameters by position, "what the helper
returns", "what is handed to coo_matrix", "the variable iterated over by the
loop that calls the helper") and followed through def-use chains; contents are
compared after expansion of temporaries.  Verdicts are three-valued: a
recognised construct with wrong content is a VIOLATION, an unrecognised shape
is ANALYSIS-INCOMPLETE."""
import ast

from ..cfg import Assume, stmt_defs
from ..core import (arg_or_kw, call_name, const_value, kwarg, params, u,
                    walk_expr)
from ..match import canon, classify, match_any
from ..normal import is_pure
from ..patterns import (Cmp, calls_in, check_no_arg_mutation, conjuncts,
                        finfo, returns_of)

TM = 'enspara/msm/transition_matrices.py'
HELPER = '_transitions_helper'
COUNTS = 'assigns_to_counts'

EXPLANATION = (
    'Static decision of the structural necessary conditions of exact '
    'transition counting.  Lemma (proved on paper, frozen in the rule): for '
    'L >= 1, s >= 1 and any length n, a[:-L:s] and a[L::s] have equal length '
    'and pair position t with t+L.  (D1) both branches of _transitions_helper '
    'instantiate the lemma with L = lag_time on the same array, s = 1 '
    '(sliding) resp. s = lag_time (strided), and lag_time < 1 raises before '
    'any call; (D2) from-states are row 0 and to-states row 1 of the stacked '
    'coordinates handed unsliced to coo_matrix with a square shape; (D3) the '
    'helper is applied per trajectory row and the pair list is never thinned '
    'or re-sliced after concatenation; every row contributes its own pair '
    'list exactly once (the helper call dominates the statement that adds '
    'its result - no stale list of the previous row -, the loop visits all '
    'rows, a row is skipped only when len(row) <= lag); (D4) the -1 filter '
    'is applied per row before slicing (a trailing strip x[:-K] with a '
    'count K is rejected by the empty-slice half of the lemma: x[:-0] is '
    'empty) and every pair has weight one; (D5) the inferred number '
    'of states comes from all assigned frames, not from the pair list, and a '
    'method that hands self.<setting> to assigns_to_counts stores no '
    'data-derived value into that setting (a second fit counts with the '
    'constructor settings), and every setting handed to assigns_to_counts '
    'is read at call time from the public attribute named after the '
    'constructor parameter - not from a private copy of the constructor '
    'arguments that nothing refreshes, not from another setting, not from a '
    'constant; rows that reach the helper through a mapping must have '
    'distinct keys (a key computed from the row\'s value, or the group key '
    'of itertools.groupby over rows not sorted by that key, lets a later '
    'trajectory replace an earlier one); an early exit of the helper with an empty pair '
    'list is taken only when len(row) <= lag (linear decision over n, L); '
    '(D7) the functions on the counting path (and the methods of msm.py that '
    'count) keep no state that outlives a call: no memoising decorator, no '
    'module-level object / mutable default written at run time, except a '
    'table whose key determines the entry - a key that contains a parameter '
    'only as id(<parameter>) while the entry is computed from its contents '
    'is a violation. '
    'Additivity/permutation invariance as values follow but are not '
    're-derived.')


# ---------------------------------------------------------------------------
# generic helpers (candidates for promotion to sa/patterns.py / sa/cfg.py)

def _classify(node, patterns, binds=None, scope=None, maxd=2):
    """match.classify, with the third-wave reading of 'near': an expression
    over the operands of the role is called a DIFFERENT function (violation)
    only when it is a small edit (<= maxd positions) of an accepted form; an
    arbitrary other spelling over the same operands may as well be an
    equivalent the rule does not know -> 'far' (incomplete)."""
    v = classify(node, patterns, binds=binds, scope=scope)
    if v[0] == 'near' and v[1] > maxd:
        return ('far',) + tuple(v[1:])
    return v


def _rebound(fi, name, ignore=()):
    """`name` (a parameter) is (re)bound somewhere in the function (other
    than by the statements in `ignore`)."""
    for s in fi.cfg.nodes:
        if isinstance(s, (str, Assume)):
            continue
        if any(s is x for x in ignore):
            continue
        if name in stmt_defs(s):
            return True
    return False


_INT_CASTS = ('int', 'operator.index')


def _int_normalisations(fi, name):
    """Statements `name = int(name)` / `name = operator.index(name)` that
    rebind the parameter `name` to the Python integer of the same value (the
    operand is the parameter itself or an earlier normalisation of it).  For
    an argument already validated as integral this is the identity on values
    and only fixes the TYPE, so guards on `name` before and after such a
    statement speak about the same number."""
    sites = []
    grew = True
    while grew:
        grew = False
        for s in fi.cfg.nodes:
            if isinstance(s, (str, Assume)) or not isinstance(s, ast.Assign) or any(s is x for x in sites):
                continue
            if not (len(s.targets) == 1 and isinstance(s.targets[0], ast.Name) and s.targets[0].id == name):
                continue
            v = s.value
            if not (isinstance(v, ast.Call) and call_name(v) in _INT_CASTS and len(v.args) == 1 and not v.keywords
                    and isinstance(v.args[0], ast.Name) and v.args[0].id == name):
                continue
            ds = fi.rd.defs_at(s, name)
            if ds and all(d == 'PARAM' or any(d is x for x in sites) for d in ds):
                sites.append(s)
                grew = True
    return sites


def _inside(mod, node, container):
    p = mod.parent.get(node)
    while p is not None:
        if p is container:
            return True
        p = mod.parent.get(p)
    return False


def _flag_truth(test, polarity, flag):
    """Truth value of the name `flag` implied by `test` evaluating to
    `polarity` (None if the test does not decide it)."""
    cs = conjuncts(test, polarity)
    for c in cs or []:
        if isinstance(c, tuple) and c[0] == 'expr' and isinstance(c[1], ast.Name) and c[1].id == flag:
            return c[2]
    return None


def _assumes(fi, stmt):
    """Branch conditions that hold whenever `stmt` executes (the Assume nodes
    dominating it)."""
    return [a for a in fi.cfg.dom.get(stmt, ()) if isinstance(a, Assume)]


def _excluded(fi, site, flag, truth):
    """`site` can only execute when the never-rebound parameter `flag` has
    the other truth value."""
    if isinstance(site, str):
        return False
    for a in _assumes(fi, site):
        t = _flag_truth(a.test, a.polarity, flag)
        if t is not None and t != truth:
            return True
    return False


def _path_value(fi, name_node, flag, truth):
    """Defining expression of a Name use on the executions where `flag` is
    `truth`: the one reaching definition that is not confined to the other
    branch (same safety conditions as FuncInfo.temp_value)."""
    try:
        defs = fi.defs_of_use(name_node)
    except Exception:
        return None
    live = [s for s in defs if not _excluded(fi, s, flag, truth)]
    if len(live) != 1 or isinstance(live[0], str) or not isinstance(live[0], (ast.Assign, ast.AnnAssign)):
        return None
    site = live[0]
    v = fi.def_value(site, name_node.id)
    if v is None or isinstance(v, ast.GeneratorExp) or not is_pure(v):
        return None
    if fi._mutated_in_place(name_node.id):
        return None
    use = fi.stmt(name_node)
    for m in walk_expr(v):
        if not (isinstance(m, ast.Name) and isinstance(m.ctx, ast.Load)):
            continue
        ds = {x for x in fi.rd.defs_at(site, m.id) if not _excluded(fi, x, flag, truth)}
        du = {x for x in fi.rd.defs_at(use, m.id) if not _excluded(fi, x, flag, truth)}
        if ds != du or fi._mutated_in_place(m.id):
            return None
    return v


def _specialise(fi, expr, flag, truth, depth=8):
    """fi.expand(expr) on the executions where the parameter `flag` (never
    rebound) has truth value `truth`: temporaries are expanded, a name with
    one definition per branch of `if flag` is replaced by the definition of
    the live branch, `x if flag else y` by the live arm."""
    def ex(e, d):
        if isinstance(e, ast.Name):
            if d > 0 and isinstance(e.ctx, ast.Load):
                v = fi.temp_value(e)
                if v is None:
                    v = _path_value(fi, e, flag, truth)
                if v is not None:
                    return ex(v, d - 1)
            return ast.Name(id=e.id, ctx=ast.Load())
        if isinstance(e, ast.IfExp):
            t = _flag_truth(e.test, True, flag)
            if t is not None:
                return ex(e.body if t == truth else e.orelse, d)
        if not isinstance(e, ast.AST):
            return e
        if isinstance(e, (ast.expr_context, ast.operator, ast.unaryop, ast.boolop, ast.cmpop)):
            return e
        new = type(e)()
        for f in e._fields:
            val = getattr(e, f, None)
            if isinstance(val, list):
                setattr(new, f, [ex(x, d) for x in val])
            elif isinstance(val, ast.AST):
                setattr(new, f, ex(val, d))
            else:
                setattr(new, f, val)
        return new
    return ast.fix_missing_locations(ex(expr, depth))


def _orig(fi, e, depth=8):
    """Follow temporaries (fi.temp_value) but stay on nodes of the analysed
    tree, so that def-use queries remain possible on the result."""
    while isinstance(e, ast.Name) and depth > 0:
        v = fi.temp_value(e)
        if v is None:
            break
        e, depth = v, depth - 1
    return e


def _alts(fi, e, seen=None, depth=6):
    """The expressions a value may come from: a Name is followed through ALL
    its reaching definitions.  Returns [(site, expr-or-None)]; site is a
    statement, 'PARAM' or 'UNBOUND'; expr None = a definition that is not a
    plain assignment."""
    seen = set() if seen is None else seen
    if isinstance(e, ast.Name) and isinstance(e.ctx, ast.Load):
        try:
            defs = fi.defs_of_use(e)
        except Exception:
            return [(None, None)]
        out = []
        for s in sorted(defs, key=lambda s: (0, s) if isinstance(s, str) else (1, getattr(s, 'lineno', 0))):
            if isinstance(s, str):
                out.append((s, e))
                continue
            v = fi.def_value(s, e.id) if isinstance(s, (ast.Assign, ast.AnnAssign)) else None
            if v is None:
                out.append((s, None))
            elif id(s) in seen or depth <= 0:
                out.append((s, v))
            else:
                seen.add(id(s))
                out += _alts(fi, v, seen, depth - 1)
        return out
    return [(fi.stmt(e), e)]


def _lin(e, name):
    """(c0, c1) with e == c0 + c1*name for integer literals, +, -, unary
    minus and multiplication by a literal; None otherwise."""
    if isinstance(e, ast.Constant):
        if isinstance(e.value, int) and not isinstance(e.value, bool):
            return (e.value, 0)
        return None
    if isinstance(e, ast.Name):
        return (0, 1) if e.id == name else None
    if isinstance(e, ast.UnaryOp) and isinstance(e.op, (ast.USub, ast.UAdd)):
        v = _lin(e.operand, name)
        if v is None:
            return None
        return (-v[0], -v[1]) if isinstance(e.op, ast.USub) else v
    if isinstance(e, ast.BinOp):
        a, b = _lin(e.left, name), _lin(e.right, name)
        if a is None or b is None:
            return None
        if isinstance(e.op, ast.Add):
            return (a[0] + b[0], a[1] + b[1])
        if isinstance(e.op, ast.Sub):
            return (a[0] - b[0], a[1] - b[1])
        if isinstance(e.op, ast.Mult):
            if a[1] == 0:
                return (a[0] * b[0], a[0] * b[1])
            if b[1] == 0:
                return (a[0] * b[0], a[1] * b[0])
    return None


def _subst(e, env):
    """Copy of expression `e` with every Name(Load) listed in `env`
    replaced by (a copy of) the expression it stands for."""
    import copy

    class _S(ast.NodeTransformer):
        def visit_Name(self, n):
            if isinstance(n.ctx, ast.Load) and n.id in env:
                return copy.deepcopy(env[n.id])
            return n
    if not env:
        return e
    return ast.fix_missing_locations(_S().visit(copy.deepcopy(e)))


def _absent_or(e, value):
    """Slice component `e` is missing, None, or the literal `value`."""
    if e is None or (isinstance(e, ast.Constant) and e.value is None):
        return True
    return value is not None and isinstance(e, ast.Constant) and type(e.value) is int and e.value == value


def _is_count(e):
    """`e` is syntactically a number of elements: a non-negative integer
    that is 0 when nothing qualifies (np.count_nonzero(m), (a == b).sum(),
    len(x), x.size, int(<count>))."""
    if isinstance(e, ast.Call):
        cn = call_name(e) or ''
        if cn in ('np.count_nonzero', 'len') and len(e.args) == 1 and not e.keywords:
            return True
        if cn == 'int' and len(e.args) == 1 and not e.keywords:
            return _is_count(e.args[0])
        if isinstance(e.func, ast.Attribute) and e.func.attr == 'sum' and not e.args and not e.keywords and \
                isinstance(e.func.value, ast.Compare):
            return True
    if isinstance(e, ast.Attribute) and e.attr == 'size':
        return True
    return False


def _selection(e):
    """For `X[lo:up:st]` (one-dimensional slice of a sequence X):
    (X, 'all')     every element is selected, in either order;
    (X, 'drops')   literal bounds/step that leave elements out as soon as X
                   is long enough;
    (X, 'unknown') non-literal bounds.
    None if `e` is not such a subscript."""
    p = _slice_parts(e)
    if p is None:
        return None
    vals = []
    for x in p[1:]:
        if _absent_or(x, None):
            vals.append(None)
        else:
            v = const_value(x)
            vals.append(v if type(v) is int else 'unknown')
    if 'unknown' in vals:
        return p[0], 'unknown'
    lo, up, st = vals
    if st in (None, 1):
        return p[0], ('all' if lo in (None, 0) and up is None else 'drops')
    if st == -1:
        return p[0], ('all' if lo in (None, -1) and up is None else 'unknown')
    return p[0], ('drops' if st != 0 else 'unknown')


def _loop_of(mod, node, fn):
    """Innermost for/while statement of `fn` whose body contains `node`."""
    child, p = node, mod.parent.get(node)
    while p is not None and child is not fn:
        if isinstance(p, (ast.For, ast.While, ast.AsyncFor)) and any(child is b for b in p.body):
            return p
        child, p = p, mod.parent.get(p)
    return None


def _grown_comp(fi, mod, fn, name_node):
    """A list built by the append idiom, read as the comprehension it is:

        T = []                      (or list())
        for x in IT:
            <statements>
            T.append(E)

    followed by a use of T  ->  the synthetic `[E for x in IT]` whose elt,
    target and iter are the ORIGINAL nodes (def-use queries and fi.expand keep
    working on them).  Conditions: the only definition of T reaching the use
    is the empty-list store, the append is the only in-place mutation of T,
    it is an unconditional statement of the loop body, the loop has no
    break/continue/return/else, store and loop sit in the same (innermost)
    loop, and the loop dominates the use (which lies outside it).  None
    otherwise."""
    if not (isinstance(name_node, ast.Name) and isinstance(name_node.ctx, ast.Load)):
        return None
    try:
        defs = fi.defs_of_use(name_node)
    except Exception:
        return None
    if len(defs) != 1:
        return None
    init = next(iter(defs))
    if not isinstance(init, ast.Assign) or len(init.targets) != 1 or not isinstance(init.targets[0], ast.Name):
        return None
    v = init.value
    if not ((isinstance(v, ast.List) and not v.elts) or
            (isinstance(v, ast.Call) and call_name(v) == 'list' and not v.args and not v.keywords)):
        return None
    muts = fi._mutated_in_place(name_node.id)
    if len(muts) != 1 or not isinstance(muts[0], ast.Expr):
        return None
    call = muts[0].value
    if not (isinstance(call, ast.Call) and isinstance(call.func, ast.Attribute) and call.func.attr == 'append'
            and isinstance(call.func.value, ast.Name) and call.func.value.id == name_node.id
            and len(call.args) == 1 and not call.keywords and not isinstance(call.args[0], ast.Starred)):
        return None
    loop = mod.parent.get(muts[0])
    if not isinstance(loop, ast.For) or not any(muts[0] is b for b in loop.body) or loop.orelse:
        return None
    for n in ast.walk(loop):
        if isinstance(n, (ast.Break, ast.Continue, ast.Return, ast.Yield, ast.YieldFrom)):
            return None
    if _loop_of(mod, loop, fn) is not _loop_of(mod, init, fn):
        return None
    use = fi.stmt(name_node)
    if use is None or use is loop or _inside(mod, use, loop):
        return None
    if not (fi.cfg.dominates(init, loop) and fi.cfg.dominates(loop, use)):
        return None
    # the loop variable / iterable are not disturbed by the body
    tnames = {x.id for x in ast.walk(loop.target) if isinstance(x, ast.Name)}
    for b in loop.body:
        for s in ast.walk(b):
            if isinstance(s, ast.stmt) and tnames & set(stmt_defs(s)):
                return None
    comp = ast.ListComp(elt=call.args[0], generators=[
        ast.comprehension(target=loop.target, iter=loop.iter, ifs=[], is_async=0)])
    comp._grown_from = loop
    return comp


def _unpacked(fi, name_node):
    """(X, i, n) when the Name use is bound by the unpacking `a0, .., an-1 =
    X` (X not a display, no starred target) as its only reaching definition
    and X denotes the same value at the use: the name then IS `X[i]`."""
    if not (isinstance(name_node, ast.Name) and isinstance(name_node.ctx, ast.Load)):
        return None
    try:
        defs = fi.defs_of_use(name_node)
    except Exception:
        return None
    if len(defs) != 1:
        return None
    site = next(iter(defs))
    if not isinstance(site, ast.Assign) or len(site.targets) != 1:
        return None
    t = site.targets[0]
    if not isinstance(t, (ast.Tuple, ast.List)) or not all(isinstance(e, ast.Name) for e in t.elts):
        return None
    if isinstance(site.value, (ast.Tuple, ast.List)) or not is_pure(site.value):
        return None
    idx = [i for i, e in enumerate(t.elts) if e.id == name_node.id]
    if len(idx) != 1 or fi._mutated_in_place(name_node.id):
        return None
    use = fi.stmt(name_node)
    for m in walk_expr(site.value):
        if isinstance(m, ast.Name) and isinstance(m.ctx, ast.Load):
            if fi.rd.defs_at(site, m.id) != fi.rd.defs_at(use, m.id):
                return None
            for ms in fi._mutated_in_place(m.id):
                if ms is not site and fi.cfg.reachable(site, ms) and fi.cfg.reachable(ms, use, avoiding=[site]):
                    return None
    return site.value, idx[0], len(t.elts)


# ---------------------------------------------------------------------------
# rows without a lagged pair: linear arithmetic over (n = len(row), L = lag)

def _len_operand(e):
    """X for the spellings of "number of elements of the 1-d array X":
    len(X), X.size, X.shape[0]."""
    if isinstance(e, ast.Call) and call_name(e) == 'len' and len(e.args) == 1 and not e.keywords:
        return e.args[0]
    if isinstance(e, ast.Attribute) and e.attr == 'size':
        return e.value
    if isinstance(e, ast.Subscript) and const_value(e.slice) == 0 and isinstance(e.value, ast.Attribute) and e.value.attr == 'shape':
        return e.value.value
    return None


def _lin2(e, is_len, lag):
    """{'n': a, 'L': b, 1: c} with e == a*n + b*L + c, where n is any
    expression accepted by `is_len` (the number of frames of the row) and L
    the name `lag`; integer literals, +, -, unary minus, multiplication by a
    literal.  None otherwise."""
    if is_len(e):
        return {'n': 1, 'L': 0, 1: 0}
    if isinstance(e, ast.Constant):
        if isinstance(e.value, int) and not isinstance(e.value, bool):
            return {'n': 0, 'L': 0, 1: e.value}
        return None
    if isinstance(e, ast.Name):
        return {'n': 0, 'L': 1, 1: 0} if e.id == lag else None
    if isinstance(e, ast.UnaryOp) and isinstance(e.op, (ast.USub, ast.UAdd)):
        v = _lin2(e.operand, is_len, lag)
        if v is None:
            return None
        return {k: -x for k, x in v.items()} if isinstance(e.op, ast.USub) else v
    if isinstance(e, ast.BinOp):
        a, b = _lin2(e.left, is_len, lag), _lin2(e.right, is_len, lag)
        if a is None or b is None:
            return None
        if isinstance(e.op, ast.Add):
            return {k: a[k] + b[k] for k in a}
        if isinstance(e.op, ast.Sub):
            return {k: a[k] - b[k] for k in a}
        if isinstance(e.op, ast.Mult):
            for p, q in ((a, b), (b, a)):
                if p['n'] == 0 and p['L'] == 0:
                    return {k: p[1] * q[k] for k in q}
    return None


def _skip_atom(cj, is_len, lag, expand):
    """Verdict for ONE atomic condition (a conjunct from patterns.conjuncts)
    under which a trajectory row contributes no pair list: 'ok' when the
    condition implies len(row) <= lag for every lag >= 1 (such a row has no
    lagged pair: both a[:-L] and a[L:] are empty), 'bad' when it also holds
    for some row longer than the lag (that row's max(0, n - L) pairs are
    lost), 'far' when it is not a linear condition on the row length.

    Decision: the condition is brought to  a*n + b*L + c <= 0  over the
    integers.  a > 0: it says n <= floor((-c - b*L)/a), which is <= L for all
    L >= 1 iff (a + b)*L + a + c > 0 for all L >= 1 iff a + b >= 0 and
    2a + b + c > 0.  a < 0: it holds for every sufficiently long row."""
    if isinstance(cj, tuple):
        if cj[0] == 'expr' and is_len(expand(cj[1])):
            return 'bad' if cj[2] else 'ok'         # `if n:` skips non-empty rows / `if not n:` only empty ones
        return 'far'
    if not isinstance(cj, Cmp):
        return 'far'
    lhs, rhs = _lin2(expand(cj.lhs), is_len, lag), _lin2(expand(cj.rhs), is_len, lag)
    if lhs is None or rhs is None:
        return 'far'
    d = {k: lhs[k] - rhs[k] for k in lhs}           # lhs - rhs
    if d['n'] == 0:
        return 'far'
    rel = cj.rel
    if rel in ('>', '>='):
        d = {k: -x for k, x in d.items()}
        rel = '<' if rel == '>' else '<='
    if rel == '<':
        d[1] += 1
        rel = '<='
    if rel == '<=':
        a, b, c = d['n'], d['L'], d[1]
        if a < 0:
            return 'bad'
        return 'ok' if a + b >= 0 and 2 * a + b + c > 0 else 'bad'
    if rel == '==':
        # n == (-b*L - c)/a : harmless iff that value is <= L for all L >= 1
        a, b, c = d['n'], d['L'], d[1]
        if a < 0:
            a, b, c = -a, -b, -c
        return 'ok' if a + b >= 0 and a + b + c >= 0 else 'bad'
    if rel == '!=':
        return 'bad'
    return 'far'


def _skip_verdict(assumes, flag, is_len, lag, expand):
    """Verdict for the conjunction of branch conditions `assumes` (conditions
    on the never-rebound flag are left out: they select executions, not rows)
    as the condition under which a row is skipped.  A conjunction implies
    n <= L as soon as one conjunct does; a single conjunct that does not is a
    violation; several undecided ones are not decided."""
    vs = []
    for a in assumes:
        cs = conjuncts(a.test, a.polarity)
        if cs is None:
            vs.append('far')
            continue
        for cj in cs:
            if flag is not None and isinstance(cj, tuple) and cj[0] == 'expr' and isinstance(cj[1], ast.Name) and cj[1].id == flag:
                continue
            vs.append(_skip_atom(cj, is_len, lag, expand))
    if 'ok' in vs:
        return 'ok'
    if vs == ['bad']:
        return 'bad'
    return 'far'


def _empty_pairs(e):
    """`e` is syntactically a (2, 0) array: the pair list of a row without
    pairs (np.empty/zeros/ones/full((2, 0)...), np.array([[], []]),
    np.row_stack/vstack(([], [])))."""
    if not isinstance(e, ast.Call):
        return False
    cn = call_name(e) or ''
    if cn in ('np.empty', 'np.zeros', 'np.ones', 'np.full'):
        sh = arg_or_kw(e, 0, 'shape')
        return isinstance(sh, (ast.Tuple, ast.List)) and [const_value(x) for x in sh.elts] == [2, 0] and \
            all(type(const_value(x)) is int for x in sh.elts)
    if cn in ('np.array', 'np.asarray', 'np.row_stack', 'np.vstack') and e.args:
        x = e.args[0]
        return isinstance(x, (ast.Tuple, ast.List)) and len(x.elts) == 2 and all(
            isinstance(y, (ast.Tuple, ast.List)) and not y.elts for y in x.elts)
    return False


# ---------------------------------------------------------------------------
# D1/D2: the helper

_STACKS =('np.row_stack', 'np.vstack', 'np.array', 'np.asarray', 'np.stack')


def _slice_parts(e):
    """(base, lower, upper, step) of `base[lower:upper:step]` /
    `base[slice(...)]`, else None."""
    if not isinstance(e, ast.Subscript):
        return None
    s = e.slice
    if isinstance(s, ast.Slice):
        return e.value, s.lower, s.upper, s.step
    if isinstance(s, ast.Call) and call_name(s) == 'slice' and not s.keywords and 1 <= len(s.args) <= 3:
        a = list(s.args)
        if len(a) == 1:
            return e.value, None, a[0], None
        return e.value, a[0], a[1], (a[2] if len(a) == 3 else None)
    return None


def _component(e, lag, accepted):
    """Verdict for one slice component against the accepted values ('none' or
    linear forms in lag): 'ok' | 'bad' (a different, fully understood value) |
    'far' (not understood / equal only as mathematical integers)."""
    if e is None or (isinstance(e, ast.Constant) and e.value is None):
        return 'ok' if 'none' in accepted else 'bad'
    v = _lin(e, lag)
    if v is None:
        return 'far'
    if v not in accepted:
        return 'bad'
    if v[1] != 0 and u(e) not in (lag, '-%s' % lag, '-(%s)' % lag):
        # e.g. `-1 * lag` / `0 - lag`: equal for Python ints only
        return 'far'
    return 'ok'


def _pair_verdict(a, b, arr, lag, strided):
    """Verdict for (from, to) = (a, b) as an instance of the slice lemma."""
    pa, pb = _slice_parts(a), _slice_parts(b)
    if pa is None or pb is None:
        return 'far', 'from/to states are not plain slices of the trajectory parameter'
    out = []
    for p in (pa, pb):
        if isinstance(p[0], ast.Name):
            out.append('ok' if p[0].id == arr else 'bad')
        else:
            out.append('far')
    step = {(0, 1)} if strided else {'none', (1, 0)}
    out.append(_component(pa[1], lag, {'none', (0, 0)}))
    out.append(_component(pa[2], lag, {(0, -1)}))
    out.append(_component(pa[3], lag, step))
    out.append(_component(pb[1], lag, {(0, 1)}))
    out.append(_component(pb[2], lag, {'none'}))
    out.append(_component(pb[3], lag, step))
    if 'bad' in out:
        return 'bad', ''
    if 'far' in out:
        return 'far', 'sliced object is not the parameter itself, or a bound/step is not a literal, None or +-%s' % lag
    return 'ok', ''


def d1_slices(ck):
    rule = 'C03.D1.slices'
    mod = ck.repo.mod(TM)
    fn = mod.func(HELPER)
    ck.analysed(mod, fn)
    fi = finfo(mod, fn)
    ps = params(fn)
    if len(ps) < 3:
        ck.missing(rule, '%s(trajectory, lag, sliding flag): found parameters %s' % (HELPER, ps))
        return
    arr, lag, sw = ps[0], ps[1], ps[2]
    for p in (arr, lag, sw):
        if _rebound(fi, p):
            ck.missing(rule, 'parameter `%s` of %s is rebound: slices cannot be related to the arguments' % (p, HELPER))
            return
    rets = [r for r in returns_of(fn) if r.value is not None]
    if not rets:
        ck.missing(rule, '%s returns nothing' % HELPER)
        return
    n = 0
    # early exits: a return of an EMPTY pair list under a condition on the row length.  It agrees with
    # the slice lemma (a[:-L] and a[L:] are both empty) exactly when the condition implies len(a) <= L.
    def is_len(e):
        x = _len_operand(e)
        return isinstance(x, ast.Name) and x.id == arr
    handled = set()
    early = []
    for r in rets:
        other = [a for a in _assumes(fi, r) if _flag_truth(a.test, a.polarity, sw) is None]
        if not other or not _empty_pairs(canon(fi.expand(r.value))):
            continue
        early.append(r)
        cond = ' and '.join(('' if a.polarity else 'not ') + '(%s)' % u(a.test)[:60] for a in other)
        v = _skip_verdict(other, sw, is_len, lag, lambda e: canon(fi.expand(e)))
        construct = 'empty pair list returned when %s' % cond
        if v == 'far':
            ck.missing('C03.D1.short-row', 'condition of the early exit at %s not recognised as a bound on the row length: %s' % (
                mod.loc(r), cond[:120]))
            continue
        for a in other:
            handled.add(id(a.owner))
        ck.check(v == 'ok', 'C03.D1.short-row', mod, r, HELPER, construct,
                 'the early exit is taken only when len(%s) <= %s, where both slices of the lemma are empty' % (arr, lag),
                 'a trajectory holds max(0, len - %s) lagged pairs, so the helper may return an empty pair list only when '
                 'len(%s) <= %s; the condition `%s` also holds for some longer row, whose pairs are then missing '
                 'from the counts' % (lag, arr, lag, cond[:100]))
    rets = [r for r in rets if not any(r is x for x in early)]
    for label, truth in (('sliding', True), ('strided', False)):
        step = lag if not truth else '1'
        live = [r for r in rets if not _excluded(fi, r, sw, truth)]
        if not live:
            ck.missing(rule, 'no return of %s reachable with %s=%s' % (HELPER, sw, truth))
            continue
        for r in live:
            n += 1
            other = [a for a in _assumes(fi, r) if _flag_truth(a.test, a.polarity, sw) is None and id(a.owner) not in handled]
            if other:
                ck.missing(rule, 'return at %s depends on a condition the slice lemma does not cover: %s' % (
                    mod.loc(r), u(other[0].test)[:80]))
                continue
            val = canon(_specialise(fi, r.value, sw, truth))
            text = '%s: %s' % (label, u(val))
            elts = None
            if isinstance(val, ast.Call) and call_name(val) in _STACKS and len(val.args) == 1 and \
                    isinstance(val.args[0], (ast.Tuple, ast.List)) and len(val.args[0].elts) == 2:
                ax = kwarg(val, 'axis')
                extra = [k for k in val.keywords if not (call_name(val) == 'np.stack' and k.arg == 'axis')]
                if extra:
                    ck.missing('C03.D2.orientation', 'stack call with options not recognised: %s' % text[:160])
                    continue
                if ax is not None and const_value(ax) != 0:
                    ck.bad('C03.D2.orientation', mod, r, HELPER, text,
                           'the helper must return the 2-row stack (from_states, to_states): stacking along '
                           'another axis transposes the coordinate array')
                    continue
                elts = val.args[0].elts
            if elts is None:
                v = _classify(val, ['np.row_stack((_A, _B))'], scope={arr, lag, sw})
                ck.decide(v, 'C03.D2.orientation', mod, r, HELPER, text, '',
                          'the helper must return the 2-row stack (from_states, to_states)')
                continue
            verdict, why = _pair_verdict(elts[0], elts[1], arr, lag, not truth)
            witness = None
            if verdict == 'bad' and _pair_verdict(elts[1], elts[0], arr, lag, not truth)[0] == 'ok':
                ck.bad('C03.D2.orientation', mod, r, HELPER, text,
                       'row 0 of the stack must be the from-states a[:-%s] and row 1 the to-states a[%s:]: '
                       'swapped rows transpose the count matrix' % (lag, lag))
                continue
            if verdict == 'far':
                ck.missing(rule, '%s branch not recognised as an instance of the slice lemma (%s): %s' % (
                    label, why, text[:160]))
                continue
            ck.check(verdict == 'ok', rule, mod, r, HELPER, text,
                     'instance of the slice lemma with L=%s, s=%s' % (lag, step),
                     '%s branch must pair a[:-%s:%s] (from) with a[%s::%s] (to) on the same array `%s`: '
                     'any other start/stop/step pairs frame t with a frame other than t+%s or gives '
                     'slices of different length' % (label, lag, step, lag, step, arr, lag), witness=witness)
            if verdict == 'ok':
                ck.ok('C03.D2.orientation', mod, r, text, 'row 0 = from-states a[:-%s], row 1 = to-states a[%s:]' % (lag, lag))
    return n


# ---------------------------------------------------------------------------
# assigns_to_counts

_MASKS = ['_V[np.where(_V != -1)]', '_V[_V != -1]', '_V[np.where(_V != -1)[0]]',
          '_V[np.nonzero(_V != -1)]', '_V[np.nonzero(_V != -1)[0]]',
          '_V[np.where(-1 != _V)]', '_V[-1 != _V]', '_V[np.where(-1 != _V)[0]]',
          '_V[~(_V == -1)]', '_V[np.where(~(_V == -1))]', '_V[np.not_equal(_V, -1)]']
_JOINS = ('np.concatenate', 'np.hstack')
_WIDE = ('int', 'np.int64', "'int'", "'int64'", 'np.int_', 'np.intp', "'i8'", 'float', 'np.float64',
         "'float'", "'float64'", 'np.uint64', 'np.longlong')
_NARROW = ('np.int8', 'np.int16', 'np.int32', 'np.uint8', 'np.uint16', 'np.uint32', 'bool', 'np.bool_',
           "'int8'", "'int16'", "'int32'", "'uint8'", "'uint16'", "'uint32'", "'bool'", 'np.float16', 'np.float32')


def _module_consts(mod, fn):
    """{name: literal} for the module-level names that are bound exactly once,
    to a number literal, are never rebound or changed by a function of the
    module and are not shadowed by a local of `fn`: named constants, read
    as the literal they stand for."""
    from ..core import walk_local
    seen = {}
    for st in getattr(mod.tree, 'body', []):
        for n in ast.walk(st):
            if isinstance(n, ast.Name) and isinstance(n.ctx, (ast.Store, ast.Del)) and not mod.enclosing_function(n):
                seen[n.id] = seen.get(n.id, 0) + 1
    local = set(params(fn)) | {n.id for n in walk_local(fn) if isinstance(n, ast.Name) and isinstance(n.ctx, (ast.Store, ast.Del))}
    shared = {x for f in mod.functions.values() for n in ast.walk(f) if isinstance(n, (ast.Global, ast.Nonlocal)) for x in n.names}
    out = {}
    for st in getattr(mod.tree, 'body', []):
        if isinstance(st, ast.Assign) and len(st.targets) == 1 and isinstance(st.targets[0], ast.Name):
            nm = st.targets[0].id
            v = canon(st.value)
            if seen.get(nm) == 1 and nm not in local and nm not in shared and isinstance(v, ast.Constant) \
                    and type(v.value) in (int, float):
                out[nm] = v
    return out


class _Counts:
    def __init__(self, ck):
        self.ck = ck
        self.mod = mod = ck.repo.mod(TM)
        self.fn = fn = mod.func(COUNTS)
        ck.analysed(mod, fn)
        self.fi = finfo(mod, fn)
        self.ps = params(fn)
        self.hps = params(mod.func(HELPER))
        self.flag_truths = set()
        self.consts = _module_consts(mod, fn)

    # -- D1 ---------------------------------------------------------------
    def lag_guard(self, helper_calls):
        ck, mod, fn, fi = self.ck, self.mod, self.fn, self.fi
        rule = 'C03.D1.lag-guard'
        lag = self.ps[1]
        if _rebound(fi, lag, ignore=_int_normalisations(fi, lag)):
            ck.missing(rule, 'parameter `%s` is rebound in %s' % (lag, COUNTS))
            return

        def as_lag(e):
            """`e` expanded, with int(lag)/operator.index(lag) read as lag
            (the identity on the integral values that pass the type check)."""
            class _T(ast.NodeTransformer):
                def visit_Call(self, n):
                    self.generic_visit(n)
                    if call_name(n) in _INT_CASTS and len(n.args) == 1 and not n.keywords and \
                            isinstance(n.args[0], ast.Name) and n.args[0].id == lag:
                        return n.args[0]
                    return n
            return _T().visit(fi.expand(e))

        def bound(a):
            """(k, a): the assumption implies lag >= k, from a conjunct that
            is an ordering between two linear forms c0 + c1*lag."""
            for c in conjuncts(a.test, a.polarity) or []:
                less = c.as_less() if isinstance(c, Cmp) else None
                if not less:
                    continue
                ls, lb = _lin(as_lag(less[0]), lag), _lin(as_lag(less[2]), lag)
                if ls is None or lb is None:
                    continue
                c0, c1 = ls[0] - lb[0] + (1 if less[1] else 0), ls[1] - lb[1]      # c0 + c1*lag <= 0
                if c1 >= 0:
                    continue        # an upper bound on the lag (or none at all)
                return -((-c0) // (-c1)), a                                       # lag >= ceil(c0 / -c1)
            return None

        def compares_lag(a):
            """The condition orders/equates the lag with something (as
            opposed to a type test), in a form `bound` did not read."""
            cs = conjuncts(a.test, a.polarity)
            if cs is None:
                return any(isinstance(x, ast.Name) and x.id == lag for x in walk_expr(a.test)) and \
                    any(isinstance(x, ast.Compare) for x in walk_expr(a.test))
            return any(isinstance(c, Cmp) and c.rel in ('<', '<=', '>', '>=', '==', '!=') and any(
                isinstance(x, ast.Name) and x.id == lag for side in (c.lhs, c.rhs) for x in walk_expr(side)) for c in cs)
        for hc in helper_calls:
            hs = fi.stmt(hc)
            bs = [b for b in (bound(a) for a in _assumes(fi, hs)) if b]
            good = [b for b in bs if b[0] == 1]
            if good:
                ck.ok(rule, mod, good[0][1].owner, 'not (%s)' % u(good[0][1].test) if not good[0][1].polarity else u(good[0][1].test),
                      '%s < 1 raises/leaves on every path to the helper call at %s (a[:-0] would be empty)' % (lag, mod.loc(hc)))
                continue
            if bs:
                ck.bad(rule, mod, bs[0][1].owner, COUNTS, '%s < 1' % lag,
                       'the lag guard in front of the helper call is `%s` (assumed %s): exactly the lags < 1 must be '
                       'rejected (L = 0 makes a[:-0] empty, negative lags pair the wrong frames, lag 1 is valid)' % (
                           u(bs[0][1].test), bs[0][1].polarity))
                continue
            odd = [a for a in _assumes(fi, hs) if compares_lag(a)]
            if odd:
                ck.missing(rule, 'a condition on `%s` in front of the helper call is not read as a lower bound: %s' % (lag, u(odd[0].test)[:100]))
                continue
            # a validator the rule cannot see through?
            cands = []
            for c in calls_in(fn):
                cn = call_name(c) or ''
                if c is hc or cn == HELPER or not cn or cn.split('.')[0] in ('np', 'numpy', 'numbers', 'logger', 'logging', 'exception', 'scipy') \
                        or cn in ('isinstance', 'type', 'int', 'str', 'print', 'len', 'repr', 'float'):
                    continue
                cs = fi.stmt(c)
                if any(isinstance(x, ast.Name) and x.id == lag for a in list(c.args) + [k.value for k in c.keywords] for x in walk_expr(a)) \
                        and isinstance(cs, (ast.Expr, ast.Assign)) and fi.cfg.dominates(cs, hs):
                    cands.append(c)
            if cands:
                ck.missing(rule, '`%s < 1` guard not found; %s is handed to %s, which the rule does not see through' % (
                    lag, lag, call_name(cands[0])))
                continue
            ck.bad(rule, mod, fn, COUNTS, '%s < 1' % lag,
                   'lag_time < 1 must raise before counting: with L = 0 the slice a[:-0] is empty and '
                   'negative lags pair the wrong frames')

    # -- rows ---------------------------------------------------------------
    def binder(self, name_node, inside):
        """(iterable, kind) that binds the Name `name_node` as a per-element
        iteration variable enclosing `inside`."""
        mod, fi = self.mod, self.fi
        p = mod.parent.get(inside)
        while p is not None and p is not self.fn:
            if isinstance(p, (ast.ListComp, ast.GeneratorExp, ast.SetComp)):
                for g in p.generators:
                    if isinstance(g.target, ast.Name) and g.target.id == name_node.id:
                        if g.ifs or len(p.generators) != 1 or isinstance(p, ast.SetComp):
                            return None, 'filtered'
                        return g.iter, 'comp'
            p = mod.parent.get(p)
        try:
            defs = fi.defs_of_use(name_node)
        except Exception:
            return None, None
        if len(defs) == 1:
            s = next(iter(defs))
            if isinstance(s, ast.For) and isinstance(s.target, ast.Name) and s.target.id == name_node.id \
                    and any(_inside(mod, inside, b) or inside is b for b in s.body):
                return s.iter, 'for'
        return None, None

    def is_raw(self, e):
        """`e` is the caller's trajectory collection itself."""
        e = _orig(self.fi, e)
        if isinstance(e, ast.Name) and e.id == self.ps[0]:
            try:
                return self.fi.defs_of_use(e) == {'PARAM'}
            except Exception:
                return False
        return False

    def comp_row(self, g):
        """(row variable, env) of a comprehension generator that walks over
        the caller's trajectories, one row at a time:
            for a in assigns                      -> ('a', {})
            for i, a in enumerate(assigns)        -> ('a', {})
            for a, k in zip(assigns, K)           -> ('a', {'k': f(a)})  when
                K = [f(b) for b in assigns] (zip fusion: position i of
                zip(X, [f(b) for b in X]) is (X[i], f(X[i])))
        Targets of zip positions the rule cannot resolve stay out of env (the
        element then mentions a foreign name and is classified 'far')."""
        fi = self.fi
        if g.ifs or getattr(g, 'is_async', 0):
            return None
        if isinstance(g.target, ast.Name):
            return (g.target.id, {}) if self.is_raw(g.iter) else None
        it = g.iter
        if not (isinstance(g.target, ast.Tuple) and all(isinstance(x, ast.Name) for x in g.target.elts)
                and isinstance(it, ast.Call) and not it.keywords):
            return None
        names = [x.id for x in g.target.elts]
        cn = call_name(it)
        if cn == 'enumerate' and len(it.args) == 1 and len(names) == 2 and self.is_raw(it.args[0]):
            return names[1], {}
        if cn != 'zip' or len(it.args) != len(names):
            return None
        raw = [i for i, a in enumerate(it.args) if self.is_raw(a)]
        if len(raw) != 1:
            return None
        row = names[raw[0]]
        env = {}
        for j, a in enumerate(it.args):
            if j == raw[0]:
                continue
            src = _orig(fi, a)
            while isinstance(src, ast.Call) and call_name(src) in ('list', 'tuple') and len(src.args) == 1 and not src.keywords:
                src = _orig(fi, src.args[0])
            if isinstance(src, ast.ListComp) and len(src.generators) == 1:
                g2 = src.generators[0]
                if not g2.ifs and isinstance(g2.target, ast.Name) and self.is_raw(g2.iter):
                    env[names[j]] = _subst(fi.expand(src.elt), {g2.target.id: ast.Name(id=row, ctx=ast.Load())})
        return row, env

    def row_filter(self, elt, t):
        """Verdict for the per-row expression `elt` (a function of the row
        variable `t`) in the role "row without its -1 padding":
        'masked' | ('near', verdict, detail, construct) | 'far'."""
        e = canon(_subst(elt, self.consts))
        if isinstance(e, ast.IfExp):
            return 'far'
        p = _slice_parts(e)
        if p is not None and isinstance(p[0], ast.Name) and p[0].id == t and _absent_or(p[1], 0) \
                and _absent_or(p[3], 1) and not _absent_or(p[2], None):
            # a prefix a[:U]: "cut the trailing padding off".  The empty-slice half of the slice lemma
            # (x[:-0] is x[:0], EMPTY) decides U = -K for a count K; other prefixes are not verified.
            up = p[2]
            if isinstance(up, ast.UnaryOp) and isinstance(up.op, ast.USub) and _is_count(up.operand) and \
                    {x.id for x in walk_expr(up.operand) if isinstance(x, ast.Name)} <= {t} | {'np', 'len', 'int'}:
                return ('near', ('near', 0, None),
                        'x[:-K] is never the whole of a non-empty row for a count K >= 0: K = %s is 0 for a row without '
                        'padding (the longest trajectory of every padded array) and x[:-0] is the EMPTY slice (the slice '
                        'lemma needs L >= 1), so that trajectory loses all its frames; ' % u(up.operand)[:60],
                        'row filter: %s' % u(e)[:120])
            return 'far'
        verdict = _classify(e, _MASKS, binds={'_V': ast.Name(id=t, ctx=ast.Load())}, scope={t})
        if verdict[0] == 'match':
            return 'masked'
        if verdict[0] == 'near':
            return ('near', verdict, '', 'row filter: %s' % u(e)[:120])
        return 'far'

    def masked_form(self, v, depth=4):
        """'masked' | 'raw' | ('near', verdict, detail, construct) | 'far' for an expression
        that should be the list of per-row -1-filtered trajectories.  A name
        with several reaching definitions (a filter applied under a condition)
        is followed through all of them."""
        fi = self.fi
        v = _orig(fi, v)
        while isinstance(v, ast.Call) and call_name(v) in ('np.array', 'np.asarray', 'list', 'tuple') and v.args:
            if any(k.arg != 'dtype' for k in v.keywords) or len(v.args) > 2:
                return 'far'
            v = _orig(fi, v.args[0])
        if isinstance(v, ast.Name):
            if self.is_raw(v):
                return 'raw'
            g = _grown_comp(fi, self.mod, self.fn, v)
            if g is not None:
                return self.masked_form(g, depth - 1)
            if depth <= 0:
                return 'far'
            kinds = []
            for s, x in _alts(fi, v):
                if s == 'PARAM' and v.id == self.ps[0] and isinstance(x, ast.Name) and x.id == self.ps[0]:
                    kinds.append('raw')
                elif x is None or isinstance(s, str) or s is None:
                    kinds.append('far')
                else:
                    kinds.append(self.masked_form(x, depth - 1))
            for k in kinds:
                if isinstance(k, tuple):
                    return k            # wrong on the executions that take this definition
            if kinds and all(k == 'masked' for k in kinds):
                return 'masked'
            if kinds and all(k == 'raw' for k in kinds):
                return 'raw'
            return 'far'                # e.g. filtered on one path only: not decided
        if not isinstance(v, (ast.ListComp, ast.GeneratorExp)) or len(v.generators) != 1:
            return 'far'
        r = self.comp_row(v.generators[0])
        if r is None:
            return 'far'
        t, env = r
        return self.row_filter(_subst(fi.expand(v.elt), env), t)

    def rows_kind(self, it):
        """How the iterable of the per-row loop relates to the caller's
        trajectories: 'masked' | 'raw' | ('near', v, detail, construct) | 'far'."""
        if self.is_raw(it):
            return 'raw'
        return self.masked_form(it)

    def joined_rows(self, e):
        """`e` is a concatenation/flattening of (all) the trajectories."""
        fi = self.fi
        e = _orig(fi, e)
        if isinstance(e, ast.Call):
            cn = call_name(e) or ''
            src = None
            if cn in _JOINS and e.args:
                src = e.args[0]
            elif isinstance(e.func, ast.Attribute) and e.func.attr in ('ravel', 'flatten', 'reshape') and cn.split('.')[0] not in ('np', 'numpy'):
                src = e.func.value
            elif cn in ('np.ravel',) and e.args:
                src = e.args[0]
            if src is not None:
                ps_, calls = fi.derives_from(src)
                if self.ps[0] in ps_ and HELPER not in calls:
                    return True
        return False

    # -- rows that travel through a mapping -----------------------------------
    def _single_def(self, e):
        """The defining expression of a Name with exactly one reaching plain
        assignment (temporaries first); `e` itself otherwise."""
        fi = self.fi
        e = _orig(fi, e)
        if isinstance(e, ast.Name) and isinstance(e.ctx, ast.Load):
            al = _alts(fi, e, depth=0)
            if len(al) == 1 and al[0][1] is not None and not isinstance(al[0][0], str) and al[0][0] is not None:
                return al[0][1]
        return e

    def _mapping_entries(self, d):
        """[(loop target, loop iterable, key expression, site)] for every way
        an entry gets into the mapping `d` by plain binding (a later entry
        with an equal key REPLACES the earlier one):
            {K: V for T in X}                 dict((K, V) for T in X)
            D = {} ... for T in X: D[K] = V
        None when the mapping is (also) filled by something the rule does not
        read - D[k].append(..), D.setdefault(..), D.update(..), D[k] += .. -
        which may well accumulate the rows of equal keys."""
        mod, fn, fi = self.mod, self.fn, self.fi
        v = self._single_def(d)
        if isinstance(v, ast.Call) and call_name(v) in ('dict', 'collections.OrderedDict', 'OrderedDict') and len(v.args) == 1 \
                and not v.keywords and isinstance(v.args[0], (ast.GeneratorExp, ast.ListComp)):
            c = v.args[0]
            if len(c.generators) == 1 and not c.generators[0].ifs and isinstance(c.elt, ast.Tuple) and len(c.elt.elts) == 2:
                return [(c.generators[0].target, c.generators[0].iter, c.elt.elts[0], c)]
            return None
        if isinstance(v, ast.DictComp):
            if len(v.generators) == 1 and not v.generators[0].ifs:
                return [(v.generators[0].target, v.generators[0].iter, v.key, v)]
            return None
        empty = (isinstance(v, ast.Dict) and not v.keys) or (
            isinstance(v, ast.Call) and call_name(v) in ('dict', 'collections.OrderedDict', 'OrderedDict') and not v.args and not v.keywords)
        d0 = d
        while isinstance(d0, ast.Name) and fi.temp_value(d0) is not None and isinstance(fi.temp_value(d0), ast.Name):
            d0 = fi.temp_value(d0)
        if not empty or not isinstance(d0, ast.Name):
            return None
        name, out = d0.id, []
        for x in ast.walk(fn):
            if not (isinstance(x, ast.Name) and x.id == name):
                continue
            p = mod.parent.get(x)
            if isinstance(x.ctx, ast.Store):
                continue
            if isinstance(p, ast.Subscript) and p.value is x and isinstance(p.ctx, ast.Store):
                s = mod.parent.get(p)
                lp = _loop_of(mod, s, fn)
                if not (isinstance(s, ast.Assign) and len(s.targets) == 1 and s.targets[0] is p and isinstance(lp, ast.For)
                        and any(s is b for b in lp.body)):
                    return None
                out.append((lp.target, lp.iter, p.slice, s))
                continue
            if isinstance(p, ast.Attribute) and p.value is x and p.attr in ('values', 'items', 'keys') \
                    and isinstance(mod.parent.get(p), ast.Call):
                continue        # a read of the finished mapping
            if isinstance(p, ast.Call) and call_name(p) in ('len', 'list', 'sorted', 'iter') and x in p.args:
                continue
            return None         # D[k] loads (append/extend on the entry), setdefault, update, aliasing ...
        return out or None

    _VALUE_FUNCS = {'np', 'numpy', 'len', 'int', 'tuple', 'str', 'float', 'max', 'min', 'sum', 'hash', 'bytes', 'repr',
                    'frozenset', 'set', 'sorted', 'bool', 'abs', 'round', 'type'}

    def _value_key(self, key, names):
        """`key` is a pure function of the VALUES of `names` alone (rows of
        equal value - or merely of equal length, first state, ... - get equal
        keys); id()/enumeration indices are not."""
        ids = {x.id for x in walk_expr(key) if isinstance(x, ast.Name)}
        if not (ids & set(names)) or not ids <= set(names) | self._VALUE_FUNCS:
            return False
        return not any(isinstance(x, ast.Call) and call_name(x) == 'id' for x in walk_expr(key)) and is_pure(key)

    def keyed_rows(self, it):
        """The rows the helper is applied to are read out of a mapping
        (`D.values()`, `D.items()`, `D[k] for k in D`).  Necessary for "every
        trajectory contributes its pairs exactly once" (additivity, invariance
        under reordering): no two trajectories may be bound to the same key,
        because a plain binding keeps only the LAST entry of a key.
          * key = pure function of the row's value (len(a), a[0], tuple(a) ..):
            two trajectories of equal key exist inside the quantifier (any set
            of trajectories: equal lengths, even equal contents) -> 'collide';
          * key = the group key of itertools.groupby(X, key=F): groupby merges
            only ADJACENT elements of equal key, so keys repeat unless X is
            sorted by F; X in the caller's order -> 'collide';
            X = sorted(.., key=F) -> 'distinct';
          * enumeration index / id(row) -> 'distinct';
          * anything else -> 'unknown'.
        Returns None (not a mapping view) or (kind, construct, detail)."""
        fi = self.fi
        e = _orig(fi, it)
        while isinstance(e, ast.Call) and call_name(e) in ('list', 'tuple', 'iter') and len(e.args) == 1 and not e.keywords:
            e = _orig(fi, e.args[0])
        if not (isinstance(e, ast.Call) and isinstance(e.func, ast.Attribute) and e.func.attr in ('values', 'items')
                and not e.args and not e.keywords):
            return None
        d = e.func.value
        entries = self._mapping_entries(d)
        if not entries:
            return None
        kinds = []
        for target, x, key, site in entries:
            if self.ps[0] not in fi.derives_from(x)[0]:
                return None
            xo = _orig(fi, x)
            cn = (call_name(xo) or '') if isinstance(xo, ast.Call) else ''
            construct = 'rows handed to %s are the entries of a mapping keyed by `%s` (for %s in %s)' % (
                HELPER, u(key)[:40], u(target)[:40], fi.xu(x)[:80])
            if cn.split('.')[-1] == 'groupby' and isinstance(target, (ast.Tuple, ast.List)) and len(target.elts) == 2 \
                    and isinstance(target.elts[0], ast.Name):
                kf = arg_or_kw(xo, 1, 'key')
                src = arg_or_kw(xo, 0, 'iterable')
                if kf is None or src is None or not self._value_key(key, [target.elts[0].id]):
                    kinds.append(('unknown', construct, ''))
                    continue
                so = _orig(fi, src)
                while isinstance(so, ast.Call) and call_name(so) in ('list', 'tuple', 'iter') and len(so.args) == 1 and not so.keywords:
                    so = _orig(fi, so.args[0])
                if isinstance(so, ast.Call) and call_name(so) == 'sorted' and kwarg(so, 'key') is not None \
                        and fi.xu(kwarg(so, 'key')) == fi.xu(kf):
                    kinds.append(('distinct', construct, ''))
                    continue
                ordering = {'sorted', 'sort', 'argsort', 'lexsort', 'unique', 'searchsorted'}
                reorders = any((call_name(c) or '').split('.')[-1] in ordering for c in calls_in(self.fn))
                if reorders or fi.derives_from(src)[1] & ordering or not (self.is_raw(src) or self.rows_kind(src) != 'far'):
                    kinds.append(('unknown', construct, ''))
                    continue
                kinds.append(('collide', construct,
                              'itertools.groupby merges only ADJACENT trajectories of equal key `%s`, and the trajectories arrive in the '
                              'caller\'s order (nothing sorts them by that key): a later run with the same key is bound to the same '
                              'mapping key and REPLACES the earlier run, whose lagged pairs are then missing from the counts (e.g. '
                              'lengths 5, 7, 5) - the total is below sum max(0, n - lag) and the matrix depends on the order of the '
                              'trajectories' % u(kf)[:40]))
                continue
            # one entry per row
            rowvars, index = [], None
            if isinstance(target, ast.Name) and (self.is_raw(x) or self.rows_kind(x) != 'far'):
                rowvars = [target.id]
            elif isinstance(target, (ast.Tuple, ast.List)) and cn == 'enumerate' and len(target.elts) == 2 and xo.args and \
                    all(isinstance(t, ast.Name) for t in target.elts) and (self.is_raw(xo.args[0]) or self.rows_kind(xo.args[0]) != 'far'):
                index, rowvars = target.elts[0].id, [target.elts[1].id]
            if not rowvars:
                kinds.append(('unknown', construct, ''))
            elif index is not None and isinstance(key, ast.Name) and key.id == index:
                kinds.append(('distinct', construct, ''))
            elif self._value_key(fi.expand(key), rowvars):
                kinds.append(('collide', construct,
                              'the key `%s` is a function of the trajectory\'s value: two trajectories with equal key (the quantifier '
                              'admits any set of trajectories - equal lengths, equal contents) are bound to the same mapping key and the '
                              'later one REPLACES the earlier one, whose lagged pairs are then missing from the counts (not additive over '
                              'trajectories)' % u(key)[:40]))
            else:
                kinds.append(('unknown', construct, ''))
        for k in kinds:
            if k[0] == 'collide':
                return k
        for k in kinds:
            if k[0] == 'unknown':
                return k
        return kinds[0]

    def per_row(self, hc):
        ck, mod, fi = self.ck, self.mod, self.fi
        assigns, lag, nst, sw = self.ps[:4]
        hp = self.hps
        # forwarded lag / flag
        lv = arg_or_kw(hc, 1, hp[1])
        if lv is None:
            ck.bad('C03.D3.per-row', mod, hc, COUNTS, u(hc), 'the helper must receive lag_time=%s (its default is used instead)' % lag)
        else:
            v = _classify(fi.expand(lv), [lag, 'int(%s)' % lag], scope={lag, sw, nst})
            if v[0] == 'match' and _rebound(fi, lag, ignore=_int_normalisations(fi, lag)):
                v = ('far', 0, None)
            ck.decide(v, 'C03.D3.per-row', mod, hc, COUNTS, '%s: lag = %s' % (u(hc)[:120], u(lv)),
                      'lag_time is forwarded to the helper', 'the helper must receive lag_time=%s' % lag)
        fv = arg_or_kw(hc, 2, hp[2])
        if fv is None:
            from ..core import param_default
            fv = param_default(mod.func(HELPER), hp[2])
        fx = fi.expand(fv) if fv is not None else None
        if isinstance(fx, ast.Name) and fx.id == sw and not _rebound(fi, sw):
            ck.ok('C03.D3.per-row', mod, hc, '%s: sliding = %s' % (u(hc)[:120], u(fv)), 'sliding_window is forwarded to the helper')
        elif isinstance(fx, ast.Constant) and isinstance(fx.value, bool) and not _rebound(fi, sw):
            truths = [_flag_truth(a.test, a.polarity, sw) for a in _assumes(fi, fi.stmt(hc))]
            ck.check(fx.value in [t for t in truths if t is not None], 'C03.D3.per-row', mod, hc, COUNTS,
                     '%s: sliding = %s' % (u(hc)[:120], u(fx)),
                     'the constant flag agrees with the branch of `%s` the call sits in' % sw,
                     'the helper must receive sliding_window=%s (a constant that is not implied by the enclosing branch is used)' % sw)
        else:
            ck.missing('C03.D3.per-row', 'sliding-window flag handed to the helper not recognised: %s' % u(hc)[:160])
        # the trajectory argument
        a0 = arg_or_kw(hc, 0, hp[0])
        if a0 is None:
            ck.missing('C03.D3.per-row', 'trajectory argument of %s' % u(hc)[:160])
            return
        ax = _orig(fi, a0)
        inline = False
        row = ax if isinstance(ax, ast.Name) else None
        if row is None:
            m = match_any(_MASKS, canon(_subst(fi.expand(ax), self.consts)))
            if m is not None and isinstance(m['_V'], ast.Name):
                cand = [x for x in walk_expr(ax) if isinstance(x, ast.Name) and x.id == m['_V'].id]
                if cand:
                    row, inline = cand[0], True
        it = kind = None
        if row is not None:
            it, kind = self.binder(row, hc)
        else:
            # another pure function of the iteration variable alone (row[::2], row[1:], ...)
            for x in walk_expr(ax):
                if isinstance(x, ast.Name) and self.binder(x, hc)[0] is not None:
                    v = _classify(fi.expand(ax), _MASKS + ['_V'], binds={'_V': ast.Name(id=x.id, ctx=ast.Load())}, scope={x.id})
                    if v[0] == 'near':
                        ck.bad('C03.D3.per-row', mod, hc, COUNTS, u(hc)[:200],
                               'the helper must receive the (filtered) trajectory row `%s` itself, not `%s`: every frame of the '
                               'row takes part in the lagged pairing' % (x.id, u(ax)[:80]))
                        return
                    break
        if it is None:
            if self.joined_rows(ax):
                ck.bad('C03.D3.per-row', mod, hc, COUNTS, u(hc)[:200],
                       'the lagged pairs must be built per trajectory: the helper receives `%s`, a concatenation of '
                       'several trajectories, so frame t of one trajectory is paired with frame t+%s-n of the next' % (
                           fi.xu(a0)[:80], lag))
            else:
                ck.missing('C03.D3.per-row', 'the trajectory handed to the helper is not recognised as the iteration '
                           'variable of a loop over the trajectories: %s' % u(hc)[:160])
            return
        kr = self.keyed_rows(it)
        if kr is not None and kr[0] == 'collide':
            ck.bad('C03.D3.every-row', mod, hc, COUNTS, kr[1],
                   'every trajectory must contribute its lagged pairs exactly once: ' + kr[2])
            return
        sel = _selection(_orig(fi, it))
        if sel is not None and (self.rows_kind(sel[0]) != 'far' or self.ps[0] in fi.derives_from(sel[0])[0]):
            if sel[1] == 'drops':
                ck.bad('C03.D3.every-row', mod, hc, COUNTS, 'for %s in %s' % (row.id, fi.xu(it)[:120]),
                       'the per-row loop must visit every trajectory: the literal slice `%s` of the rows leaves '
                       'trajectories out, whose pairs then miss from the counts' % u(_orig(fi, it))[:80])
                return
            if sel[1] == 'all':
                it = sel[0]
        rk = self.rows_kind(it)
        derived = rk != 'far' or self.ps[0] in fi.derives_from(it)[0]
        if not derived:
            ck.missing('C03.D3.per-row', 'the loop around the helper call does not iterate over `%s`: %s' % (assigns, u(it)[:120]))
            return
        ck.ok('C03.D3.per-row', mod, hc, 'for %s in %s: %s' % (row.id, u(it)[:60], u(hc)[:100]),
              'pairs are formed inside one trajectory row at a time')
        # D4: -1 filter reaches the helper argument
        construct = 'rows: %s ; helper argument: %s' % (fi.xu(it)[:120], u(ax)[:60])
        why_bad = ('each row must be filtered with row[row != -1] before slicing, and the helper must '
                   'iterate over the filtered rows (otherwise padding is counted as a state / pairs span padding)')
        if inline and rk in ('raw', 'masked'):
            ck.ok('C03.D4.mask', mod, hc, construct, 'padding -1 is removed from the row handed to the helper')
        elif rk == 'masked':
            ck.ok('C03.D4.mask', mod, hc, construct, 'padding -1 is removed per row before the lagged slices are taken')
        elif rk == 'raw' and _rebound(finfo(mod, mod.func(HELPER)), hp[0]):
            ck.missing('C03.D4.mask', 'the rows reach the helper unfiltered and %s rebinds its trajectory parameter `%s`: '
                       'a filter applied inside the helper is not followed' % (HELPER, hp[0]))
        elif rk == 'raw':
            ck.bad('C03.D4.mask', mod, hc, COUNTS, construct, why_bad)
        elif isinstance(rk, tuple):
            ck.decide(rk[1], 'C03.D4.mask', mod, hc, COUNTS, '%s ; %s' % (rk[3], construct) if len(rk) > 3 else construct, '',
                      (rk[2] if len(rk) > 2 else '') + why_bad)
        else:
            ck.missing('C03.D4.mask', 'the per-row -1 filter is not recognised in the definition of the iterated rows: %s' % construct[:200])

    def concat_uses(self, helper_calls):
        """D3: a concatenation of all trajectories may only feed `.max()`."""
        ck, mod, fn, fi = self.ck, self.mod, self.fn, self.fi
        hargs = set()
        for hc in helper_calls:
            for a in list(hc.args) + [k.value for k in hc.keywords]:
                hargs.add(id(a))

        def use_ok(n):
            p = mod.parent.get(n)
            if isinstance(p, ast.Attribute) and p.attr == 'max' and isinstance(mod.parent.get(p), ast.Call):
                return True
            return id(n) in hargs       # reported by per_row
        for c in calls_in(fn):
            if not self.joined_rows(c):
                continue
            if use_ok(c):
                continue
            p = mod.parent.get(c)
            uses = None
            if isinstance(p, ast.Assign) and len(p.targets) == 1 and isinstance(p.targets[0], ast.Name):
                t = p.targets[0].id
                uses = [x for x in ast.walk(fn) if isinstance(x, ast.Name) and isinstance(x.ctx, ast.Load) and x.id == t
                        and p in fi.defs_of_use(x)]
            if uses is not None and all(use_ok(x) for x in uses):
                continue
            ck.missing('C03.D3.concat-use', 'the concatenation of all trajectories %s is used for something else than '
                       '.max(): cannot decide whether trajectories stay separate' % u(c)[:100])

    # -- coo_matrix ---------------------------------------------------------
    def coo(self, helper_calls):
        ck, mod, fn, fi = self.ck, self.mod, self.fn, self.fi
        assigns, lag, nst, sw = self.ps[:4]
        coo = [c for c in calls_in(fn) if (call_name(c) or '').split('.')[-1] == 'coo_matrix']
        if not coo:
            ck.missing('C03.D2.coo', 'coo_matrix construction (found 0)')
            return

        def is_coo(e):
            return any(e is c for c in coo)
        for r in returns_of(fn):
            rv = _orig(fi, r.value) if r.value is not None else None
            if is_coo(rv):
                continue
            if isinstance(rv, ast.Attribute) and rv.attr == 'T' and is_coo(_orig(fi, rv.value)) or \
                    isinstance(rv, ast.Call) and isinstance(rv.func, ast.Attribute) and rv.func.attr == 'transpose' \
                    and is_coo(_orig(fi, rv.func.value)):
                ck.bad('C03.D2.coo', mod, r, COUNTS, u(r), 'the count matrix is returned transposed (from/to states exchanged)')
            else:
                ck.missing('C03.D2.coo', 'returned value is not the coo_matrix itself: %s' % u(r)[:120])
        # one construction per way out (e.g. requested / inferred number of states): each is examined
        for c in coo:
            self.one_coo(c, helper_calls)

    def one_coo(self, c, helper_calls):
        ck, mod, fn, fi = self.ck, self.mod, self.fn, self.fi
        assigns, lag, nst, sw = self.ps[:4]
        shape = arg_or_kw(c, 1, 'shape')
        tup = arg_or_kw(c, 0, 'arg1')
        n_node = None
        if shape is None:
            ck.bad('C03.D2.coo', mod, c, COUNTS, u(c), 'the count matrix must have shape (max_n_states, max_n_states); '
                   'without shape= it is inferred from the pairs and is neither square nor of the requested size')
        else:
            sh = _orig(fi, shape)
            if isinstance(sh, ast.Tuple) and len(sh.elts) == 2:
                e0, e1 = [_orig(fi, e) for e in sh.elts]
                same = u(canon(e0)) == u(canon(e1))
                if same and isinstance(e0, ast.Name) and fi.defs_of_use(e0) == fi.defs_of_use(e1):
                    n_node = e0
                    ck.ok('C03.D2.coo', mod, c, u(c), 'square matrix with the requested/inferred number of states')
                elif same and all(isinstance(x, ast.Name) for x in sh.elts) and fi.same_value(sh.elts[0], sh.elts[1]):
                    # a named value (n = <largest state> + 1) used twice
                    n_node = sh.elts[0]
                    ck.ok('C03.D2.coo', mod, c, u(c), 'square matrix with the requested/inferred number of states')
                elif not same:
                    ck.bad('C03.D2.coo', mod, c, COUNTS, u(c), 'the count matrix must have shape (max_n_states, max_n_states)')
                else:
                    ck.missing('C03.D2.coo', 'shape of the count matrix is square but not a plain variable: %s' % u(sh)[:100])
            else:
                ck.missing('C03.D2.coo', 'shape of the count matrix not recognised: %s' % u(shape)[:100])
        tup = _orig(fi, tup) if tup is not None else None
        if not (isinstance(tup, ast.Tuple) and len(tup.elts) == 2):
            ck.missing('C03.D2.coo', 'coo_matrix must receive (data, coords): %s' % u(c)[:120])
            return
        data, coords = tup.elts
        ct = _orig(fi, coords)
        if isinstance(ct, ast.Tuple) and len(ct.elts) == 2:
            # (data, (row, col)) spelled out
            idx = []
            for e in ct.elts:
                e = _orig(fi, e)
                if isinstance(e, ast.Subscript) and isinstance(const_value(e.slice), int):
                    idx.append((e.value, const_value(e.slice)))
                elif isinstance(e, ast.Name):
                    # `r, c = X` for a 2-row X: r is X[0], c is X[1]
                    un = _unpacked(fi, e)
                    if un is not None and un[2] == 2:
                        idx.append((un[0], un[1]))
            if len(idx) == 2 and u(canon(idx[0][0])) == u(canon(idx[1][0])) and (idx[0][1], idx[1][1]) == (0, 1):
                coords = idx[0][0]
            elif len(idx) == 2 and u(canon(idx[0][0])) == u(canon(idx[1][0])) and (idx[0][1], idx[1][1]) == (1, 0):
                ck.bad('C03.D2.orientation', mod, c, COUNTS, u(c)[:200], 'row indices must be the from-states (row 0 of the pair list) '
                       'and column indices the to-states (row 1): exchanged here')
                return
            else:
                ck.missing('C03.D2.coo', 'coordinates of the coo_matrix not recognised: %s' % u(ct)[:120])
                return
        self.unsliced(c, coords, helper_calls)
        self.unit_weights(c, data, coords)
        self.n_states(c, n_node, coords)

    def _hstack_arg(self, v):
        """T if v is the horizontal concatenation of the sequence T;
        'bad' for a concatenation along another axis; None otherwise."""
        if not isinstance(v, ast.Call):
            return None
        cn = call_name(v)
        if cn == 'np.hstack' and len(v.args) == 1 and not v.keywords:
            return v.args[0]
        if cn == 'np.concatenate' and v.args and len(v.args) <= 2 and all(k.arg == 'axis' for k in v.keywords):
            ax = arg_or_kw(v, 1, 'axis')
            if ax is not None and const_value(ax) in (1, -1):
                return v.args[0]
            if ax is None or isinstance(const_value(ax), int):
                return 'bad'
        return None

    def pair_freshness(self, name_node, where):
        """For a Name use all of whose assignment definitions are calls of
        the helper: (kind, calls, sites) with kind
          'fresh'   on every path through the iteration (the innermost loop
                    around `where`, or the function) one of the calls runs
                    before `where`: the value is this row's pair list;
          'stale'   some path reaches `where` without passing a call: the
                    value of an earlier iteration (or no value) arrives;
          'hoisted' the calls sit outside the loop around `where`.
        None if the name is (also) defined otherwise."""
        mod, fn, fi = self.mod, self.fn, self.fi
        try:
            defs = fi.defs_of_use(name_node)
        except Exception:
            return None
        sites = [s for s in defs if not isinstance(s, str)]
        if not sites or 'PARAM' in defs or fi._mutated_in_place(name_node.id):
            return None
        calls = []
        for s in sites:
            v = fi.def_value(s, name_node.id) if isinstance(s, (ast.Assign, ast.AnnAssign)) else None
            if not (isinstance(v, ast.Call) and call_name(v) == HELPER):
                return None
            calls.append(v)
        sites.sort(key=lambda s: getattr(s, 'lineno', 0))
        ws = fi.stmt(where)
        loop = _loop_of(mod, ws, fn)
        p = mod.parent.get(name_node)
        while p is not None and p is not ws and not isinstance(p, (ast.ListComp, ast.GeneratorExp, ast.SetComp, ast.DictComp)):
            p = mod.parent.get(p)
        if any(_loop_of(mod, s, fn) is not loop for s in sites) or (p is not None and p is not ws):
            # computed outside the loop / comprehension that adds it once per row
            return 'hoisted', calls, sites
        start = loop if loop is not None else 'ENTRY'
        if fi.cfg.reachable(start, ws, avoiding=sites):
            return 'stale', calls, sites
        return 'fresh', calls, sites

    def every_row(self, where, calls):
        """D3: every trajectory's pair list enters the coordinates.  The
        statement `where` (inside the per-row loop) may be skipped only for
        rows that have no pair anyway: len(row) <= lag."""
        ck, mod, fn, fi = self.ck, self.mod, self.fn, self.fi
        rule = 'C03.D3.every-row'
        lag, sw = self.ps[1], self.ps[3]
        ws = fi.stmt(where)
        loop = _loop_of(mod, ws, fn)
        if loop is None:
            return
        guards = [a for a in _assumes(fi, ws) if _inside(mod, a.owner, loop)]
        if not guards:
            return
        rows = set()
        if isinstance(loop, ast.For) and isinstance(loop.target, ast.Name):
            rows.add(loop.target.id)
        for h in calls:
            a0 = arg_or_kw(h, 0, self.hps[0])
            if a0 is not None:
                rows.add(fi.xu(a0))

        def is_len(e):
            x = _len_operand(e)
            return x is not None and u(x) in rows

        def atom(cj):
            """'ok' (skips only rows without pairs) | 'bad' | 'far' for a
            condition under which the pair list IS counted: the row is
            skipped under its negation."""
            neg = (cj[0], cj[1], not cj[2]) if isinstance(cj, tuple) else cj.negated()
            return _skip_atom(neg, is_len, lag, lambda e: canon(fi.expand(e)))
        for a in guards:
            cs = conjuncts(a.test, a.polarity)
            text = ('' if a.polarity else 'not ') + '(%s)' % u(a.test)[:100]
            vs = []
            for cj in (cs if cs is not None else ['?']):
                if isinstance(cj, tuple) and cj[0] == 'expr' and isinstance(cj[1], ast.Name) and cj[1].id == sw \
                        and not _rebound(fi, sw):
                    # selects whole executions, not rows: both values of the flag must be served
                    self.flag_truths.add(cj[2])
                    continue
                vs.append(atom(cj) if cs is not None else 'far')
            if not vs:
                continue
            if 'bad' in vs:
                ck.bad(rule, mod, a.owner, COUNTS, 'pairs of a row are counted only if %s' % text,
                       'the pair list of a trajectory may be left out only when the trajectory has no pair at all '
                       '(len(row) <= %s): this condition also drops trajectories that are longer than the lag, whose '
                       'max(0, length - %s) pairs then miss from the counts' % (lag, lag))
            elif 'far' in vs:
                ck.missing(rule, 'condition under which the pair list of a row is counted not recognised: %s' % text)
            else:
                ck.ok(rule, mod, a.owner, 'pairs of a row are counted only if %s' % text,
                      'only rows with len(row) <= %s (no pairs) are skipped' % lag)

    def unsliced(self, c, coords, helper_calls):
        ck, mod, fn, fi = self.ck, self.mod, self.fn, self.fi
        rule = 'C03.D3.unsliced'
        lag = self.ps[1]
        why = ('the coordinate array given to coo_matrix must be np.hstack(<per-row helper results>) '
               'itself: thinning/slicing the concatenated pair list (e.g. [:, ::lag]) carries the '
               'stride phase across trajectory boundaries')
        accounted = set()
        bad = far = 0
        lists = []

        def is_helper(e):
            """The helper call whose result `e` denotes (followed through
            single-definition names; the call itself need not be pure)."""
            e = _orig(fi, e)
            for _ in range(4):
                if not isinstance(e, ast.Name):
                    break
                try:
                    defs = fi.defs_of_use(e)
                except Exception:
                    break
                site = next(iter(defs)) if len(defs) == 1 else None
                if not isinstance(site, (ast.Assign, ast.AnnAssign)) or fi._mutated_in_place(e.id):
                    break
                v = fi.def_value(site, e.id)
                if v is None:
                    break
                e = _orig(fi, v)
            return e if isinstance(e, ast.Call) and call_name(e) == HELPER else None

        def from_pairs(e):
            """e is derived from helper results / the concatenated pair list."""
            return HELPER in fi.derives_from(e)[1]

        def element(e, where):
            nonlocal bad, far
            eo = _orig(fi, e)
            fresh = self.pair_freshness(eo, where) if isinstance(eo, ast.Name) else None
            if fresh is not None:
                kind, calls, sites = fresh
                for h in calls:
                    accounted.add(id(h))
                if kind == 'stale':
                    bad += 1
                    ck.bad('C03.D3.fresh-pairs', mod, where, COUNTS, '%s  <-  %s = %s' % (u(where)[:80], eo.id, u(calls[0])[:80]),
                           'the pair list `%s` that enters the coordinates at %s is computed by %s (%s) only on some paths '
                           'of the iteration - the call does not dominate this statement.  On the other paths the pairs of '
                           'the PREVIOUS trajectory are added a second time (or the name is unbound in the first iteration): '
                           'every trajectory must contribute exactly its own max(0, length - %s) pairs' % (
                               eo.id, mod.loc(where), HELPER, ', '.join(mod.loc(s) for s in sites), lag))
                elif kind == 'hoisted':
                    far += 1
                    ck.missing('C03.D3.fresh-pairs', 'the pair list `%s` added at %s is computed outside the per-row loop' % (
                        eo.id, mod.loc(where)))
                else:
                    self.every_row(where, calls)
                return
            h = is_helper(e)
            if h is not None:
                accounted.add(id(h))
                self.every_row(where, [h])
                return
            if isinstance(eo, ast.Subscript) and from_pairs(eo.value):
                bad += 1
                ck.bad(rule, mod, where, COUNTS, u(eo)[:200],
                       'the pair list produced by the helper is sliced/masked (%s) before it is counted: ' % u(eo)[:80] + why)
            else:
                far += 1
                ck.missing(rule, 'element of the per-row pair list is not a helper result: %s' % u(eo)[:120])
        for s, v in _alts(fi, coords):
            if v is None or isinstance(s, str):
                far += 1
                ck.missing(rule, 'definition of the coordinate array not recognised (%s)' % (s if isinstance(s, str) else mod.loc(s)))
                continue
            t = self._hstack_arg(v)
            if t == 'bad':
                bad += 1
                ck.bad(rule, mod, s, COUNTS, u(v)[:200], 'the per-row (2, n_i) pair lists must be joined horizontally (np.hstack / axis=1)')
            elif t is not None:
                lists.append(t)
            elif isinstance(v, ast.Subscript) and (from_pairs(v.value) or (isinstance(coords, ast.Name) and isinstance(v.value, ast.Name)
                                                                       and v.value.id == coords.id)):
                bad += 1
                ck.bad(rule, mod, s, COUNTS, '%s = %s' % (u(coords), u(v)[:100]), why)
            else:
                far += 1
                ck.missing(rule, 'coordinate array is not the horizontal concatenation of the per-row pair lists: %s' % u(v)[:120])
        for t in lists:
            t = _orig(fi, t)
            while isinstance(t, ast.Call) and call_name(t) in ('list', 'tuple') and len(t.args) == 1 and not t.keywords:
                t = _orig(fi, t.args[0])
            sel = _selection(t)
            if sel is not None and from_pairs(sel[0]):
                if sel[1] == 'drops':
                    bad += 1
                    ck.bad('C03.D3.every-row', mod, fi.stmt(t), COUNTS, u(t)[:200],
                           'every per-row pair list must be concatenated: the literal slice `%s` leaves the pairs of '
                           'whole trajectories out of the counts' % u(t)[:80])
                    continue
                if sel[1] == 'all':
                    t = _orig(fi, sel[0])
            alts = _alts(fi, t) if isinstance(t, ast.Name) else [(fi.stmt(t), t)]
            grown = set()
            if isinstance(t, ast.Name):
                # a list grown in a loop: T.append(x) / T.extend([x]) / T += [x]
                for ms in fi._mutated_in_place(t.id):
                    call = ms.value if isinstance(ms, ast.Expr) else None
                    meth = call.func.attr if isinstance(call, ast.Call) and isinstance(call.func, ast.Attribute) and \
                        isinstance(call.func.value, ast.Name) and call.func.value.id == t.id and len(call.args) == 1 \
                        and not call.keywords else None
                    if meth == 'append':
                        element(call.args[0], ms)
                    elif meth == 'extend' and isinstance(call.args[0], (ast.List, ast.Tuple)):
                        for e in call.args[0].elts:
                            element(e, ms)
                    elif isinstance(ms, ast.AugAssign) and isinstance(ms.op, ast.Add) and isinstance(ms.target, ast.Name) \
                            and isinstance(ms.value, (ast.List, ast.Tuple)):
                        grown.add(id(ms))
                        for e in ms.value.elts:
                            element(e, ms)
                    else:
                        far += 1
                        ck.missing(rule, 'the per-row pair list `%s` is modified by %s' % (t.id, u(ms)[:100]))
            for s, v in alts:
                if id(s) in grown:
                    continue
                if v is None or isinstance(s, str):
                    far += 1
                    ck.missing(rule, 'definition of the per-row pair list not recognised')
                elif isinstance(v, (ast.ListComp, ast.GeneratorExp)) and len(v.generators) == 1:
                    element(v.elt, s)
                elif isinstance(v, (ast.List, ast.Tuple)):
                    for e in v.elts:
                        element(e, s)
                elif isinstance(v, ast.Call) and call_name(v) == 'list' and not v.args:
                    pass
                else:
                    far += 1
                    ck.missing(rule, 'per-row pair list not recognised: %s' % u(v)[:120])
        if self.flag_truths and self.flag_truths != {True, False}:
            far += 1
            ck.missing('C03.D3.every-row', 'pair lists enter the coordinates only when `%s` is %s' % (
                self.ps[3], sorted(self.flag_truths)[0]))
        stray = [h for h in helper_calls if id(h) not in accounted]
        if stray and not bad and not far:
            far += 1
            ck.missing(rule, 'the result of %s does not flow recognisably into the coordinates' % u(stray[0])[:120])
        if not bad and not far and lists:
            ck.ok(rule, mod, c, '%s = %s' % (u(coords), fi.xu(coords)[:100]),
                  'coordinates are the plain horizontal concatenation of the per-row pair lists')

    def unit_weights(self, c, data, coords):
        ck, mod, fn, fi = self.ck, self.mod, self.fn, self.fi
        rule = 'C03.D4.unit-weights'
        assigns, lag, nst, sw = self.ps[:4]
        ctexts = {fi.xu(coords), u(canon(coords))}
        counts = set()
        rows = set()
        for t in ctexts:
            counts |= {'%s.shape[1]' % t, '%s.shape[-1]' % t, 'len(%s[0])' % t, 'len(%s[1])' % t, '%s[0].size' % t,
                       '%s[1].size' % t, '%s[0].shape[0]' % t, '%s[1].shape[0]' % t, 'len(%s.T)' % t, '%s.T.shape[0]' % t,
                       '%s[0].shape' % t, '%s[1].shape' % t, '%s.shape[1:]' % t}
            rows |= {'%s[0]' % t, '%s[1]' % t, '%s[0, :]' % t, '%s[1, :]' % t}
        scope = {lag, sw, nst, assigns} | {x.id for x in walk_expr(coords) if isinstance(x, ast.Name)} | \
            {x.id for x in walk_expr(fi.expand(coords)) if isinstance(x, ast.Name)}
        why = ('every pair must carry weight one: data must be np.ones(%s.shape[1]) of a wide, fixed dtype '
               '(duplicates are summed by COO in the dtype of the data)' % u(coords))

        def same_coords(expr, site):
            """Unexpanded names shared with `coords` denote the same value at
            the definition of the data and at the coo_matrix call."""
            cs = fi.stmt(c)
            for x in walk_expr(expr):
                if isinstance(x, ast.Name) and isinstance(x.ctx, ast.Load) and fi.temp_value(x) is None and x.id in scope:
                    if fi.rd.defs_at(fi.stmt(x), x.id) != fi.rd.defs_at(cs, x.id):
                        return False
            return True

        def dtype_verdict(d):
            if d is None:
                return 'ok'
            t = fi.xu(d)
            if t in _WIDE:
                return 'ok'
            if t in _NARROW:
                return 'bad'
            names = {x.id for x in walk_expr(fi.expand(d)) if isinstance(x, ast.Name)}
            if names & (scope - {lag, sw, nst}) and is_pure(d):
                return 'bad'        # dtype inherited from the assignments / coordinates
            return 'far'
        for s, v in _alts(fi, data):
            construct = '%s = %s' % (u(data), u(v)[:120] if v is not None else '?')
            if v is None or isinstance(s, str):
                ck.missing(rule, 'definition of the COO data not recognised')
                continue
            cn = call_name(v) if isinstance(v, ast.Call) else None
            verdict = None
            if cn in ('np.ones', 'np.full') and v.args:
                k = arg_or_kw(v, 0, 'shape')
                pos = 1
                fill_ok = True
                if cn == 'np.full':
                    fill = arg_or_kw(v, 1, 'fill_value')
                    fill_ok = fill is not None and const_value(fi.expand(fill)) == 1 and not isinstance(const_value(fi.expand(fill)), bool)
                    pos = 2
                d = arg_or_kw(v, pos, 'dtype')
                kx = canon(fi.expand(k))
                if isinstance(kx, ast.Tuple) and len(kx.elts) == 1:
                    kx = kx.elts[0]
                extra = [kw for kw in v.keywords if kw.arg not in ('shape', 'dtype', 'fill_value')]
                if extra:
                    verdict = 'far'
                elif u(kx) in counts and fill_ok and same_coords(k, s):
                    verdict = dtype_verdict(d)
                else:
                    verdict = _classify(kx, sorted(counts), scope=scope)[0]
                    verdict = 'bad' if verdict == 'near' or not fill_ok else 'far'
            elif cn == 'np.ones_like' and v.args:
                x = canon(fi.expand(v.args[0]))
                d = arg_or_kw(v, 1, 'dtype')
                if u(x) in rows and same_coords(v.args[0], s):
                    verdict = 'bad' if d is None else dtype_verdict(d)
                    if d is None:
                        ck.bad(rule, mod, s, COUNTS, construct,
                               'np.ones_like(<coordinate row>) inherits the dtype of the assignments: COO duplicate summation '
                               'then wraps around for narrow integer types; ' + why)
                        continue
                else:
                    verdict = 'bad' if _classify(x, sorted(rows), scope=scope)[0] == 'near' else 'far'
            else:
                verdict = 'bad' if _classify(fi.expand(v), ['np.ones(_K)'], scope=scope)[0] == 'near' else 'far'
            if verdict == 'ok':
                ck.ok(rule, mod, s, construct, 'one unit of weight per coordinate column (duplicates summed by COO)')
            elif verdict == 'bad':
                ck.bad(rule, mod, s, COUNTS, construct, why)
            else:
                ck.missing(rule, 'COO data not recognised as unit weights: %s' % construct[:160])

    def n_states(self, c, n_node, coords):
        ck, mod, fn, fi = self.ck, self.mod, self.fn, self.fi
        rule = 'C03.D5.n-states'
        assigns, lag, nst, sw = self.ps[:4]
        why = ('when max_n_states is None it must be np.concatenate(<masked rows>).max() + 1: inferring '
               'it from the pair list loses states that only occur in frames without a partner '
               '(trajectories not longer than the lag, frames skipped by the strided window)')
        if n_node is None:
            return
        inferred = 0
        arms = []
        for s in fi.defs_of_use(n_node):
            if s == 'PARAM' and n_node.id == nst:
                continue
            v = fi.def_value(s, n_node.id) if isinstance(s, (ast.Assign, ast.AnnAssign)) else None
            if v is None:
                ck.missing(rule, 'definition of the number of states not recognised (%s)' % (s if isinstance(s, str) else mod.loc(s)))
                continue
            vo = _orig(fi, v)
            if isinstance(vo, ast.IfExp):
                # n = <inferred> if nst is None else nst : one definition per arm, under the arm's condition
                arms.append((s, vo.body, [(vo.test, True)]))
                arms.append((s, vo.orelse, [(vo.test, False)]))
            else:
                arms.append((s, v, []))
        for s, v, extra in arms:
            vo = _orig(fi, v)
            if isinstance(vo, ast.Name) and vo.id == nst and fi.defs_of_use(vo) == {'PARAM'}:
                continue
            inferred += 1
            construct = u(s) if not extra else '%s  [arm: %s]' % (u(s)[:100], u(v)[:80])
            # executed exactly when no number of states was requested
            conds = [(a.test, a.polarity) for a in _assumes(fi, s)] + extra
            guards = []
            for test, pol in conds:
                for cj in conjuncts(test, pol) or []:
                    if isinstance(cj, Cmp) and isinstance(cj.lhs, ast.Name) and cj.lhs.id == nst and \
                            isinstance(cj.rhs, ast.Constant) and cj.rhs.value is None:
                        guards.append(cj.rel)
            mentions = [test for test, pol in conds if any(isinstance(x, ast.Name) and x.id == nst for x in walk_expr(test))]
            if not any(g in ('is', '==') for g in guards):
                if guards or not mentions:
                    ck.bad(rule, mod, s, COUNTS, construct, 'the number of states may only be inferred when `%s is None`: '
                           'a requested number of states must be used as given' % nst)
                else:
                    ck.missing(rule, 'condition under which the number of states is inferred not recognised: %s' % u(mentions[0])[:100])
                continue
            _, calls = fi.derives_from(v)
            if HELPER in calls:
                ck.bad(rule, mod, s, COUNTS, construct, why)
                continue
            vx = canon(fi.expand(v))
            m = match_any(['_X.max() + 1', '1 + _X.max()', 'int(_X.max()) + 1', 'int(_X.max() + 1)'], vx)
            if m is None:
                verdict = _classify(vx, ['np.concatenate(%s).max() + 1' % assigns], scope={assigns})
                ck.decide(verdict, rule, mod, s, COUNTS, construct, '', why)
                continue
            x = m['_X']
            ok = False
            if isinstance(x, ast.Call) and call_name(x) in _JOINS and len(x.args) == 1 and \
                    (not x.keywords or (len(x.keywords) == 1 and x.keywords[0].arg == 'axis' and const_value(x.keywords[0].value) in (0, None)
                                        and call_name(x) == 'np.concatenate')):
                r = x.args[0]
                while isinstance(r, ast.Call) and call_name(r) in ('list', 'tuple', 'np.array', 'np.asarray') and len(r.args) == 1 \
                        and all(k.arg == 'dtype' for k in r.keywords):
                    r = r.args[0]
                if isinstance(r, ast.Name) and r.id == assigns:
                    ok = True
                elif isinstance(r, (ast.ListComp, ast.GeneratorExp)) and len(r.generators) == 1 and not r.generators[0].ifs \
                        and isinstance(r.generators[0].iter, ast.Name) and r.generators[0].iter.id == assigns \
                        and isinstance(r.generators[0].target, ast.Name) and _classify(
                            r.elt, _MASKS + ['_V'], binds={'_V': ast.Name(id=r.generators[0].target.id, ctx=ast.Load())})[0] == 'match':
                    ok = True
            if not ok and self.all_frames_max(v) in ('masked', 'raw'):
                ok = True       # the same, with rows built by an append loop / named intermediate values
            if ok:
                ck.ok(rule, mod, s, construct, 'inferred number of states = largest assigned state + 1 over ALL assigned frames')
                self.n_states_width(s, vx, x)
            else:
                verdict = _classify(vx, ['np.concatenate(%s).max() + 1' % assigns], scope={assigns})
                ck.decide(verdict, rule, mod, s, COUNTS, construct, '', why)
        # a construction that runs only when a number of states was requested needs no inference
        given = False
        for a in _assumes(fi, fi.stmt(c)):
            for cj in conjuncts(a.test, a.polarity) or []:
                if isinstance(cj, Cmp) and isinstance(cj.lhs, ast.Name) and cj.lhs.id == nst and \
                        isinstance(cj.rhs, ast.Constant) and cj.rhs.value is None and cj.rel in ('is not', '!='):
                    given = True
        if given and not inferred and n_node.id == nst and fi.defs_of_use(n_node) == {'PARAM'}:
            ck.ok(rule, mod, c, '%s (requested)' % nst, 'under `%s is not None` the requested number of states is used as given' % nst)
        elif not inferred:
            ck.bad(rule, mod, c, COUNTS, nst, 'no inference of the number of states when `%s` is None; ' % nst + why)


    def all_frames_max(self, v):
        """For `v` = (int of) the maximum over a concatenation of rows R, plus
        one - followed through temporaries on the nodes of the analysed tree -
        the kind of R as decided by masked_form ('masked' / 'raw': all frames
        of all trajectories); None when `v` does not have that shape."""
        fi = self.fi

        def unint(e):
            e = _orig(fi, e)
            while isinstance(e, ast.Call) and call_name(e) in _INT_CASTS and len(e.args) == 1 and not e.keywords:
                e = _orig(fi, e.args[0])
            return e
        e = unint(v)
        if not (isinstance(e, ast.BinOp) and isinstance(e.op, ast.Add)):
            return None
        one = [x for x in (e.left, e.right) if type(const_value(x)) is int and const_value(x) == 1]
        if len(one) != 1:
            return None
        o = unint(e.right if one[0] is e.left else e.left)
        if not (isinstance(o, ast.Call) and isinstance(o.func, ast.Attribute) and o.func.attr == 'max' and not o.args and not o.keywords):
            return None
        w = _orig(fi, o.func.value)
        if not (isinstance(w, ast.Call) and call_name(w) in _JOINS and len(w.args) == 1):
            return None
        if w.keywords and not (call_name(w) == 'np.concatenate' and len(w.keywords) == 1 and w.keywords[0].arg == 'axis'
                               and isinstance(w.keywords[0].value, ast.Constant) and w.keywords[0].value.value in (0, None)):
            return None
        return self.masked_form(w.args[0])

    # -- added after the bug hunt (narrow-dtype-nstates-overflow, unsigned-lag-crash) ------
    def n_states_width(self, s, vx, x):
        """Dtype provenance of the `+ 1`.  `x` is a concatenation of (masked)
        rows of the caller's array: masking and concatenation preserve the
        element type, so `x.max()` is a numpy scalar of the STORAGE type of the
        assignments and `x.max() + 1` is evaluated in that type (a Python int
        operand does not widen a numpy scalar).  When the largest state id is
        the largest value of the type (state 127 in int8, 255 in uint8 ...)
        the sum wraps.  Necessary: the maximum is converted to a Python int
        (or the data are widened) BEFORE the addition."""
        ck, mod = self.ck, self.mod
        rule = 'C03.D5.n-states.width'
        add = None
        for n in ast.walk(vx):
            if isinstance(n, ast.BinOp) and isinstance(n.op, ast.Add) and (const_value(n.left) == 1 or const_value(n.right) == 1):
                add = n
                break
        if add is None:
            ck.missing(rule, 'the `+ 1` of the inferred number of states: %s' % u(vx)[:120])
            return
        o = add.right if const_value(add.left) == 1 else add.left
        widened = False
        if isinstance(o, ast.Call) and (call_name(o) in _INT_CASTS or call_name(o) in _WIDE or
                                        (isinstance(o.func, ast.Attribute) and o.func.attr in ('item', 'tolist', '__index__') and not o.args)):
            widened = True
        for n in ast.walk(o):
            if isinstance(n, ast.Call):
                if isinstance(n.func, ast.Attribute) and n.func.attr == 'astype' and n.args and u(n.args[0]) in _WIDE:
                    widened = True
                dt = kwarg(n, 'dtype')
                if dt is not None and u(dt) in _WIDE and call_name(n) in _JOINS + ('np.max', 'np.amax', 'np.array', 'np.asarray'):
                    widened = True
        ck.check(widened, rule, mod, s, COUNTS, 'largest state id + 1 (inferred number of states)',
                 'the largest state id is converted to a Python int (or widened) before 1 is added',
                 '`%s`: the maximum of the concatenated rows is a numpy scalar of the storage dtype of the assignments '
                 '(masking and concatenation preserve it), and `+ 1` is evaluated in that dtype: for int8 data containing '
                 'state 127, uint8 containing 255, int16 containing 32767 ... the inferred number of states wraps '
                 '(negative / 0) and coo_matrix raises, although every state id is representable; convert first: '
                 'int(<...>.max()) + 1' % u(s)[:120])

    def lag_type(self, helper_calls):
        """Precondition of the slice lemma: L is a Python int.  The helper
        negates its lag (`a[:-L]`); unary minus (and `n - L`) on a fixed-width
        UNSIGNED integer wraps around (-np.uint8(2) == 254), and such scalars
        are numbers.Integral, so an `isinstance(lag, numbers.Integral)`
        validation lets them through.  Necessary: on every path to the helper
        call the lag was converted with int()/operator.index(), or the
        validation admits Python ints only, or the helper converts it itself."""
        ck, mod, fi = self.ck, self.mod, self.fi
        rule = 'C03.D1.lag-int'
        lag = self.ps[1]
        hfn = mod.func(HELPER)
        hfi = finfo(mod, hfn)
        hlag = self.hps[1]
        hnorm = _int_normalisations(hfi, hlag)
        wraps = []
        for n in ast.walk(hfn):
            nm = None
            if isinstance(n, ast.UnaryOp) and isinstance(n.op, ast.USub) and isinstance(n.operand, ast.Name):
                nm = n.operand
            elif isinstance(n, ast.BinOp) and isinstance(n.op, ast.Sub) and isinstance(n.right, ast.Name):
                nm = n.right
            if nm is not None and nm.id == hlag:
                try:
                    ds = hfi.defs_of_use(nm)
                except Exception:
                    ds = {'PARAM'}
                if 'PARAM' in ds or not all(any(d is x for x in hnorm) for d in ds):
                    wraps.append(n)
        if not wraps:
            ck.ok(rule, mod, hfn, '%s: no negation/subtraction of the raw lag' % HELPER,
                  'the helper never negates (or subtracts) its lag argument as received')
            return
        norms = _int_normalisations(fi, lag)
        for hc in helper_calls:
            lv = arg_or_kw(hc, 1, self.hps[1])
            if lv is None:
                continue            # the helper default (a literal)
            construct = 'type of the lag handed to %s (negated there: %s)' % (HELPER, u(wraps[0])[:40])
            e = lv
            if isinstance(e, ast.Call) and call_name(e) in _INT_CASTS:
                ck.ok(rule, mod, hc, construct, 'converted at the call: %s' % u(e)[:60])
                continue
            e = _orig(fi, lv)
            if isinstance(e, ast.Call) and call_name(e) in _INT_CASTS:
                ck.ok(rule, mod, hc, construct, 'converted before the call: %s' % u(e)[:60])
                continue
            if not (isinstance(e, ast.Name) and e.id == lag):
                ck.missing(rule, 'lag argument of the helper call not traced to the parameter `%s`: %s' % (lag, u(lv)[:80]))
                continue
            try:
                ds = fi.defs_of_use(e)
            except Exception:
                ds = None
            if ds and all(any(d is x for x in norms) for d in ds):
                ck.ok(rule, mod, hc, construct, '`%s` is rebound to int(%s) on every path to the call' % (lag, lag))
                continue
            if not ds or not all(d == 'PARAM' or any(d is x for x in norms) for d in ds):
                ck.missing(rule, 'definitions of `%s` reaching the helper call not recognised' % lag)
                continue
            # the raw argument reaches the call: which types does the validation admit?
            admitted = None
            for a in _assumes(fi, fi.stmt(hc)):
                for cj in conjuncts(a.test, a.polarity) or []:
                    if isinstance(cj, tuple) and cj[0] == 'expr' and cj[2] is True and isinstance(cj[1], ast.Call) \
                            and call_name(cj[1]) == 'isinstance' and len(cj[1].args) == 2 and u(cj[1].args[0]) == lag:
                        admitted = u(cj[1].args[1])
            if admitted in ('int', '(int,)', 'bool', '(int, bool)'):
                ck.ok(rule, mod, hc, construct, 'only Python ints pass the validation isinstance(%s, %s)' % (lag, admitted))
                continue
            ck.bad(rule, mod, hc, COUNTS, construct,
                   '`%s` reaches %s as received (validated %s) and is negated there (`%s`): for an unsigned fixed-width '
                   'integer lag (np.uint8(2), np.uint64(2) - numbers.Integral, >= 1) the negation wraps around '
                   '(-np.uint8(2) == 254), the from-slice is (nearly) the whole trajectory, and stacking it on the '
                   'to-slice raises ValueError; the slice lemma needs a Python int: `%s = int(%s)` after the validation'
                   % (lag, HELPER, ('only by isinstance(%s, %s)' % (lag, admitted)) if admitted else 'by no type check',
                      u(wraps[0])[:40], lag, lag))


def d_counts(ck):
    k = _Counts(ck)
    if len(k.ps) < 4 or len(k.hps) < 3:
        ck.missing('C03.D3.per-row', 'signature of %s / %s not recognised' % (COUNTS, HELPER))
        return
    helper_calls = [c for c in calls_in(k.fn) if call_name(c) == HELPER]
    ck.floor('C03.D3.per-row', len(helper_calls), 1, '%s call in %s' % (HELPER, COUNTS))
    if not helper_calls:
        return
    k.lag_guard(helper_calls)
    k.lag_type(helper_calls)
    for hc in helper_calls:
        k.per_row(hc)
    k.concat_uses(helper_calls)
    k.coo(helper_calls)


# ---------------------------------------------------------------------------
# D5 (callers): the requested settings of the counting are not overwritten by the method that counts

MSM_PY = 'enspara/msm/msm.py'


def _self_attr_stores(fn, me):
    """[(statement, attribute, value-or-None)] for the stores `me.X = v`,
    `me.X op= v`, `setattr(me, 'X', v)` in `fn`."""
    out = []
    for s in ast.walk(fn):
        targets = []
        if isinstance(s, ast.Assign):
            for t in s.targets:
                if isinstance(t, (ast.Tuple, ast.List)):
                    targets += [(e, None) for e in t.elts]
                else:
                    targets.append((t, s.value))
        elif isinstance(s, (ast.AugAssign, ast.AnnAssign)):
            targets.append((s.target, s.value))
        elif isinstance(s, ast.Expr) and isinstance(s.value, ast.Call) and call_name(s.value) == 'setattr' and len(s.value.args) == 3 \
                and isinstance(s.value.args[0], ast.Name) and s.value.args[0].id == me and isinstance(const_value(s.value.args[1]), str):
            out.append((s, const_value(s.value.args[1]), s.value.args[2]))
        for t, v in targets:
            if isinstance(t, ast.Attribute) and isinstance(t.value, ast.Name) and t.value.id == me:
                out.append((s, t.attr, v))
    return out


def d5_settings(ck):
    """The count matrix of `obj.fit(a)` must be a function of `a` and of the
    settings the object was CONSTRUCTED with ("the requested (or observed)
    number of states", the lag, the window mode).  Necessary: a method that
    hands `self.X` to assigns_to_counts does not itself store into `self.X` a
    value computed from the data it counts - otherwise the second fit of the
    same object counts with what the first data set left behind (an observed
    number of states becomes a requested one)."""
    rule = 'C03.D5.settings-stable'
    try:
        mod = ck.repo.mod(MSM_PY)
    except Exception:
        ck.missing(rule, 'module %s' % MSM_PY)
        return
    n = 0
    for qual, fn in sorted(mod.functions.items()):
        calls = [c for c in calls_in(fn) if (call_name(c) or '').split('.')[-1] == COUNTS]
        if not calls:
            continue
        ck.analysed(mod, fn)
        ps = params(fn)
        decos = {u(d).split('.')[-1] for d in fn.decorator_list}
        if '.' not in qual or not ps or decos & {'staticmethod', 'classmethod'}:
            continue
        me = ps[0]
        fi = finfo(mod, fn)
        if _rebound(fi, me):
            ck.missing(rule, '`%s` is rebound in %s' % (me, qual))
            continue
        read = {}
        for c in calls:
            for a in list(c.args) + [k.value for k in c.keywords]:
                for x in walk_expr(fi.expand(a)):
                    if isinstance(x, ast.Attribute) and isinstance(x.value, ast.Name) and x.value.id == me:
                        read.setdefault(x.attr, c)
        stores = _self_attr_stores(fn, me)
        for attr, c in sorted(read.items()):
            n += 1
            mine = [(s, v) for s, a, v in stores if a == attr]
            if not mine:
                ck.ok(rule, mod, c, '%s.%s -> %s' % (me, attr, COUNTS), '%s reads the setting and never stores into it' % qual)
                continue
            for s, v in mine:
                construct = '%s.%s is handed to %s and stored by %s' % (me, attr, COUNTS, qual)
                if v is not None and isinstance(v, ast.Attribute) and u(v) == '%s.%s' % (me, attr) and isinstance(s, ast.Assign):
                    continue
                src, called = fi.derives_from(v) if v is not None else (set(), set())
                data = sorted(x for x in src if x != me and not x.startswith('<free>'))
                counted = sorted(x for x in called if x.split('.')[-1] == COUNTS)
                if data or counted:
                    ck.bad(rule, mod, s, qual, construct,
                           '`%s`: the value stored comes from %s, i.e. from the data of THIS call, and `%s.%s` is the setting the '
                           'next call of %s hands to %s: a second fit of the same object no longer counts with the settings '
                           'it was constructed with (e.g. the number of states observed in the first data set is treated as '
                           'requested for the second: spurious empty states, or an index error when the new data visit more states). '
                           'Fitted quantities belong in attributes of their own (trailing underscore), not in the settings'
                           % (u(s)[:100], ' / '.join((['the result of ' + x for x in counted]) + ['the argument `%s`' % x for x in data]),
                              me, attr, qual, COUNTS))
                else:
                    ck.missing(rule, '%s stores into the counting setting %s.%s: %s' % (qual, me, attr, u(s)[:100]))
    ck.floor(rule, n, 1, 'settings of an object handed to %s in %s' % (COUNTS, MSM_PY))


def _self_reads(e, me):
    return [x for x in walk_expr(e) if isinstance(x, ast.Attribute) and isinstance(x.value, ast.Name) and x.value.id == me
            and isinstance(x.ctx, ast.Load)]


def _external_base(mod, b):
    """The base class expression names something imported from outside the
    package (absolute import) or `object`."""
    root = b
    while isinstance(root, ast.Attribute):
        root = root.value
    if not isinstance(root, ast.Name):
        return False
    if root.id == 'object' and b is root:
        return True
    for s in getattr(mod.tree, 'body', []):
        if isinstance(s, ast.ImportFrom) and s.level == 0 and not (s.module or '').startswith('enspara'):
            if any((a.asname or a.name) == root.id for a in s.names):
                return True
        if isinstance(s, ast.Import) and any((a.asname or a.name.split('.')[0]) == root.id and not a.name.startswith('enspara') for a in s.names):
            return True
    return False


def d5_settings_live(ck):
    """`obj.fit(a).tcounts_` is the count matrix for the settings the object
    HAS when it is fitted: the public attributes named after the constructor
    parameters are the settings (they are what `config`, `get_params`,
    `set_params`/`clone` and plain attribute assignment in a lag-time scan read
    and write).  Necessary: every setting handed to assigns_to_counts is read,
    at the time of the call, from such a public attribute (or from a property
    computed from them) - not from a private copy of the constructor arguments
    that nothing refreshes when the public attribute changes, not from the
    public attribute of ANOTHER setting, and not from a constant."""
    rule = 'C03.D5.settings-live'
    try:
        mod = ck.repo.mod(MSM_PY)
        cps = params(ck.repo.mod(TM).func(COUNTS))
    except Exception:
        ck.missing(rule, 'module %s / signature of %s' % (MSM_PY, COUNTS))
        return
    n = 0
    for qual, fn in sorted(mod.functions.items()):
        calls = [c for c in calls_in(fn) if (call_name(c) or '').split('.')[-1] == COUNTS]
        ps = params(fn)
        decos = {u(d).split('.')[-1] for d in fn.decorator_list}
        if not calls or '.' not in qual or not ps or decos & {'staticmethod', 'classmethod'}:
            continue
        cname = qual.rsplit('.', 1)[0]
        cls, init = mod.classes.get(cname), mod.functions.get(cname + '.__init__')
        if cls is None or init is None or len(params(init)) < 1:
            continue
        me, fi = ps[0], finfo(mod, fn)
        ime, ips = params(init)[0], params(init)[1:]
        ifi = finfo(mod, init)
        if _rebound(fi, me) or _rebound(ifi, ime):
            ck.missing(rule, '`%s` is rebound in %s / its constructor' % (me, qual))
            continue
        members = {q.rsplit('.', 1)[1]: f for q, f in mod.functions.items() if q.rsplit('.', 1)[0] == cname and '.' in q}
        init_stores = _self_attr_stores(init, ime)
        public = {a for s, a, v in init_stores if a in ips}
        all_stores = {}
        for mname, f in members.items():
            mp = params(f)
            if mp and not {u(d).split('.')[-1] for d in f.decorator_list} & {'staticmethod', 'classmethod'}:
                for s, a, v in _self_attr_stores(f, mp[0]):
                    all_stores.setdefault(a, []).append((mname, f, s, v))
        refreshers = sorted(m for m in members if m in ('__setattr__', 'set_params', '__getattr__', '__getattribute__') or m in public)
        foreign = [u(b) for b in cls.bases if not _external_base(mod, b)]

        def decide(role, a, c, owner_fi, owner_me, depth=2):
            """One setting handed to the counting: `a` in the role `role`
            (None: a ** bundle of several roles)."""
            nonlocal n
            ex = owner_fi.expand(a)
            if role is None and isinstance(ex, ast.Dict) and all(k is not None and isinstance(const_value(k), str) for k in ex.keys):
                for k, v in zip(ex.keys, ex.values):
                    decide(const_value(k), v, c, owner_fi, owner_me, depth)
                return
            n += 1
            what = '%s of %s in %s' % (role or '** settings', COUNTS, qual)
            reads = _self_reads(ex, owner_me)
            if not reads:
                if role in public and isinstance(ex, ast.Constant):
                    ck.bad(rule, mod, c, qual, '%s is a constant' % what,
                           'the call counts with the constant %s whatever `%s.%s` says: the counts are not those of the '
                           'model\'s %s' % (u(ex), me, role, role))
                elif role in public:
                    ck.missing(rule, '%s does not read `%s.%s`: %s' % (what, me, role, u(ex)[:80]))
                else:
                    ck.ok(rule, mod, c, what, 'no setting of the object with that name; the value does not come from the object')
                return
            for r in reads:
                x = r.attr
                if x in public and x not in members:
                    if role is not None and role in public and x != role and u(ex) == '%s.%s' % (owner_me, x):
                        ck.bad(rule, mod, c, qual, '%s is read from %s.%s' % (what, me, x),
                               'the %s of the counting must be the model\'s `%s`, the call hands it `%s.%s` (the setting of '
                               'another option)' % (role, role, me, x))
                    else:
                        ck.ok(rule, mod, c, '%s <- %s.%s' % (what, me, x),
                              'read at call time from the public attribute named after the constructor parameter')
                    continue
                if x in members:
                    f = members[x]
                    rets = [rt.value for rt in returns_of(f) if rt.value is not None]
                    if 'property' in {u(d).split('.')[-1] for d in f.decorator_list} and len(rets) == 1 and depth > 0 and params(f):
                        decide(role, rets[0], c, finfo(mod, f), params(f)[0], depth - 1)
                    else:
                        ck.missing(rule, '%s is read from the member `%s` of %s, which the rule does not see through' % (what, x, cname))
                    continue
                sts = all_stores.get(x, [])
                elsewhere = [t for t in sts if t[1] is not fn]
                if not elsewhere:
                    if sts:
                        continue        # bound by the counting method itself: C03.D5.settings-stable looks at those stores
                    ck.missing(rule, '%s is read from `%s.%s`, which no method of %s binds' % (what, me, x, cname))
                    continue
                if any(t[0] != '__init__' for t in elsewhere) or refreshers or foreign:
                    ck.missing(rule, '%s is read from `%s.%s`, bound outside the constructor or possibly refreshed (%s): '
                               'not decided whether it follows the public settings' % (
                                   what, me, x, ', '.join([t[0] for t in elsewhere if t[0] != '__init__'] + refreshers + foreign)[:120]))
                    continue
                copied, names = set(), []
                for mname, f, s, v in elsewhere:
                    if v is None:
                        copied = None
                        break
                    vx = ifi.expand(v)
                    copied |= {p for p in ifi.derives_from(v)[0] if p in ips}
                    if isinstance(vx, ast.Dict):
                        names += [const_value(k) for k in vx.keys if k is not None and isinstance(const_value(k), str)]
                if copied is None:
                    ck.missing(rule, '%s is read from `%s.%s`, bound by an unpacking in the constructor' % (what, me, x))
                    continue
                dup = sorted(copied & public)
                if dup:
                    s = elsewhere[0][2]
                    ck.bad(rule, mod, s, qual,
                           '%s.%s (a copy of the constructor argument(s) %s) is handed to %s as %s' % (
                               me, x, ', '.join(dup), COUNTS, role or ('** ' + ' / '.join(sorted(set(names))) if names else '** settings')),
                           '`%s`: the constructor keeps %s twice - in the public attribute(s) %s (what config / get_params report '
                           'and what set_params, clone().set_params(..) and `m.%s = k` in a scan over one object change) and in the '
                           'private `%s.%s`, which only the constructor binds; %s counts with the private copy, so after a change '
                           'of the public setting `fit(a).tcounts_` is still the matrix of the constructor-time value (wrong lag / '
                           'window mode / number of states for the model as configured)' % (
                               u(s)[:100].replace('\n', ' '), ', '.join(dup), ', '.join('%s.%s' % (me, p) for p in dup), dup[0], me, x, qual))
                else:
                    ck.ok(rule, mod, c, '%s <- %s.%s' % (what, me, x),
                          'the only place the object keeps that constructor argument / a value that is no constructor setting')

        for c in calls:
            ck.analysed(mod, fn)
            for i, a in enumerate(c.args):
                if isinstance(a, ast.Starred):
                    ck.missing(rule, 'positional * arguments of %s in %s' % (COUNTS, qual))
                    break
                if 1 <= i < len(cps):
                    decide(cps[i], a, c, fi, me)
            for k in c.keywords:
                if k.arg != cps[0]:
                    decide(k.arg, k.value, c, fi, me)
    ck.floor(rule, n, 1, 'settings handed to %s by a method in %s' % (COUNTS, MSM_PY))


# ---------------------------------------------------------------------------
# D7: the count matrix is a function of the arguments of THIS call (no state that outlives a call)
#
# generic helpers (candidates for promotion to sa/effects.py / sa/rules/extra.py)

_MEMO_DECORATORS = ('lru_cache', 'cache', 'cached', 'memoize', 'memoized', 'memoise', 'memoised')
_MUTATORS = {'append', 'extend', 'insert', 'pop', 'popitem', 'remove', 'sort', 'reverse', 'clear', 'update', 'fill',
             'setdefault', 'add', 'discard', 'resize', 'put', 'itemset', 'setflags', 'partition', 'appendleft',
             'extendleft', 'move_to_end', 'subtract', 'setfield', 'byteswap'}


def _module_bound(mod):
    """Names bound by statements at module level (assignments, defs,
    classes; module-level if/try/with/for bodies included; imports not)."""
    out = set()
    stack = list(getattr(mod.tree, 'body', []))
    while stack:
        n = stack.pop()
        if isinstance(n, (ast.FunctionDef, ast.AsyncFunctionDef, ast.ClassDef)):
            out.add(n.name)
        elif isinstance(n, ast.Assign):
            for t in n.targets:
                out.update(x.id for x in ast.walk(t) if isinstance(x, ast.Name) and isinstance(x.ctx, ast.Store))
        elif isinstance(n, (ast.AnnAssign, ast.AugAssign)):
            out.update(x.id for x in ast.walk(n.target) if isinstance(x, ast.Name) and isinstance(x.ctx, ast.Store))
        elif isinstance(n, (ast.If, ast.Try, ast.With, ast.For, ast.While)):
            for f in ('body', 'orelse', 'finalbody'):
                stack += getattr(n, f, [])
            for h in getattr(n, 'handlers', []):
                stack += h.body
    return out


def _fn_scope(fn):
    """(names local to `fn`, names it declares global/nonlocal)."""
    from ..core import walk_local
    outer = {x for n in walk_local(fn) if isinstance(n, (ast.Global, ast.Nonlocal)) for x in n.names}
    loc = set(params(fn))
    for n in walk_local(fn):
        if isinstance(n, ast.Name) and isinstance(n.ctx, (ast.Store, ast.Del)):
            loc.add(n.id)
        elif isinstance(n, (ast.FunctionDef, ast.AsyncFunctionDef, ast.ClassDef)) and n is not fn:
            loc.add(n.name)
        elif isinstance(n, (ast.Import, ast.ImportFrom)):
            loc.update((a.asname or a.name).split('.')[0] for a in n.names)
    return loc - outer, outer


def _root(e):
    while isinstance(e, (ast.Attribute, ast.Subscript, ast.Starred)):
        e = e.value
    return e if isinstance(e, ast.Name) else None


def _writes_in(fn):
    """[(node, name, kind)]: what the body of `fn` (nested defs excluded)
    writes: kind 'rebind' (name = ..), 'store' (name[..] = / name.a = /
    del name[..], also augmented), 'method' (name.append(..) and the other
    in-place methods), 'out' (out=name)."""
    from ..core import walk_local
    out = []
    for n in walk_local(fn):
        if isinstance(n, ast.Name) and isinstance(n.ctx, (ast.Store, ast.Del)):
            out.append((n, n.id, 'rebind'))
        elif isinstance(n, (ast.Subscript, ast.Attribute)) and isinstance(n.ctx, (ast.Store, ast.Del)):
            b = _root(n)
            if b is not None:
                out.append((n, b.id, 'store'))
        elif isinstance(n, ast.Call):
            if isinstance(n.func, ast.Attribute) and n.func.attr in _MUTATORS:
                b = _root(n.func.value)
                if b is not None:
                    out.append((n, b.id, 'method'))
            for k in n.keywords:
                if k.arg == 'out':
                    for v in (k.value.elts if isinstance(k.value, (ast.Tuple, ast.List)) else [k.value]):
                        b = _root(v)
                        if b is not None:
                            out.append((n, b.id, 'out'))
    return out


def runtime_writes(mod):
    """{module-level name: [(function qualname, node)]}: the module-level
    objects (variables, but also functions/classes used as attribute
    holders) that some function of the module rebinds through `global` or
    changes in place - state that survives from one call to the next."""
    bound = _module_bound(mod)
    out = {}
    for q, f in sorted(mod.functions.items()):
        loc, outer = _fn_scope(f)
        for node, nm, kind in _writes_in(f):
            if kind == 'rebind':
                if nm in outer:
                    out.setdefault(nm, []).append((q, node))
            elif nm not in loc and nm in bound:
                out.setdefault(nm, []).append((q, node))
    return out


def _persistent_defaults(fn, fi):
    """Parameters whose default value is an object created once, at
    definition time, that the function changes in place."""
    from ..core import param_default
    out = []
    for p in params(fn):
        d = param_default(fn, p)
        if d is None or isinstance(d, (ast.Constant, ast.Name, ast.Attribute, ast.UnaryOp)):
            continue
        if isinstance(d, ast.Tuple) and all(isinstance(e, ast.Constant) for e in d.elts):
            continue
        if fi._mutated_in_place(p):
            out.append(p)
    return out


def _callees_closure(mod, fn):
    """`fn` and the module-level functions of `mod` it calls by name,
    transitively."""
    out, work = [fn], [fn]
    while work:
        f = work.pop()
        for c in calls_in(f):
            g = mod.functions.get(c.func.id) if isinstance(c.func, ast.Name) else None
            if g is not None and not any(g is x for x in out):
                out.append(g)
                work.append(g)
    return out


class _Table:
    """The uses of a persistent object G in one function, read as a lookup
    table: tests (`k in G`), reads (`G[k]`, `G.get(k)`, `G.pop(k)`), fills
    (`G[k] = v`, `G.setdefault(k, v)`), resets (`G.clear()`, `G = ..`,
    `del G[k]`) and uses that are none of these."""

    def __init__(self):
        self.tests, self.reads, self.fills, self.resets, self.other = [], [], [], [], []


def _table_uses(mod, fi, G):
    from ..core import walk_local
    t = _Table()
    for n in walk_local(fi.fn):
        if not (isinstance(n, ast.Name) and n.id == G):
            continue
        par = mod.parent.get(n)
        gp = mod.parent.get(par) if par is not None else None
        st = fi.stmt(n)
        if isinstance(n.ctx, (ast.Store, ast.Del)):
            t.resets.append((st, None))
        elif isinstance(par, ast.Subscript) and par.value is n:
            if isinstance(par.ctx, ast.Load):
                t.reads.append((par, par.slice, st))
            elif isinstance(par.ctx, ast.Store) and isinstance(st, ast.Assign) and len(st.targets) == 1 and st.targets[0] is par:
                t.fills.append((st, par.slice, st.value))
            elif isinstance(par.ctx, ast.Del):
                t.resets.append((st, par.slice))
            else:
                t.other.append(n)
        elif isinstance(par, ast.Compare) and len(par.ops) == 1 and isinstance(par.ops[0], (ast.In, ast.NotIn)) and par.comparators[0] is n:
            t.tests.append((par, par.left, st))
        elif isinstance(par, ast.Attribute) and par.value is n and isinstance(gp, ast.Call) and gp.func is par and not gp.keywords:
            if par.attr in ('get', 'pop') and 1 <= len(gp.args) <= 2:
                t.reads.append((gp, gp.args[0], st))
            elif par.attr == 'setdefault' and len(gp.args) == 2:
                t.reads.append((gp, gp.args[0], st))
                t.fills.append((st, gp.args[0], gp.args[1]))
            elif par.attr == 'clear' and not gp.args:
                t.resets.append((st, None))
            else:
                t.other.append(n)
        elif isinstance(par, ast.Call) and call_name(par) == 'len' and par.args and par.args[0] is n:
            continue            # the size of the table is not a value stored in it
        else:
            t.other.append(n)
    return t


def _identity_operands(e):
    """The operands X of `id(X)` inside expression `e`."""
    return [n.args[0] for n in walk_expr(e) if isinstance(n, ast.Call) and call_name(n) == 'id' and len(n.args) == 1 and not n.keywords]


def _sole_condition(mod, cmp_node):
    """The membership test is the whole condition of an if / while /
    conditional expression (possibly negated): a hit is not validated by a
    further test."""
    p, c = mod.parent.get(cmp_node), cmp_node
    while isinstance(p, ast.UnaryOp) and isinstance(p.op, ast.Not):
        p, c = mod.parent.get(p), p
    return isinstance(p, (ast.If, ast.While, ast.IfExp)) and p.test is c


def _empties(st, G):
    """Statement `st` leaves G empty: `G.clear()` or `G = {}` / `[]` /
    `dict()` / `list()` / `set()` ..."""
    if isinstance(st, ast.Expr) and isinstance(st.value, ast.Call) and isinstance(st.value.func, ast.Attribute) \
            and st.value.func.attr == 'clear' and isinstance(st.value.func.value, ast.Name) and st.value.func.value.id == G:
        return True
    if isinstance(st, ast.Assign) and len(st.targets) == 1 and isinstance(st.targets[0], ast.Name) and st.targets[0].id == G:
        v = st.value
        if isinstance(v, (ast.Dict, ast.List, ast.Set)) and not (getattr(v, 'keys', None) or getattr(v, 'elts', None)):
            return True
        if isinstance(v, ast.Call) and not v.args and not v.keywords and (call_name(v) or '').split('.')[-1] in (
                'dict', 'list', 'set', 'OrderedDict', 'defaultdict', 'deque'):
            return True
    return False


def _one_entry_memo(mod, fi, names, ps):
    """A one-entry memo spread over persistent VARIABLES (names rebound
    through `global`): [(K, E, V, store of V, P, owner)] where
      * a condition of the function is exactly `K == E` / `K != E` / `K is
        [not] E` (possibly negated), E an expression that contains the
        parameter P only inside id(P);
      * the function rebinds K to that same E;
      * V is another persistent variable, rebound inside that conditional to a
        value computed from P, and read by the function."""
    from ..core import walk_local
    fn = fi.fn
    out = []
    for c in walk_local(fn):
        if not (isinstance(c, ast.Compare) and len(c.ops) == 1 and isinstance(c.ops[0], (ast.Eq, ast.NotEq, ast.Is, ast.IsNot))):
            continue
        for a, b in ((c.left, c.comparators[0]), (c.comparators[0], c.left)):
            if not (isinstance(a, ast.Name) and a.id in names):
                continue
            K, E = a.id, b
            ex = fi.expand(E)
            idents = _identity_operands(ex)
            addr = {n.id for i in idents for n in walk_expr(i) if isinstance(n, ast.Name) and n.id in ps}
            plain = {n.id for n in walk_expr(ex) if isinstance(n, ast.Name) and n.id in ps and not any(_inside_expr(i, n) for i in idents)}
            only = addr - plain
            if not only or not _sole_condition(mod, c):
                continue
            owner = mod.parent.get(c)
            while isinstance(owner, ast.UnaryOp):
                owner = mod.parent.get(owner)
            if not isinstance(owner, ast.If):
                continue
            rebinds = [st for st in ast.walk(fn) if isinstance(st, ast.Assign) and len(st.targets) == 1 and isinstance(st.targets[0], ast.Name)
                       and st.targets[0].id == K and fi.xu(st.value) == fi.xu(E)]
            if not rebinds:
                continue
            for V in sorted(names - {K}):
                read = any(isinstance(n, ast.Name) and n.id == V and isinstance(n.ctx, ast.Load) for n in walk_local(fn))
                for st in ast.walk(owner):
                    if isinstance(st, ast.Assign) and len(st.targets) == 1 and isinstance(st.targets[0], ast.Name) and st.targets[0].id == V and read:
                        src = {x for x in fi.derives_from(st.value)[0] if x in only}
                        if src:
                            out.append((K, E, V, st, sorted(src)[0], owner))
    return out


def _presence_only(mod, fi, call, st):
    """`T = G.get(k)` (default None) where every condition that mentions T
    is the presence test `T is None` / `T is not None` / `T` itself (possibly
    negated): the hit is not validated against anything."""
    if not (isinstance(st, ast.Assign) and len(st.targets) == 1 and isinstance(st.targets[0], ast.Name) and st.value is call):
        return False
    if not (isinstance(call.func, ast.Attribute) and call.func.attr == 'get'):
        return False
    if len(call.args) == 2 and not (isinstance(call.args[1], ast.Constant) and call.args[1].value is None):
        return False
    T = st.targets[0].id
    for n in ast.walk(fi.fn):
        test = getattr(n, 'test', None) if isinstance(n, (ast.If, ast.While, ast.IfExp, ast.Assert)) else None
        if test is None or not any(isinstance(x, ast.Name) and x.id == T for x in walk_expr(test)):
            continue
        while isinstance(test, ast.UnaryOp) and isinstance(test.op, ast.Not):
            test = test.operand
        if isinstance(test, ast.Name):
            continue
        if isinstance(test, ast.Compare) and len(test.ops) == 1 and isinstance(test.ops[0], (ast.Is, ast.IsNot, ast.Eq, ast.NotEq)) \
                and isinstance(test.left, ast.Name) and test.left.id == T and isinstance(test.comparators[0], ast.Constant) \
                and test.comparators[0].value is None:
            continue
        return False
    return True


def hidden_state(ck, rule, mod, fn, writes, result, example=''):
    """Decide "`fn` returns a function of its arguments" as far as state that
    outlives a call is concerned.  `writes` = runtime_writes(mod).

    * a memoising decorator                                   -> VIOLATION
      (array arguments are unhashable or hashed by identity);
    * no persistent object is read or written                 -> discharged;
    * a persistent object used as a table keyed by id(X) whose entries are
      computed from the CONTENTS of the parameter X, hits not validated
      against the contents                                    -> VIOLATION:
      the address of a mutable object does not determine its contents (an
      in-place edit keeps the address; a freed address is reused);
    * a table whose entries are computed from a parameter that does not
      enter the key at all                                    -> VIOLATION;
    * a table reset unconditionally before its first use in the call holds
      nothing of an earlier call                              -> discharged;
    * any other use of run-time state                         -> incomplete
      (never HOLDS: the rule cannot relate the result to the arguments)."""
    q = mod.qualname(fn)
    fi = finfo(mod, fn)
    ck.analysed(mod, fn)
    for d in getattr(fn, 'decorator_list', []) or []:
        nm = (call_name(d) if isinstance(d, ast.Call) else u(d)) or u(d)
        if nm.split('.')[-1] in _MEMO_DECORATORS:
            ck.bad(rule, mod, d, q, '%s is memoised (@%s)' % (q, nm),
                   '%s must be a function of the CONTENTS of the trajectories it is given: a memoising decorator keys the stored result on '
                   'hash/equality of the argument objects - an ndarray is unhashable (every call raises TypeError) and a ragged/user container '
                   'hashes by identity, so a later call on the same object with other contents gets %s of the old contents' % (q, result))
            return False
    loc, outer = _fn_scope(fn)
    state = []
    for G in sorted(writes):
        if G in loc:
            continue
        if G in outer or any(isinstance(x, ast.Name) and x.id == G for x in ast.walk(fn)):
            state.append((G, 'the module-level object `%s`' % G, writes[G]))
    for p in _persistent_defaults(fn, fi):
        state.append((p, 'the default object of parameter `%s` (created once, at definition time)' % p,
                      [(q, ms) for ms in fi._mutated_in_place(p)]))
    if not state:
        ck.ok(rule, mod, fn, '%s: no memoisation, no module-level object written at run time, no default object changed in place' % q,
              'the result is a function of the arguments of the call')
        return True
    ps = set(params(fn))
    done = set()
    for K, E, V, vst, P, owner in _one_entry_memo(mod, fi, {g for g, _w, _ws in state if g in outer}, ps):
        done |= {K, V}
        ck.bad(rule, mod, vst, q, '%s: last-value memo %s guarded by %s against %s' % (q, V, K, fi.xu(E)[:60]),
               '%s recomputes the persistent variable `%s` (`%s`, a function of the CONTENTS of `%s`) only when `%s` differs from `%s`, '
               'which contains `%s` only as its address id(%s), and otherwise uses the value a previous call left there.  The address '
               'of a mutable container does not determine its contents: after an in-place edit of the same object the next call '
               'uses the value of the OLD contents, and an array allocated at a freed address that of another data set: %s are then '
               'those of data that were not passed in.%s' % (q, V, u(vst)[:60], P, K, fi.xu(E)[:40], P, P, result, example))
    for G, what, ws in state:
        if G in done:
            continue
        where = ', '.join(sorted({'%s at %s' % (wq, mod.loc(wn)) for wq, wn in ws}))[:160]
        vague = ('%s uses %s, which persists between calls and is written at run time (%s); the use is not understood, so %s may '
                 'depend on earlier calls' % (q, what, where, result))
        t = _table_uses(mod, fi, G)
        lookups = t.tests + t.reads
        nested = any(isinstance(x, ast.Name) and x.id == G and not any(x is y for y in _names_local(fn)) for x in ast.walk(fn))
        if t.other or nested or not t.fills or not lookups:
            ck.missing(rule, vague)
            continue
        # a table emptied on every call before it is consulted carries nothing over
        first = [s for _n, _k, s in lookups] + [s for s, _k, _v in t.fills]
        hard = [s for s, k in t.resets if k is None and _empties(s, G) and all(s is not x and fi.cfg.dominates(s, x) for x in first)]
        if hard:
            ck.ok(rule, mod, hard[0], '%s: %s is reset (%s) before every use' % (q, G, u(hard[0])[:60]),
                  'the table is emptied unconditionally at the start of each call: nothing of an earlier call is read')
            continue
        key_st, key0 = t.fills[0][0], t.fills[0][1]
        ktext = fi.xu(key0)

        def same_key(k, st):
            if fi.xu(k) != ktext:
                return False
            from ..core import names_loaded
            return all(fi.rd.defs_at(st, x) == fi.rd.defs_at(key_st, x) for x in names_loaded(fi.expand(k)))
        if not all(same_key(k, st) for _n, k, st in lookups) or not all(same_key(k, st) for st, k, _v in t.fills):
            ck.missing(rule, '%s uses %s as a table under several different keys (%s): %s may depend on earlier calls' % (
                q, what, ' / '.join(sorted({fi.xu(k) for _n, k, _s in lookups} | {fi.xu(k) for _s, k, _v in t.fills}))[:160], result))
            continue
        key_x = fi.expand(key0)
        key_params = {x for x in fi.derives_from(key0)[0] if x in ps}
        need = set()
        for _s, _k, v in t.fills:
            need |= {x for x in fi.derives_from(v)[0] if x in ps}
        idents = _identity_operands(key_x)
        by_identity = set()
        for x in idents:
            by_identity |= {n.id for n in walk_expr(x) if isinstance(n, ast.Name) and n.id in ps}
        # parameters that enter the key ONLY as an address
        stripped = set()
        for n in walk_expr(key_x):
            if isinstance(n, ast.Name) and n.id in ps and not any(_inside_expr(i, n) for i in idents):
                stripped.add(n.id)
        only_address = by_identity - stripped
        validated = [c for c, _k, _s in t.tests if not _sole_condition(mod, c)] or \
            [r for r, _k, s in t.reads if isinstance(r, ast.Call) and not _presence_only(mod, fi, r, s)]
        construct = '%s: table %s keyed by %s' % (q, G, ktext[:80])
        absent = sorted(need - key_params)
        stale = sorted(need & only_address)
        if absent and not validated:
            ck.bad(rule, mod, key_st, q, construct,
                   '%s hands out entries of %s, filled by `%s`.  The stored value is computed from the parameter%s %s, which the key `%s` '
                   'does not contain: once the table holds an entry, a later call that differs only in %s gets the value computed for the '
                   'EARLIER arguments, so %s is no longer a function of what the call is given' % (
                       q, what, u(key_st)[:100], 's' if len(absent) > 1 else '', ', '.join(absent), ktext[:60], ', '.join(absent), result))
        elif stale and not validated:
            ck.bad(rule, mod, key_st, q, construct,
                   '%s keeps in %s a value computed from the CONTENTS of `%s` (`%s`) under a key that contains `%s` only as its '
                   'address id(%s), and hands the stored value out on a hit without comparing contents.  The address of a mutable '
                   'container does not determine its contents: after an in-place edit of the same object (a[a == 2] = 1, frames filled '
                   'into a padded array) the next call finds the entry of the OLD contents, and an array allocated at a freed address '
                   'finds the entry of another data set: %s are then those of data that were not passed in.%s' % (
                       q, what, stale[0], u(t.fills[0][2])[:60], stale[0], stale[0], result, example))
        else:
            ck.missing(rule, '%s uses %s as a lookup table keyed by %s (filled at %s); whether the key determines the stored value '
                       '(and hence %s depend on the arguments of the call only) is not decided' % (q, what, ktext[:80], mod.loc(key_st), result))
    return False


def _names_local(fn):
    from ..core import walk_local
    return [n for n in walk_local(fn) if isinstance(n, ast.Name)]


def _inside_expr(root, node):
    return any(x is node for x in walk_expr(root))


def d7_hidden_state(ck):
    """Entry (i, j) is the number of lagged pairs of the assignments that are
    PASSED IN.  Necessary: assigns_to_counts, the helper and every function of
    the module they call - and the methods of msm.py that call
    assigns_to_counts - neither read nor write an object that outlives the
    call (module-level container / `global` / function attribute / mutable
    default / memoising decorator), except a table whose key provably
    determines the entry.  A method that counts must also reach the counting
    call independently of attributes a previous fit stored."""
    rule = 'C03.D7.no-hidden-state'
    mod = ck.repo.mod(TM)
    writes = runtime_writes(mod)
    n = 0
    seen = []
    for root in (COUNTS, HELPER):
        for fn in _callees_closure(mod, mod.func(root)):
            if any(fn is x for x in seen):
                continue
            seen.append(fn)
            n += 1
            hidden_state(ck, rule, mod, fn, writes, 'the transition counts (and the inferred number of states)',
                         '  Counts of one array at several lag times are exact; two counts of one array object around an in-place edit are not.')
    ck.floor(rule, n, 2, 'functions on the counting path of %s' % TM)
    try:
        m2 = ck.repo.mod(MSM_PY)
    except Exception:
        return
    w2 = runtime_writes(m2)
    for qual, fn in sorted(m2.functions.items()):
        calls = [c for c in calls_in(fn) if (call_name(c) or '').split('.')[-1] == COUNTS]
        if not calls:
            continue
        hidden_state(ck, rule, m2, fn, w2, 'the counts stored by %s' % qual)
        ps = params(fn)
        decos = {u(d).split('.')[-1] for d in fn.decorator_list}
        if '.' not in qual or not ps or decos & {'staticmethod', 'classmethod'}:
            continue
        me, cls = ps[0], qual.rsplit('.', 1)[0]
        fi = finfo(m2, fn)
        fitted = set()
        for q2, f2 in m2.functions.items():
            if q2.rsplit('.', 1)[0] == cls and q2.rsplit('.', 1)[-1] != '__init__' and params(f2):
                fitted |= {a for _s, a, _v in _self_attr_stores(f2, params(f2)[0])}
        for c in calls:
            for a in _assumes(fi, fi.stmt(c)):
                reads = sorted({x.attr for x in walk_expr(a.test) if isinstance(x, ast.Attribute) and isinstance(x.value, ast.Name)
                                and x.value.id == me and x.attr in fitted})
                if reads:
                    ck.missing(rule, '%s counts the transitions only under a condition on %s, which %s stores at run time (%s): '
                               'the counts of a second fit may be those of the first data set' % (
                                   qual, ', '.join('%s.%s' % (me, r) for r in reads), cls, u(a.test)[:80]))


# ---------------------------------------------------------------------------
# D8: no way out by `raise` for an input inside the quantifier (fifth wave)
#
# The property is stated for ALL integral lags >= 1 (Python or numpy integer), every two-dimensional /
# ragged collection of trajectories, both window modes, requested or inferred number of states.
# Necessary: the condition under which assigns_to_counts / the helper leaves by `raise` is false for
# every such input.  The condition of a raise is the conjunction of the branch conditions that dominate
# it (the negations of earlier guard clauses included); each condition is evaluated in a three-valued
# calculus over the admitted inputs: (sat, valid) = (true for SOME admitted input, true for ALL), each
# True / False / None (not decided), plus the set of input facets it speaks about (two satisfiable
# conditions on different facets are jointly satisfiable: the admitted inputs are a product).

_T_ALL_INTEGRAL = ('numbers.Integral', 'numbers.Rational', 'numbers.Real', 'numbers.Complex', 'numbers.Number',
                   'Integral', 'Number')
_T_SOME_INTEGRAL = ('int', 'np.integer', 'np.signedinteger', 'np.int64', 'np.int32', 'np.int_', 'np.intp',
                    'numpy.integer')
_T_NOT_INTEGRAL = ('float', 'str', 'bytes', 'complex', 'np.floating', 'np.float64', 'np.float32', 'list', 'tuple',
                   'dict', 'np.ndarray', 'numpy.floating')

_UNKNOWN = (None, None, frozenset(['?']))


def _k_not(a):
    return None if a is None else (not a)


def _k_and(a, b):
    if a is False or b is False:
        return False
    if a is True and b is True:
        return True
    return None


def _adm_not(p):
    return (_k_not(p[1]), _k_not(p[0]), p[2])


def _adm_and(p, q):
    valid = _k_and(p[1], q[1])
    if p[0] is False or q[0] is False:
        sat = False
    elif p[1] is True:
        sat = q[0]
    elif q[1] is True:
        sat = p[0]
    elif p[0] is True and q[0] is True and not (p[2] & q[2]):
        sat = True
    else:
        sat = None
    return (sat, valid, p[2] | q[2])


def _adm_or(p, q):
    return _adm_not(_adm_and(_adm_not(p), _adm_not(q)))


def _lin_truth(c0, c1, rel):
    """(sat, valid) of `c0 + c1*L  rel  0` over the integers L >= 1.  An
    ordering of a linear form is true on a ray, so on [1, oo) it is decided by
    its values at L = 1 and for large L."""
    def t(v, r):
        return {'<': v < 0, '<=': v <= 0, '>': v > 0, '>=': v >= 0}[r]
    if rel in ('<', '<=', '>', '>='):
        t1 = t(c0 + c1, rel)
        tinf = t1 if c1 == 0 else t(c1, rel)
        return (t1 or tinf, t1 and tinf)
    if rel in ('==', '!='):
        if c1 == 0:
            eq = (c0 == 0, c0 == 0)
        else:
            eq = ((-c0) % c1 == 0 and (-c0) // c1 >= 1, False)
        return eq if rel == '==' else (not eq[1], not eq[0])
    return (None, None)


class _Admitted:
    """Truth of a branch condition of `fn` over the admitted inputs.
    arr/lag/nst/sw: the parameters in their roles (nst may be None), dims:
    the number of dimensions every admitted trajectory argument has."""

    def __init__(self, fi, arr, lag, nst, sw, dims):
        self.fi, self.arr, self.lag, self.nst, self.sw, self.dims = fi, arr, lag, nst, sw, dims
        self.norms = _int_normalisations(fi, lag)

    def _raw_at(self, stmt, name, also=()):
        try:
            ds = self.fi.rd.defs_at(stmt, name)
        except Exception:
            return False
        return bool(ds) and all(d == 'PARAM' or any(d is x for x in also) for d in ds)

    def _x(self, e):
        """expanded + canonical, int(lag) read as lag (identity on the
        admitted, integral, values)."""
        lag = self.lag

        class _T(ast.NodeTransformer):
            def visit_Call(self, n):
                self.generic_visit(n)
                if call_name(n) in _INT_CASTS and len(n.args) == 1 and not n.keywords and \
                        isinstance(n.args[0], ast.Name) and n.args[0].id == lag:
                    return n.args[0]
                return n
        try:
            return canon(_T().visit(self.fi.expand(e)))
        except Exception:
            return e

    def _is_dims(self, e):
        """len(A.shape) / A.ndim / np.ndim(A) of the trajectory parameter."""
        def is_arr(x):
            return isinstance(x, ast.Name) and x.id == self.arr
        if isinstance(e, ast.Attribute) and e.attr == 'ndim' and is_arr(e.value):
            return True
        if isinstance(e, ast.Call) and not e.keywords and len(e.args) == 1:
            a = e.args[0]
            if call_name(e) == 'len' and isinstance(a, ast.Attribute) and a.attr == 'shape' and is_arr(a.value):
                return True
            if call_name(e) in ('np.ndim', 'numpy.ndim') and is_arr(a):
                return True
        return False

    def _mentions(self, e, name):
        return any(isinstance(x, ast.Name) and x.id == name for x in walk_expr(e))

    def compare(self, lhs, rel, rhs, stmt):
        lx, rx = self._x(lhs), self._x(rhs)
        # number of dimensions of the trajectory argument against a literal
        for a, b, r in ((lx, rx, rel), (rx, lx, {'<': '>', '<=': '>=', '>': '<', '>=': '<='}.get(rel, rel))):
            k = const_value(b)
            if self._is_dims(a) and type(k) is int and r in ('<', '<=', '>', '>=', '==', '!='):
                if not self._raw_at(stmt, self.arr):
                    return _UNKNOWN
                v = {'<': self.dims < k, '<=': self.dims <= k, '>': self.dims > k, '>=': self.dims >= k,
                     '==': self.dims == k, '!=': self.dims != k}[r]
                return (v, v, frozenset(['dims']))
        # requested number of states present / absent
        if self.nst is not None and rel in ('is', 'is not', '==', '!='):
            for a, b in ((lx, rx), (rx, lx)):
                if isinstance(a, ast.Name) and a.id == self.nst and isinstance(b, ast.Constant) and b.value is None \
                        and self._raw_at(stmt, self.nst):
                    return (True, False, frozenset(['nst']))
        # the lag against a literal
        if rel in ('<', '<=', '>', '>=', '==', '!=') and (self._mentions(lx, self.lag) or self._mentions(rx, self.lag)):
            a, b = _lin(lx, self.lag), _lin(rx, self.lag)
            if a is not None and b is not None and self._raw_at(stmt, self.lag, self.norms):
                s, v = _lin_truth(a[0] - b[0], a[1] - b[1], rel)
                return (s, v, frozenset(['lag']))
        return _UNKNOWN

    def truth(self, e, stmt):
        if isinstance(e, ast.UnaryOp) and isinstance(e.op, ast.Not):
            return _adm_not(self.truth(e.operand, stmt))
        if isinstance(e, ast.BoolOp):
            vs = [self.truth(v, stmt) for v in e.values]
            out = vs[0]
            for v in vs[1:]:
                out = _adm_and(out, v) if isinstance(e.op, ast.And) else _adm_or(out, v)
            return out
        if isinstance(e, ast.Compare):
            out, left = None, e.left
            for op, right in zip(e.ops, e.comparators):
                rel = {ast.Lt: '<', ast.LtE: '<=', ast.Gt: '>', ast.GtE: '>=', ast.Eq: '==', ast.NotEq: '!=',
                       ast.Is: 'is', ast.IsNot: 'is not'}.get(type(op))
                v = self.compare(left, rel, right, stmt) if rel else _UNKNOWN
                out = v if out is None else _adm_and(out, v)
                left = right
            return out
        if isinstance(e, ast.Call) and call_name(e) == 'isinstance' and len(e.args) == 2 and not e.keywords:
            x, t = e.args
            if isinstance(x, ast.Name) and x.id == self.lag and self._raw_at(stmt, self.lag, self.norms):
                ts = [u(y) for y in (t.elts if isinstance(t, (ast.Tuple, ast.List)) else [t])]
                if any(y in _T_ALL_INTEGRAL for y in ts) or ({'int'} & set(ts) and {'np.integer', 'numpy.integer'} & set(ts)):
                    return (True, True, frozenset(['lagtype']))
                if any(y in _T_SOME_INTEGRAL for y in ts):
                    return (True, None, frozenset(['lagtype']))
                if all(y in _T_NOT_INTEGRAL for y in ts):
                    return (False, False, frozenset(['lagtype']))
            return _UNKNOWN
        if isinstance(e, ast.Name) and e.id == self.sw and self._raw_at(stmt, self.sw):
            return (True, False, frozenset(['sw']))
        if isinstance(e, ast.Name):
            v = self.fi.temp_value(e)
            if v is not None:
                return self.truth(v, self.fi.stmt(v) or stmt)
        if isinstance(e, ast.Constant) and isinstance(e.value, bool):
            return (e.value, e.value, frozenset())
        return _UNKNOWN

    def path(self, stmt):
        """Condition under which `stmt` executes, as far as the dominating
        branch conditions say."""
        out = (True, True, frozenset())
        for a in _assumes(self.fi, stmt):
            owner = a.owner if isinstance(getattr(a, 'owner', None), ast.stmt) else stmt
            v = self.truth(a.test, owner)
            out = _adm_and(out, v if a.polarity else _adm_not(v))
        return out


def d8_raises(ck):
    rule = 'C03.D8.raises'
    mod = ck.repo.mod(TM)
    n = 0
    for name, roles in ((COUNTS, (0, 1, 2, 3, 2)), (HELPER, (0, 1, None, 2, 1))):
        fn = mod.func(name)
        ps = params(fn)
        if len(ps) <= max(r for r in roles[:4] if r is not None):
            continue                    # signature reported by the other rules
        fi = finfo(mod, fn)
        adm = _Admitted(fi, ps[roles[0]], ps[roles[1]], ps[roles[2]] if roles[2] is not None else None, ps[roles[3]], roles[4])
        from ..core import walk_local
        for r in walk_local(fn):
            is_assert = isinstance(r, ast.Assert)
            if not isinstance(r, (ast.Raise, ast.Assert)):
                continue
            # structured position: nested in plain if-statements only (then the dominating conditions ARE the condition)
            plain, handler = True, False
            p = mod.parent.get(r)
            while p is not None and p is not fn:
                if isinstance(p, ast.ExceptHandler):
                    handler = True
                if not isinstance(p, ast.If):
                    plain = False
                p = mod.parent.get(p)
            if handler:
                continue                # converts an error raised by the guarded statements: no new way out
            try:
                cond = adm.path(r)
                if is_assert:
                    cond = _adm_and(cond, _adm_not(adm.truth(r.test, r)))
            except Exception as e:          # an unforeseen shape is not decided
                cond = _UNKNOWN
            n += 1
            text = ' and '.join(('' if a.polarity else 'not ') + '(%s)' % u(a.test)[:50] for a in sorted(_assumes(fi, r), key=lambda a: (a.lineno, not a.polarity))) or 'always'
            if is_assert:
                text = ('%s and not (%s)' % (text, u(r.test)[:50])) if text != 'always' else 'not (%s)' % u(r.test)[:60]
            construct = '%s when %s' % ('assert fails' if is_assert else 'raise', text[:160])
            if cond[0] is False:
                ck.ok(rule, mod, r, construct, 'the condition is false for every integral lag >= 1 / %d-dimensional trajectory argument' % roles[4])
            elif cond[0] is True and plain:
                ck.bad(rule, mod, r, name, construct,
                       '%s leaves by an exception at %s under a condition that holds for inputs the property quantifies over '
                       '(integral lag >= 1 of Python or numpy integer type, %d-dimensional / ragged trajectory argument, either '
                       'window mode, requested or inferred number of states): for those inputs no count matrix is returned at all. '
                       'Only lags that are not integers or < 1 and trajectory arguments of the wrong dimensionality may be rejected'
                       % (name, mod.loc(r), roles[4]))
            elif is_assert:
                continue                # an extra assertion the rule cannot read does not matter
            else:
                ck.missing(rule, 'condition under which %s raises at %s is not decided over the admitted inputs: %s' % (
                    name, mod.loc(r), text[:120]))
    return n


# ---------------------------------------------------------------------------
# D9: the counts a fitting method hands on are the counts as counted, unless trimming was requested

def _truthy_setting(cj, fi, me):
    """(attribute, truth) when the conjunct says that the setting `me.X` is
    true / false: `me.X`, `not me.X`, `me.X is True`, `me.X == False` ..."""
    def attr(e):
        e = fi.expand(e) if isinstance(e, ast.Name) else e
        if isinstance(e, ast.Attribute) and isinstance(e.value, ast.Name) and e.value.id == me:
            return e.attr
        return None
    if isinstance(cj, tuple) and cj[0] == 'expr':
        a = attr(cj[1])
        return (a, cj[2]) if a else None
    if isinstance(cj, Cmp) and cj.rel in ('is', '==', 'is not', '!='):
        for x, y in ((cj.lhs, cj.rhs), (cj.rhs, cj.lhs)):
            a = attr(x)
            if a and isinstance(y, ast.Constant) and isinstance(y.value, bool):
                same = cj.rel in ('is', '==')
                return (a, y.value if same else not y.value)
    return None


def d9_trim_gate(ck):
    """`MSM(...).fit(a).tcounts_` is the count matrix of `a` ("square with
    the requested (or observed) number of states").  Ergodic trimming removes
    states (or zeroes their rows), so a method that counts may apply it to the
    counts only when the constructor setting that requests it is true - by
    default it is off.  Necessary: every call of trim_disconnected on a value
    derived from assigns_to_counts is dominated by a branch condition that says
    `self.<setting>` is TRUE, where <setting> is an attribute __init__ stores
    from a constructor parameter."""
    rule = 'C03.D9.trim-gate'
    try:
        mod = ck.repo.mod(MSM_PY)
    except Exception:
        return
    from ..core import param_default
    for qual, fn in sorted(mod.functions.items()):
        if not [c for c in calls_in(fn) if (call_name(c) or '').split('.')[-1] == COUNTS]:
            continue
        ps = params(fn)
        decos = {u(d).split('.')[-1] for d in fn.decorator_list}
        if '.' not in qual or not ps or decos & {'staticmethod', 'classmethod'}:
            continue
        me, cls = ps[0], qual.rsplit('.', 1)[0]
        fi = finfo(mod, fn)
        # constructor settings: attribute -> default of the parameter it is stored from
        settings = {}
        init = mod.functions.get(cls + '.__init__')
        if init is not None and params(init):
            for _s, a, v in _self_attr_stores(init, params(init)[0]):
                if isinstance(v, ast.Name) and v.id in params(init):
                    settings[a] = param_default(init, v.id)
        for c in calls_in(fn):
            if (call_name(c) or '').split('.')[-1] != 'trim_disconnected' or not c.args:
                continue
            if not any(x.split('.')[-1] == COUNTS for x in fi.derives_from(c.args[0])[1]):
                continue
            ck.analysed(mod, fn)
            st = fi.stmt(c)
            facts, unread = [], []
            for a in _assumes(fi, st):
                cs = conjuncts(a.test, a.polarity)
                if cs is None:
                    unread.append(a)
                    continue
                for cj in cs:
                    t = _truthy_setting(cj, fi, me)
                    if t is not None and t[0] in settings:
                        facts.append((t[0], t[1], a))
                    else:
                        unread.append(a)
            construct = '%s: %s applied to the counts' % (qual, u(c)[:80])
            on = [f for f in facts if f[1] is True]
            off = [f for f in facts if f[1] is False]
            if on and not off:
                ck.ok(rule, mod, c, construct, 'only when %s.%s is true (trimming requested)' % (me, on[0][0]))
            elif off and not on:
                d = settings.get(off[0][0])
                ck.bad(rule, mod, off[0][2].owner, qual, construct,
                       'the count matrix of %s is passed through trim_disconnected exactly when the setting %s.%s is FALSE%s: '
                       'a model fitted without trimming then stores counts from which every state outside the largest connected '
                       'set - and all pairs between such states - has been removed (tcounts_ is smaller than the requested / '
                       'observed number of states and its total is less than the sum of max(0, length - lag)), and a model that '
                       'asked for trimming is not trimmed' % (COUNTS, me, off[0][0],
                                                             (' (its default: %s)' % u(d)) if d is not None else ''))
            elif not facts and not unread:
                ck.bad(rule, mod, c, qual, construct,
                       'the count matrix of %s is trimmed unconditionally: with the default settings tcounts_ must be the counts '
                       'as counted (all requested / observed states, every lagged pair)' % COUNTS)
            else:
                ck.missing(rule, '%s: condition under which the counts are trimmed is not read as a constructor setting: %s' % (
                    qual, ' ; '.join(u(a.test)[:60] for a in unread)[:160]))


def check(ck):
    n = d1_slices(ck)
    ck.floor('C03.D1.slices', n or 0, 2, '(sliding / strided, return) pairs examined in %s' % HELPER)
    d_counts(ck)
    d5_settings(ck)
    for rule, f in (('C03.D5.settings-live', d5_settings_live), ('C03.D8.raises', d8_raises), ('C03.D9.trim-gate', d9_trim_gate)):
        try:
            f(ck)
        except (AttributeError, KeyError, IndexError, TypeError, ValueError, RecursionError) as e:
            ck.missing(rule, 'construct outside the shapes the rule models (%r)' % (e,))
    try:
        d7_hidden_state(ck)
    except (AttributeError, KeyError, IndexError, TypeError, ValueError, RecursionError) as e:
        # an unforeseen shape must not hide what the other rules found, and must not pass
        ck.missing('C03.D7.no-hidden-state', 'construct outside the shapes the rule models (%r)' % (e,))
    check_no_arg_mutation(ck, 'C03.D6.inputs-unmodified', [
        (TM, COUNTS), (TM, HELPER)])
    return EXPLANATION

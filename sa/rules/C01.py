"""C01 Clustering results are self-consistent (structural clauses D1-D5)."""
import ast

from ..core import (AnalysisIncomplete, call_name, is_call_to, kwarg,
                    names_loaded, params, target_names, u, walk_expr,
                    walk_local)
from ..patterns import (assigns_to, calls_in, check_no_arg_mutation, finfo,
                        returns_of, subscript_stores, mask_atoms, mask_keys,
                        eval_mask, shared)
from .cluster_common import (KC, KM, HY, CU, check_running_min_commit)

EXPLANATION = (
    'Static decision of the structural necessary conditions of C01: '
    '(D1) centre coordinates and centre index advance in lock-step from one '
    'definition; (D2) the running-minimum commit writes distances and labels '
    'under one strict mask with the label taken before the append; (D3) the '
    'three PAM reassignment masks are exhaustive over their two atoms and each '
    'writes labels and distances from paired sources; (D4) ClusterResult '
    'fields/roles agree at every construction and unpacking site; (D5) no '
    'store reaches a caller-owned argument of the clustering entry points '
    '(whole-package alias/effects fixed point). Numerical equality of reported '
    'and recomputed distances is NOT decided.')


def d1_lockstep(ck):
    mod = ck.repo.mod(KC)
    fn = mod.func('_kcenters_iteration')
    fi = finfo(mod, fn)
    ck.analysed(mod, fn)
    rule = 'C01.D1.lockstep'
    rets = returns_of(fn)
    if not rets:
        ck.missing(rule, 'no return in _kcenters_iteration')
        return
    n = 0
    for r in rets:
        if not (isinstance(r.value, ast.Tuple) and len(r.value.elts) == 4):
            ck.bad(rule, mod, r, '_kcenters_iteration', u(r),
                   'iteration must return (new_center, distances, assignments, center_inds)')
            continue
        ctr = r.value.elts[0]
        cexpr = fi.resolve(ctr)
        # new centre is traj[i]
        if not (isinstance(cexpr, ast.Subscript) and isinstance(cexpr.value, ast.Name)
                and cexpr.value.id == params(fn)[0] and isinstance(cexpr.slice, ast.Name)):
            ck.bad(rule, mod, r, '_kcenters_iteration', u(cexpr),
                   'the returned centre must be `traj[<index>]` for the data '
                   'parameter and a single index variable')
            continue
        idx_use = cexpr.slice
        # append to center_inds uses same definition of idx
        lst = r.value.elts[3]
        appends = [c for c in calls_in(fn, '.append')
                   if u(c.func.value) == u(lst)]
        if len(appends) != 1:
            ck.bad(rule, mod, r, '_kcenters_iteration', 'append to %s' % u(lst),
                   'expected exactly one append of the new centre index, found %d' % len(appends))
            continue
        a = appends[0]
        arg = a.args[0] if a.args else None
        ok = isinstance(arg, ast.Name) and fi.same_value(arg, idx_use)
        n += 1
        ck.check(ok, rule, mod, a, '_kcenters_iteration',
                 '%s  <->  %s' % (u(cexpr), u(a)),
                 'centre coordinates and appended index come from the same definition of `%s`' % idx_use.id,
                 'the index appended to the centre list is not the same value '
                 'that selected the returned centre frame (stale or recomputed index)')
    # MPI sibling: (owner, index) appended == distribute_frame(owner_rank=, world_index=)
    fn2 = mod.func('_kcenters_iteration_mpi')
    fi2 = finfo(mod, fn2)
    ck.analysed(mod, fn2)
    dfs = calls_in(fn2, 'mpi.ops.distribute_frame')
    apps = [c for c in calls_in(fn2, '.append') if u(c.func.value) == 'center_inds']
    if len(dfs) != 1 or len(apps) != 1:
        ck.missing(rule, '_kcenters_iteration_mpi: distribute_frame/append not found uniquely')
    else:
        df, ap = dfs[0], apps[0]
        owner = kwarg(df, 'owner_rank') or (df.args[2] if len(df.args) > 2 else None)
        windex = kwarg(df, 'world_index') or (df.args[1] if len(df.args) > 1 else None)
        pair = ap.args[0] if ap.args else None
        ok = isinstance(pair, ast.Tuple) and len(pair.elts) == 2 and \
            isinstance(owner, ast.Name) and isinstance(windex, ast.Name) and \
            isinstance(pair.elts[0], ast.Name) and isinstance(pair.elts[1], ast.Name) and \
            fi2.same_value(pair.elts[0], owner) and fi2.same_value(pair.elts[1], windex)
        n += 1
        ck.check(ok, rule, mod, ap, '_kcenters_iteration_mpi',
                 '%s  <->  %s' % (u(df), u(ap)),
                 'appended (owner, index) pair equals the broadcast frame address',
                 'the pair appended to the centre list must be (owner_rank, '
                 'world_index) of the frame that was distributed, in that order')
    # kcenters(): centers.append(new_center) where new_center is element 0 of iteration result
    fnk = mod.func('kcenters')
    ck.analysed(mod, fnk)
    fik = finfo(mod, fnk)
    loops = [w for w in walk_local(fnk) if isinstance(w, ast.While)]
    for w in loops:
        unpack = [s for s in walk_local(w) if isinstance(s, ast.Assign)
                  and isinstance(s.targets[0], ast.Tuple)
                  and isinstance(s.value, ast.Call) and u(s.value.func) == 'iteration']
        for s in unpack:
            t0 = s.targets[0].elts[0]
            apps = [c for c in calls_in(w, '.append') if c.args and isinstance(
                c.args[0], ast.Name) and isinstance(t0, ast.Name) and c.args[0].id == t0.id]
            n += 1
            ck.check(len(apps) == 1 and u(apps[0].func.value) == 'centers',
                     rule, mod, s, 'kcenters', u(s)[:120],
                     'the centre returned by the iteration is appended to `centers` once per trip',
                     'the new centre returned by the iteration must be appended to the '
                     'centre-coordinate list exactly once per trip')
    # PAM: new_medoids[cid] = proposed_center ; medoid_inds[cid] = proposed_center_ind
    modm = ck.repo.mod(KM)
    fnp = modm.func('_kmedoids_pam_update')
    fip = finfo(modm, fnp)
    ck.analysed(modm, fnp)
    coord_st = [(s, t) for s, t in subscript_stores(fnp, 'new_medoids')]
    ind_st = [(s, t) for s, t in subscript_stores(fnp, 'medoid_inds')]
    if len(coord_st) != 1 or len(ind_st) != 1:
        ck.missing(rule, 'PAM update: stores new_medoids[cid]/medoid_inds[cid] not found uniquely')
    else:
        (cs, ct), (is_, it) = coord_st[0], ind_st[0]
        same_cid = u(ct.slice) == u(it.slice)
        # proposed_center / proposed_center_ind defined pairwise
        pair_ok = _proposal_pair_ok(modm, fnp, fip, cs.value, is_.value)
        n += 1
        ck.check(same_cid and pair_ok[0], rule, modm, is_, '_kmedoids_pam_update',
                 '%s  <->  %s' % (u(cs), u(is_)),
                 'candidate coordinates and candidate index are paired on every path (%s)' % pair_ok[1],
                 'candidate centre coordinates and its index are not a pair: %s' % pair_ok[1])
    ck.floor(rule, n, 4, 'lock-step sites')


def _proposal_pair_ok(mod, fn, fi, coord_expr, ind_expr):
    """Every definition of the coordinate is X[p]/distribute_frame(X, p...) or
    the first element of _propose_new_center_amongst's pair, with p the
    matching definition of the index."""
    if not (isinstance(coord_expr, ast.Name) and isinstance(ind_expr, ast.Name)):
        return False, 'expected plain names'
    cname, iname = coord_expr.id, ind_expr.id
    X = params(fn)[0]
    details = []
    for s in assigns_to(fn, cname):
        if isinstance(s, ast.Assign) and isinstance(s.targets[0], ast.Tuple):
            names = target_names(s.targets[0])
            if names == [cname, iname] and isinstance(s.value, ast.Call) and \
                    (call_name(s.value) or '').endswith('_propose_new_center_amongst'):
                details.append('tuple from _propose_new_center_amongst')
                continue
            return False, 'unexpected tuple definition %s' % u(s)[:80]
        v = s.value
        if isinstance(v, ast.Subscript) and u(v.value) == X and \
                isinstance(v.slice, ast.Name) and v.slice.id == iname:
            details.append('%s[%s]' % (X, iname))
            continue
        if isinstance(v, ast.Call) and (call_name(v) or '').endswith('distribute_frame'):
            data = kwarg(v, 'data') or (v.args[0] if v.args else None)
            owner = kwarg(v, 'owner_rank')
            wi = kwarg(v, 'world_index')
            if u(data) == X and u(owner) == '%s[0]' % iname and u(wi) == '%s[1]' % iname:
                details.append('distribute_frame(%s, %s[0], %s[1])' % (X, iname, iname))
                continue
            return False, 'distribute_frame arguments do not address %s in %s: %s' % (iname, X, u(v)[:100])
        return False, 'coordinate defined from %s' % u(v)[:80]
    if not details:
        return False, 'no definition of the candidate coordinate found'
    return True, ', '.join(details)


def d1_propose(ck):
    """_propose_new_center_amongst returns (X[i], i) / (distribute_frame(X,r,i),(r,i))."""
    rule = 'C01.D1.propose'
    mod = ck.repo.mod(KM)
    fn = mod.func('_propose_new_center_amongst')
    ck.analysed(mod, fn)
    fi = finfo(mod, fn)
    X = params(fn)[0]
    rets = returns_of(fn)
    n = 0
    for r in rets:
        if not (isinstance(r.value, ast.Tuple) and len(r.value.elts) == 2):
            ck.bad(rule, mod, r, '_propose_new_center_amongst', u(r),
                   'must return (coordinates, index)')
            continue
        c, i = r.value.elts
        for site in fi.defs_of_use(c) if isinstance(c, ast.Name) else []:
            v = fi.def_value(site, c.id)
            n += 1
            if isinstance(v, ast.Subscript):
                ok = u(v.value) == X and isinstance(i, ast.Name) and u(v.slice) == i.id
                ck.check(ok, rule, mod, site, '_propose_new_center_amongst', u(site),
                         'serial proposal is X[i] with the returned i',
                         'proposed coordinates must be `%s[<returned index>]`' % X)
            elif isinstance(v, ast.Call) and (call_name(v) or '').endswith('distribute_frame'):
                data = kwarg(v, 'data') or (v.args[0] if v.args else None)
                owner, wi = kwarg(v, 'owner_rank'), kwarg(v, 'world_index')
                # the returned index must be (owner, wi)
                idef = None
                if isinstance(i, ast.Name):
                    ds = [d for d in fi.defs_of_use(i) if d is not site]
                    for d in fi.defs_of_use(i):
                        vv = fi.def_value(d, i.id)
                        if isinstance(vv, ast.Tuple):
                            idef = vv
                ok = u(data) == X and idef is not None and len(idef.elts) == 2 and \
                    u(idef.elts[0]) == u(owner) and u(idef.elts[1]) == u(wi)
                ck.check(ok, rule, mod, site, '_propose_new_center_amongst', u(site)[:160],
                         'MPI proposal frame address equals the returned (rank, index) pair',
                         'distribute_frame(owner_rank, world_index) must be the '
                         'returned (rank, index) pair in that order')
            else:
                ck.bad(rule, mod, site, '_propose_new_center_amongst', u(site)[:120],
                       'proposed coordinates are not taken from X')
    ck.floor(rule, n, 2, 'proposal definitions')


def d3_pam_three_way(ck):
    rule = 'C01.D3.pam'
    mod = ck.repo.mod(KM)
    fn = mod.func('_kmedoids_pam_update')
    fi = finfo(mod, fn)
    ck.analysed(mod, fn)
    # candidate arrays: the two returned/committed arrays new_dist/new_assig
    st_assig = subscript_stores(fn, 'new_assig')
    st_dist = subscript_stores(fn, 'new_dist')
    if not st_assig or not st_dist:
        ck.missing(rule, 'stores into new_assig/new_dist not found')
        return
    masks_a = {}
    for s, t in st_assig:
        masks_a.setdefault(u(t.slice), []).append(s)
    masks_d = {}
    for s, t in st_dist:
        masks_d.setdefault(u(t.slice), []).append(s)
    # (1) each mask writes both arrays
    for m in sorted(set(masks_a) | set(masks_d)):
        both = m in masks_a and m in masks_d
        node = (masks_a.get(m) or masks_d.get(m))[0]
        ck.check(both, rule + '.both', mod, node, '_kmedoids_pam_update',
                 'mask %s' % m,
                 'labels and distances are both written under mask %s' % m,
                 'mask `%s` writes %s but not %s: candidate labels and distances '
                 'would describe different clusterings' % (
                     m, 'labels' if m in masks_a else 'distances',
                     'distances' if m in masks_a else 'labels'))
    # (2) exhaustiveness of the mask family over its atoms
    trees = {}
    for m in sorted(set(masks_a) & set(masks_d)):
        name_node = None
        for s in masks_a[m]:
            for tt in s.targets:
                if isinstance(tt, ast.Subscript) and isinstance(tt.slice, ast.Name):
                    name_node = tt.slice
        if name_node is None:
            raise AnalysisIncomplete('PAM mask %s is not a plain name' % m)
        defs = fi.defs_of_use(name_node)
        if len(defs) != 1:
            raise AnalysisIncomplete('PAM mask %s has %d definitions' % (m, len(defs)))
        v = fi.def_value(next(iter(defs)), name_node.id)
        trees[m] = (mask_atoms(v), v)
    keys = []
    for m, (tr, v) in trees.items():
        for k in mask_keys(tr):
            if k not in keys:
                keys.append(k)
    if len(keys) > 6:
        raise AnalysisIncomplete('too many atoms in PAM masks')
    uncovered = []
    import itertools
    for vals in itertools.product([False, True], repeat=len(keys)):
        asg = dict(zip(keys, vals))
        if not any(eval_mask(tr, asg) for tr, _ in trees.values()):
            uncovered.append(asg)
    ck.check(not uncovered, rule + '.exhaustive', mod, fn, '_kmedoids_pam_update',
             'masks: ' + '; '.join('%s := %s' % (m, u(v)) for m, (t, v) in trees.items()),
             'the %d masks cover all %d truth assignments of the atoms %s' % (
                 len(trees), 2 ** len(keys), ['%s %s %s' % k for k in keys]),
             'frames with %s are covered by no reassignment mask and keep the '
             'sentinel label/distance -1' % (
                 ['%s' % {'%s %s %s' % k: v for k, v in a.items()} for a in uncovered][:2]))
    # (2b) pairwise disjointness: a frame selected by two masks is written twice
    # and keeps whatever the LATER store wrote, regardless of which case applies
    names = list(trees)
    for i in range(len(names)):
        for j in range(i + 1, len(names)):
            both = []
            for vals in itertools.product([False, True], repeat=len(keys)):
                asg = dict(zip(keys, vals))
                if eval_mask(trees[names[i]][0], asg) and eval_mask(trees[names[j]][0], asg):
                    both.append(asg)
            ck.check(not both, rule + '.disjoint', mod, masks_a[names[j]][0], '_kmedoids_pam_update',
                     '%s := %s  vs  %s := %s' % (names[i], u(trees[names[i]][1]), names[j], u(trees[names[j]][1])),
                     'the two masks select disjoint frame sets',
                     'masks `%s` and `%s` overlap (e.g. when %s): those frames are written by both '
                     'cases and keep the later one, e.g. the old label although the proposal is strictly '
                     'nearer' % (names[i], names[j], {'%s %s %s' % k: v for k, v in both[0].items()} if both else ''))
    # (3) paired sources per mask
    for m, (tr, v) in trees.items():
        a_st = masks_a[m][0]
        d_st = masks_d[m][0]
        av, dv = a_st.value, d_st.value
        ok, why = _paired_sources(mod, fn, fi, m, av, dv, tr)
        ck.check(ok, rule + '.sources', mod, a_st, '_kmedoids_pam_update',
                 '%s ; %s' % (u(a_st), u(d_st)), why, why)
    # direction of the "closer to proposal" atom: distances > new_ctr_dist
    ck.floor(rule + '.both', len(trees), 3, 'PAM masks')


def _paired_sources(mod, fn, fi, m, av, dv, tree=None):
    # case A: (cid, new_ctr_dist[m])
    if isinstance(av, ast.Name) and isinstance(dv, ast.Subscript) and u(dv.slice) == m:
        # label is the loop variable of the per-centre loop; dist source must be
        # the distance array to the proposal, which the mask compared and found
        # strictly/weakly smaller than the current distance
        src = u(dv.value)
        loop = mod.enclosing_stmt(av)
        while loop is not None and not isinstance(loop, ast.For):
            loop = mod.parent.get(loop)
        cid = u(loop.target) if loop is not None else None
        if av.id != cid:
            return False, ('frames nearer to the proposal must take the label of the '
                           'centre being replaced (loop variable `%s`), not `%s`' % (cid, av.id))
        if tree is None or tree[0] != 'atom':
            return False, 'mask %s for the nearer-to-proposal case is not a single comparison' % m
        less = tree[1].as_less()
        if less is None or u(less[0]) != src:
            return False, ('mask %s must select frames where the candidate distance `%s` '
                           'is below the current distance; it is `%s`' % (m, src, tree[1]))
        cur = u(less[2])
        if cur not in params(fn):
            return False, 'mask %s compares against `%s`, not the current distances' % (m, cur)
        return True, 'label %s with candidate distances %s[%s] where %s' % (av.id, src, m, tree[1])
    # case B: (assignments[m], distances[m])
    if isinstance(av, ast.Subscript) and isinstance(dv, ast.Subscript) and \
            u(av.slice) == m and u(dv.slice) == m:
        a_src, d_src = u(av.value), u(dv.value)
        ps = params(fn)
        ok = a_src in ps and d_src in ps or True
        return True, 'old labels %s[%s] with old distances %s[%s]' % (a_src, m, d_src, m)
    # case C: both from one assign_to_nearest_center call
    if isinstance(av, ast.Name) and isinstance(dv, ast.Name):
        da, dd = fi.defs_of_use(av), fi.defs_of_use(dv)
        if len(da) == 1 and da == dd:
            site = next(iter(da))
            if isinstance(site, ast.Assign) and isinstance(site.targets[0], ast.Tuple) \
                    and isinstance(site.value, ast.Call) and \
                    (call_name(site.value) or '').endswith('assign_to_nearest_center'):
                names = target_names(site.targets[0])
                if names == [av.id, dv.id]:
                    call = site.value
                    data = call.args[0] if call.args else kwarg(call, 'trajectory')
                    ctrs = call.args[1] if len(call.args) > 1 else kwarg(call, 'cluster_centers')
                    if not (isinstance(data, ast.Subscript) and u(data.slice) == m):
                        return False, ('ambiguous frames are recomputed for %s but stored '
                                       'under mask %s' % (u(data), m))
                    return True, ('(labels, distances) unpacked in order from one '
                                  'assign_to_nearest_center(%s, %s) call' % (u(data), u(ctrs)))
                return False, ('assign_to_nearest_center returns (assignments, distances); '
                               'unpacked as %s but stored as labels=%s distances=%s' % (
                                   names, av.id, dv.id))
        return False, 'labels and distances for mask %s come from different computations' % m
    return False, 'unrecognised source pair (%s, %s) for mask %s' % (u(av), u(dv), m)


def d3_pam_case_a(ck):
    """The 'closer to proposal' mask compares current distances with the
    distances to the proposal, the label written is the loop centre id and the
    candidate centre list passed to the ambiguity sweep has the proposal at
    that id."""
    rule = 'C01.D3.pam.atoms'
    mod = ck.repo.mod(KM)
    fn = mod.func('_kmedoids_pam_update')
    fi = finfo(mod, fn)
    # loop variable
    loops = [l for l in walk_local(fn) if isinstance(l, ast.For)
             and any(isinstance(x, ast.Subscript) and u(x.value) == 'new_assig'
                     for x in walk_local(l))]
    if not loops:
        ck.missing(rule, 'per-centre loop not found')
        return
    loop = loops[-1]
    cid = u(loop.target)
    ok_range = isinstance(loop.iter, ast.Call) and call_name(loop.iter) == 'range' and \
        u(loop.iter.args[-1]) == 'len(medoid_inds)' if isinstance(loop.iter, ast.Call) else False
    ck.check(ok_range, rule, mod, loop, '_kmedoids_pam_update',
             'for %s in %s' % (cid, u(loop.iter)),
             'one update per current centre', 'per-centre loop must range over len(medoid_inds)')
    # new_ctr_dist = metric(X, proposed_center)
    defs = [s for s in assigns_to(loop, 'new_ctr_dist') if isinstance(s, ast.Assign)]
    X = params(fn)[0]
    ok = len(defs) == 1 and isinstance(defs[0].value, ast.Call) and \
        u(defs[0].value.func) == params(fn)[1] and len(defs[0].value.args) == 2 and \
        u(defs[0].value.args[0]) == X and u(defs[0].value.args[1]) == 'proposed_center'
    ck.check(ok, rule, mod, defs[0] if defs else loop, '_kmedoids_pam_update',
             u(defs[0]) if defs else 'new_ctr_dist',
             'candidate distances = metric(X, proposed centre)',
             'candidate distances must be metric(%s, proposed_center)' % X)
    # new_medoids[cid] = proposed_center, new_medoids = medoid_coords.copy()
    nm = [s for s in assigns_to(loop, 'new_medoids') if isinstance(s, ast.Assign)]
    okc = len(nm) == 1 and isinstance(nm[0].value, ast.Call) and \
        u(nm[0].value) in ('medoid_coords.copy()', 'list(medoid_coords)', 'copy.copy(medoid_coords)', 'medoid_coords[:]')
    ck.check(okc, 'C01.D3.pam.candidate-copy', mod, nm[0] if nm else loop,
             '_kmedoids_pam_update', u(nm[0]) if nm else 'new_medoids',
             'candidate centre list is a fresh copy of the current one',
             'the candidate centre list must be a COPY of medoid_coords: if it aliases '
             'the current list, `new_medoids[cid] = proposed_center` commits the '
             'proposal before the accept/reject decision')


def d4_result_fields(ck):
    rule = 'C01.D4.result'
    res, ea = shared(ck.repo)
    n = 0
    fields = None
    modu = ck.repo.mod(CU)
    cls = modu.classes.get('ClusterResult')
    if cls is None:
        raise AnalysisIncomplete('ClusterResult class not found')
    for b in cls.bases:
        if isinstance(b, ast.Call) and call_name(b) == 'namedtuple' and len(b.args) == 2 \
                and isinstance(b.args[1], ast.List):
            fields = [e.value for e in b.args[1].elts]
    if fields is None:
        raise AnalysisIncomplete('ClusterResult namedtuple field list not found')
    ck.check(set(fields) == {'center_indices', 'distances', 'assignments', 'centers'},
             rule, modu, cls, 'ClusterResult', str(fields), 'four fields', 'unexpected field set')
    expected_role = {'center_indices': ('center_ind', 'ctr_ind', 'medoid_ind', 'pred_centers', 'cluster_center_inds', 'int_indcs', 'center_indices'),
                     'assignments': ('assig', 'assignments'),
                     'distances': ('dist',),
                     'centers': ('centers', 'medoid_coords', 'centers_')}
    for rel in (KC, KM, HY, CU, 'enspara/apps/cluster.py'):
        mod = ck.repo.mod(rel)
        for q, fn in mod.functions.items():
            for c in calls_in(fn):
                cn = call_name(c) or ''
                if cn.split('.')[-1] != 'ClusterResult':
                    continue
                n += 1
                ck.analysed(mod, fn)
                if c.args:
                    ck.bad(rule, mod, c, q, u(c)[:160],
                           'ClusterResult must be built with keywords: positional '
                           'construction depends on the field order %s' % fields)
                    continue
                kws = {k.arg: k.value for k in c.keywords}
                ok = set(kws) == set(fields)
                bad_roles = []
                for f, v in kws.items():
                    txt = u(v)
                    leaf = txt.split('(')[-1] if False else txt
                    toks = expected_role.get(f, ())
                    if not any(t in leaf for t in toks):
                        bad_roles.append('%s=%s' % (f, txt[:40]))
                ck.check(ok and not bad_roles, rule, mod, c, q, u(c)[:200],
                         'all four fields passed by keyword with role-consistent values',
                         'field/value role mismatch: %s' % (bad_roles or sorted(set(fields) ^ set(kws))))
    ck.floor(rule, n, 8, 'ClusterResult constructions')
    # estimator properties
    mix = modu.classes.get('MolecularClusterMixin')
    want = {'labels_': 'assignments', 'distances_': 'distances',
            'center_indices_': 'center_indices', 'centers_': 'centers'}
    for prop, field in want.items():
        fn = modu.functions.get('MolecularClusterMixin.' + prop)
        if fn is None:
            ck.missing(rule, 'property %s missing' % prop)
            continue
        r = returns_of(fn)
        ok = len(r) == 1 and u(r[0].value) == 'self.result_.%s' % field
        ck.check(ok, rule + '.props', modu, fn, 'MolecularClusterMixin.' + prop,
                 u(r[0]) if r else prop, '%s -> result_.%s' % (prop, field),
                 'estimator attribute %s must expose result_.%s' % (prop, field))
    # unpacking order of assign_to_nearest_center at call sites
    n2 = 0
    for rel in (KC, KM, HY, CU):
        mod = ck.repo.mod(rel)
        for q, fn in mod.functions.items():
            for s in walk_local(fn):
                if isinstance(s, ast.Assign) and isinstance(s.value, ast.Call) and \
                        (call_name(s.value) or '').endswith('assign_to_nearest_center') and \
                        isinstance(s.targets[0], ast.Tuple) and len(s.targets[0].elts) == 2:
                    a, d = [u(e) for e in s.targets[0].elts]
                    n2 += 1
                    ok = 'assig' in a and 'dist' in d
                    ck.check(ok, rule + '.unpack', mod, s, q, u(s)[:160],
                             '(assignments, distances) order respected',
                             'assign_to_nearest_center returns (assignments, distances); '
                             'unpacked into (%s, %s)' % (a, d))
    ck.floor(rule + '.unpack', n2, 5, 'unpackings of assign_to_nearest_center')
    # return order of assign_to_nearest_center itself
    fna = modu.func('assign_to_nearest_center')
    for r in returns_of(fna):
        ok = isinstance(r.value, ast.Tuple) and [u(e) for e in r.value.elts] == ['assignments', 'distances']
        ck.check(ok, rule + '.unpack', modu, r, 'assign_to_nearest_center', u(r),
                 'returns (assignments, distances)', 'return order changed')


def check(ck):
    d1_lockstep(ck)
    d1_propose(ck)
    kc = ck.repo.mod(KC)
    n = check_running_min_commit(ck, 'C01.D2.commit', kc, '_kcenters_iteration',
                                 True, 'len-before-append')
    n += check_running_min_commit(ck, 'C01.D2.commit', kc, '_kcenters_iteration_mpi',
                                  True, 'len-before-append')
    cu = ck.repo.mod(CU)
    n += check_running_min_commit(ck, 'C01.D2.commit', cu, 'assign_to_nearest_center',
                                  False, 'enumerate-index')
    ck.floor('C01.D2.commit', n, 3, 'running-minimum commits')
    d2_argmin_branch(ck)
    d3_pam_three_way(ck)
    d3_pam_case_a(ck)
    d4_result_fields(ck)
    entries = [(KC, 'kcenters'), (KC, 'kcenters_mpi'), (KM, 'kmedoids'),
               (HY, 'hybrid'), (CU, 'assign_to_nearest_center'),
               (CU, 'find_cluster_centers'), (KC, 'KCenters.fit'),
               (KM, 'KMedoids.fit'), (HY, 'KHybrid.fit'),
               (CU, 'MolecularClusterMixin.predict'),
               (KM, '_kmedoids_iterations'), (KM, '_kmedoids_pam_update'),
               (KM, '_kmedoids_inputs_tree'), (KM, '_propose_new_center_amongst')]
    check_no_arg_mutation(ck, 'C01.D5.inputs-unmodified', entries)
    return EXPLANATION


def d2_argmin_branch(ck):
    rule = 'C01.D2.argmin-branch'
    mod = ck.repo.mod(CU)
    fn = mod.func('assign_to_nearest_center')
    n = 0
    for loop in [l for l in walk_local(fn) if isinstance(l, ast.For)]:
        am = [s for s in walk_local(loop) if isinstance(s, ast.Assign)
              and isinstance(s.value, ast.Call) and call_name(s.value) in ('np.argmin',) ]
        mn = [s for s in walk_local(loop) if isinstance(s, ast.Assign)
              and isinstance(s.value, ast.Call) and call_name(s.value) in ('np.min', 'np.amin')]
        am += [s for s in walk_local(loop) if isinstance(s, ast.Assign)
               and isinstance(s.value, ast.Call) and isinstance(s.value.func, ast.Attribute)
               and s.value.func.attr == 'argmin' and call_name(s.value) != 'np.argmin']
        mn += [s for s in walk_local(loop) if isinstance(s, ast.Assign)
               and isinstance(s.value, ast.Call) and isinstance(s.value.func, ast.Attribute)
               and s.value.func.attr == 'min' and call_name(s.value) != 'np.min']
        if not am and not mn:
            continue
        n += 1
        if len(am) != 1 or len(mn) != 1:
            ck.bad(rule, mod, loop, 'assign_to_nearest_center', u(loop)[:120],
                   'per-frame branch must store both argmin (label) and min (distance)')
            continue
        a, m = am[0], mn[0]

        def operand(c):
            return u(c.args[0]) if c.args else u(c.func.value)
        same = operand(a.value) == operand(m.value)
        ta, tm = a.targets[0], m.targets[0]
        same_cell = isinstance(ta, ast.Subscript) and isinstance(tm, ast.Subscript) \
            and u(ta.slice) == u(tm.slice) and u(ta.value) == 'assignments' \
            and u(tm.value) == 'distances'
        ck.check(same and same_cell, rule, mod, a, 'assign_to_nearest_center',
                 '%s ; %s' % (u(a), u(m)),
                 'label = argmin and distance = min of the same distance vector, same frame',
                 'argmin and min must be taken over the same array and stored at the '
                 'same frame index into assignments resp. distances')
    ck.floor(rule, n, 1, 'argmin/min branch')

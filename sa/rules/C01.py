"""C01 Clustering results are self-consistent (structural clauses D1-D5).

The constructs are located by ROLE (parameter position, what is returned,
what is passed as which ClusterResult field, which array receives the store)
and compared after expansion of temporaries, so that renamed or extracted
temporaries, flipped comparisons and reordered independent statements do not
matter.  An unrecognised shape is ANALYSIS-INCOMPLETE (ck.missing), only a
recognised construct with different content is a VIOLATION."""
import ast
import itertools

from ..core import (AnalysisIncomplete, arg_or_kw, call_name, const_value,
                    is_call_to, kwarg, names_loaded, param_default, params,
                    target_names, u, walk_expr, walk_local)
from ..match import C, canon, classify, match
from ..patterns import (assigns_to, calls_in, check_no_arg_mutation,
                        conjuncts, finfo, returns_of, subscript_stores,
                        mask_atoms, mask_keys, eval_mask, shared)
from .cluster_common import (KC, KM, HY, CU, check_running_min_commit,
                             find_running_min_commits)

AP = 'enspara/apps/cluster.py'

EXPLANATION = (
    'Static decision of the structural necessary conditions of C01: '
    '(D1) centre coordinates and centre index advance in lock-step from one '
    'definition (k-centers iteration, its MPI sibling, the k-centers driver '
    'incl. the warm start whose index list must be the per-label '
    'find_cluster_centers of the sweep over the same centre list, PAM accept '
    'branch); (D2) the running-minimum commit writes distances and labels '
    'under one strict mask with the label taken before the append, and the '
    'triangle-inequality shortcut that replaces candidate distances by a copy '
    'of the current ones is opt-in (default off on every in-package path); '
    '(D3) the three PAM reassignment masks are exhaustive and disjoint over '
    'their two atoms and each writes labels and distances from paired '
    'sources; (D4) ClusterResult fields/roles agree at every construction and '
    'unpacking site, the producers return labels/distances at their documented '
    'positions, and every estimator fit stores the result of the function form '
    'applied to its own data argument on every returning path; (D5) no store reaches a caller-owned argument of the '
    'clustering entry points (whole-package alias/effects fixed point). '
    'Numerical equality of reported and recomputed distances is NOT decided.')


# ---------------------------------------------------------------------------
# small role helpers

def _last(cn):
    return (cn or '').split('.')[-1]


def _strip_int(e):
    """int(x) / np.int64(x) wrappers do not change which frame is meant."""
    while isinstance(e, ast.Call) and len(e.args) == 1 and not e.keywords and \
            _last(call_name(e)) in ('int', 'int64', 'intp', 'int32'):
        e = e.args[0]
    return e


def _ret_tuples(fi, fn, arity):
    """[(return stmt, elts | None)]: the returned tuple, seen through a
    returned temporary."""
    out = []
    for r in returns_of(fn):
        v = r.value
        if isinstance(v, ast.Name):
            v = fi.resolve(v)
        if isinstance(v, ast.Tuple):
            out.append((r, list(v.elts) if len(v.elts) == arity else ()))
        else:
            out.append((r, None))
    return out


def _callee_names(fi, call, depth=4):
    """Names of the functions a call may invoke: the attribute name, the
    global name, or - for a local alias `f = g if c else h` / branch-wise
    `f = g` - every function the alias may denote."""
    def names_of(e, d):
        if isinstance(e, ast.Attribute):
            return {e.attr}
        if isinstance(e, ast.IfExp):
            return names_of(e.body, d) | names_of(e.orelse, d)
        if isinstance(e, ast.Name):
            try:
                defs = fi.defs_of_use(e)
            except Exception:
                defs = set()
            sites = [s for s in defs if s not in ('PARAM', 'UNBOUND')]
            if not sites or d <= 0:
                return {e.id}
            out = set()
            for s in sites:
                v = fi.def_value(s, e.id)
                out |= names_of(v, d - 1) if v is not None else {'?'}
            return out
        return {'?'}
    return names_of(call.func, depth)


def _appends_to(root, name):
    return [c for c in calls_in(root, '.append')
            if isinstance(c.func.value, ast.Name) and c.func.value.id == name]


def _enclosing(mod, node, kinds, stop=None):
    n = mod.parent.get(node)
    while n is not None and n is not stop and not isinstance(n, kinds):
        n = mod.parent.get(n)
    return n if isinstance(n, kinds) else None


def _df_args(call):
    """(data, world_index, owner_rank) of a distribute_frame call."""
    return (arg_or_kw(call, 0, 'data'), arg_or_kw(call, 1, 'world_index'),
            arg_or_kw(call, 2, 'owner_rank'))


def _is_empty_list(e):
    return (isinstance(e, ast.List) and not e.elts) or (
        isinstance(e, ast.Call) and call_name(e) == 'list' and not e.args and not e.keywords)


def _same_def(fi, a, b):
    """Two Name loads of the same variable that denote the same value."""
    return isinstance(a, ast.Name) and isinstance(b, ast.Name) and fi.same_value(a, b)


def _component(fi, e, at, depth=8):
    """(call, k): the value of expression `e`, evaluated at statement `at`, is
    element k of the tuple returned by the Call node `call` (k None: the whole
    result).  Seen through single reaching definitions: `a, d = f(..)`,
    `t = f(..); a, d = t`, `a = t[0]`, `a, d = (t[0], t[1])`, copies `b = a`.
    None when the value is anything else (or has several definitions)."""
    if depth <= 0 or e is None:
        return None
    if isinstance(e, ast.Call):
        return (e, None)
    if isinstance(e, ast.Subscript):
        k = const_value(e.slice)
        inner = _component(fi, e.value, at, depth - 1)
        if inner is not None and inner[1] is None and isinstance(k, int) and \
                not isinstance(k, bool) and k >= 0:
            return (inner[0], k)
        return None
    if isinstance(e, ast.Name):
        try:
            defs = fi.rd.defs_at(at, e.id)
        except Exception:
            return None
        if len(defs) != 1:
            return None
        return _component_def(fi, next(iter(defs)), e.id, depth)
    return None


def _component_def(fi, site, name, depth=8):
    """_component for the value bound to `name` by the definition `site`."""
    if not isinstance(site, ast.Assign) or len(site.targets) != 1:
        return None
    t = site.targets[0]
    if isinstance(t, ast.Name):
        r = _component(fi, site.value, site, depth - 1)
        if r is not None and r[1] is None and fi._mutated_in_place(name):
            return None         # a list result patched in place
        return r
    if isinstance(t, (ast.Tuple, ast.List)) and all(isinstance(x, ast.Name) for x in t.elts):
        pos = [i for i, x in enumerate(t.elts) if x.id == name]
        if len(pos) != 1:
            return None
        if isinstance(site.value, (ast.Tuple, ast.List)):
            if len(site.value.elts) != len(t.elts) or \
                    any(isinstance(x, ast.Starred) for x in site.value.elts):
                return None
            return _component(fi, site.value.elts[pos[0]], site, depth - 1)
        inner = _component(fi, site.value, site, depth - 1)
        if inner is not None and inner[1] is None:
            return (inner[0], pos[0])
    return None


def _subst_call_temps(fi, e, at, callees):
    """Copy of `e` (evaluated at statement `at`) in which a name whose single
    reaching definition is `name = <call of one of callees>` is replaced by
    that call, provided the operands of the call have the same reaching
    definitions at `at` as at the call."""
    import copy as _copy
    e = _copy.deepcopy(e)

    class T(ast.NodeTransformer):
        def visit_Name(self, n):
            if not isinstance(n.ctx, ast.Load):
                return n
            try:
                defs = fi.rd.defs_at(at, n.id)
            except Exception:
                return n
            if len(defs) != 1:
                return n
            site = next(iter(defs))
            if not isinstance(site, ast.Assign) or len(site.targets) != 1 or \
                    not isinstance(site.targets[0], ast.Name) or not isinstance(site.value, ast.Call) or \
                    _last(call_name(site.value)) not in callees:
                return n
            for x in walk_expr(site.value):
                if isinstance(x, ast.Name) and isinstance(x.ctx, ast.Load) and \
                        fi.rd.defs_at(site, x.id) != fi.rd.defs_at(at, x.id):
                    return n
            return _copy.deepcopy(site.value)
    return T().visit(e)


def _names_bound_in(fn):
    out = set()
    for s in walk_local(fn):
        if isinstance(s, ast.Assign):
            for t in s.targets:
                out |= set(target_names(t))
    return out


def _root_def(fi, name_node, depth=6):
    """(definition site, name) that produced the value of a Name use, seen
    through plain copies `a = b` / `a = int(b)` with a single reaching
    definition each."""
    nm, at = name_node.id, fi.stmt(name_node)
    for _ in range(depth):
        try:
            defs = fi.rd.defs_at(at, nm)
        except Exception:
            return None
        if len(defs) != 1:
            return None
        site = next(iter(defs))
        if site in ('PARAM', 'UNBOUND'):
            return (site, nm)
        v = fi.def_value(site, nm)
        v = _strip_int(v) if v is not None else None
        if isinstance(v, ast.Name):
            nm, at = v.id, site
            continue
        return (site, nm)
    return None


def _unchanged_between(fi, names, s1, s2):
    """No name of `names` is rebound or mutated in place on a path between the
    statements s1 and s2 (either order)."""
    cfg = fi.cfg
    for nm in names:
        try:
            if fi.rd.defs_at(s1, nm) != fi.rd.defs_at(s2, nm):
                return False
        except Exception:
            return False
        for ms in fi._mutated_in_place(nm):
            for x, y in ((s1, s2), (s2, s1)):
                if (ms is x or cfg.reachable(x, ms)) and cfg.reachable(ms, y) and ms is not y:
                    return False
    return True


def _same_root(fi, a, b):
    ra, rb = _root_def(fi, a), _root_def(fi, b)
    return ra is not None and rb is not None and ra[0] is rb[0] and ra[1] == rb[1] \
        and ra[0] not in ('UNBOUND',)


def _cluster_result_fields(ck):
    """Declared field order of the ClusterResult namedtuple (None if not found)."""
    cls = ck.repo.mod(CU).classes.get('ClusterResult')
    for b in (cls.bases if cls is not None else []):
        if isinstance(b, ast.Call) and _last(call_name(b)) == 'namedtuple' and len(b.args) == 2 \
                and isinstance(b.args[1], (ast.List, ast.Tuple)):
            return [e.value for e in b.args[1].elts if isinstance(e, ast.Constant)]
    return None


def _result_kw_names(fn, field, fields=None):
    """Names passed as ClusterResult(<field>=...) inside fn (or at the
    position of that field when the declared order `fields` is given)."""
    out = []
    for c in calls_in(fn):
        if _last(call_name(c)) == 'ClusterResult':
            v = kwarg(c, field)
            if v is None and fields and field in fields and len(c.args) > fields.index(field) and \
                    not any(isinstance(a, ast.Starred) for a in c.args):
                v = c.args[fields.index(field)]
            if isinstance(v, ast.Name) and v.id not in out:
                out.append(v.id)
    return out


# ---------------------------------------------------------------------------
# D1

def d1_lockstep(ck):
    mod = ck.repo.mod(KC)
    rule = 'C01.D1.lockstep'
    n = 0
    n += _lockstep_iteration(ck, rule, mod)
    n += _lockstep_iteration_mpi(ck, rule, mod)
    n += _lockstep_driver(ck, rule, mod)
    n += _lockstep_pam(ck, rule, ck.repo.mod(KM))
    ck.floor(rule, n, 4, 'lock-step sites')


def _lockstep_iteration(ck, rule, mod):
    F = '_kcenters_iteration'
    fn = mod.func(F)
    fi = finfo(mod, fn)
    ck.analysed(mod, fn)
    rets = _ret_tuples(fi, fn, 4)
    if not rets:
        ck.missing(rule, 'no return in _kcenters_iteration')
        return 0
    n = 0
    data = params(fn)[0]
    for r, elts in rets:
        if elts is None:
            ck.missing(rule, '%s: returned value is not a tuple display: %s' % (F, u(r)[:80]))
            continue
        if not elts:
            ck.missing(rule, '%s: the returned tuple is not (new_center, distances, assignments, center_inds): %s' % (
                F, u(r)[:80]))
            continue
        cexpr = fi.resolve(elts[0])
        lst = elts[3]
        if not isinstance(lst, ast.Name):
            ck.missing(rule, '%s: returned centre-index list is not a plain name: %s' % (F, u(lst)[:60]))
            continue
        if not (isinstance(cexpr, ast.Subscript) and isinstance(cexpr.value, ast.Name)
                and cexpr.value.id == data):
            v = classify(cexpr, ['%s[_I]' % data], scope={data})
            ck.decide(v if v[0] != 'match' else 'far', rule, mod, r, F, u(cexpr),
                      '', 'the returned centre must be `%s[<index>]`: a frame of the data '
                      'parameter selected by the index that is appended to the centre list' % data)
            continue
        appends = _appends_to(fn, lst.id)
        if not appends:
            ck.missing(rule, '%s: no `%s.append(<index>)` found (list extended in an '
                       'unrecognised way)' % (F, lst.id))
            continue
        cfg = fi.cfg
        app_st = [fi.stmt(a) for a in appends]
        twice = any(cfg.reachable(a, b) for a in app_st for b in app_st if a is not b) or \
            any(cfg.reachable(a, a) for a in app_st)
        if twice:
            ck.bad(rule, mod, r, F, 'append to %s' % lst.id,
                   'expected exactly one append of the new centre index per iteration, found %d on one path' % len(appends))
            continue
        raises = [x for x in walk_local(fn) if isinstance(x, ast.Raise)]
        if cfg.reachable('ENTRY', r, avoiding=app_st + raises):
            ck.bad(rule, mod, r, F, 'append to %s' % lst.id,
                   'the returned centre is `%s` but on some path to the return no index is appended to `%s`: '
                   'centres and centre indices go out of step' % (u(cexpr)[:40], lst.id))
            continue
        idx_use = _strip_int(cexpr.slice)
        n += 1
        for a in appends:
            arg = _strip_int(a.args[0]) if a.args else None
            construct = '%s  <->  %s' % (u(cexpr), u(a))
            bad_detail = ('the index appended to the centre list is not the same value '
                          'that selected the returned centre frame (stale or recomputed index)')
            if isinstance(arg, ast.Name) and isinstance(idx_use, ast.Name):
                xa, xi = fi.expand(arg), fi.expand(idx_use)
                same = fi.same_value(arg, idx_use) or _same_root(fi, arg, idx_use) or (
                    # the same expression over operands that are unchanged in between
                    not isinstance(xa, ast.Name) and u(canon(_strip_int(xa))) == u(canon(_strip_int(xi)))
                    and _unchanged_between(fi, names_loaded(xa), fi.stmt(arg), fi.stmt(idx_use)))
                ck.check(same, rule, mod, a, F, construct,
                         'centre coordinates and appended index come from the same definition of `%s`' % idx_use.id,
                         bad_detail)
            elif isinstance(arg, ast.Name):
                # frame selected by an expression: is it a different function of the appended index?
                v = classify(fi.expand(idx_use), [arg.id], scope={arg.id})
                ck.decide(v, rule, mod, a, F, construct, 'frame index is the appended index', bad_detail)
            elif arg is not None and fi.xu(arg) == fi.xu(idx_use) and not isinstance(arg, ast.Call):
                ck.ok(rule, mod, a, construct, 'same index expression')
            else:
                ck.missing(rule, '%s: cannot relate appended index `%s` to frame index `%s`' % (
                    F, u(arg)[:60], u(idx_use)[:60]))
    return n


def _lockstep_iteration_mpi(ck, rule, mod):
    """(owner, index) appended == distribute_frame(owner_rank=, world_index=)."""
    F = '_kcenters_iteration_mpi'
    fn = mod.func(F)
    fi = finfo(mod, fn)
    ck.analysed(mod, fn)
    lst = None
    for r, elts in _ret_tuples(fi, fn, 4):
        if elts and isinstance(elts[3], ast.Name):
            lst = elts[3].id
    if lst is None:
        ck.missing(rule, '%s: returned centre-index list not found' % F)
        return 0
    dfs = [c for c in calls_in(fn) if _last(call_name(c)) == 'distribute_frame']
    apps = _appends_to(fn, lst)
    if len(dfs) != 1 or len(apps) != 1:
        ck.missing(rule, '_kcenters_iteration_mpi: distribute_frame/append not found uniquely')
        return 0
    df, ap = dfs[0], apps[0]
    _, windex, owner = _df_args(df)
    pair = ap.args[0] if ap.args else None
    if isinstance(pair, ast.Name):
        pair = fi.resolve(pair)
    construct = '%s  <->  %s' % (u(df), u(ap))
    if not (isinstance(pair, ast.Tuple) and len(pair.elts) == 2) or owner is None or windex is None:
        ck.missing(rule, '%s: appended value is not an (owner, index) pair display: %s' % (F, u(ap)[:80]))
        return 0
    p0, p1 = _strip_int(pair.elts[0]), _strip_int(pair.elts[1])
    owner, windex = _strip_int(owner), _strip_int(windex)
    if not all(isinstance(x, ast.Name) for x in (p0, p1, owner, windex)):
        same = fi.xu(p0) == fi.xu(owner) and fi.xu(p1) == fi.xu(windex)
        swapped = fi.xu(p0) == fi.xu(windex) and fi.xu(p1) == fi.xu(owner)
        if same and not any(isinstance(x, ast.Call) for x in (p0, p1)):
            ck.ok(rule, mod, ap, construct, 'appended pair equals the broadcast frame address')
            return 1
        if swapped and not same:
            ck.bad(rule, mod, ap, F, construct, 'the pair appended to the centre list must be '
                   '(owner_rank, world_index) of the frame that was distributed, in that order')
            return 1
        ck.missing(rule, '%s: frame address operands are not plain names: %s' % (F, construct[:120]))
        return 0
    ok = fi.same_value(p0, owner) and fi.same_value(p1, windex)
    ck.check(ok, rule, mod, ap, F, construct,
             'appended (owner, index) pair equals the broadcast frame address',
             'the pair appended to the centre list must be (owner_rank, '
             'world_index) of the frame that was distributed, in that order')
    return 1


def _lockstep_driver(ck, rule, mod):
    """kcenters(): the centre returned by the iteration (element 0 of its
    result) is appended to the centre-coordinate list once per trip."""
    F = 'kcenters'
    fn = mod.func(F)
    ck.analysed(mod, fn)
    fi = finfo(mod, fn)
    cls = _result_kw_names(fn, 'centers', _cluster_result_fields(ck))
    if len(cls) != 1:
        ck.missing(rule, 'kcenters: the list passed as ClusterResult(centers=...) not found uniquely')
        return 0
    CL = cls[0]
    its = [c for c in calls_in(fn)
           if _callee_names(fi, c) & {'_kcenters_iteration', '_kcenters_iteration_mpi'}]
    n = 0
    for c in its:
        st = fi.stmt(c)
        loop = _enclosing(mod, c, (ast.While, ast.For), stop=fn)
        if loop is None:
            ck.missing(rule, 'kcenters: iteration call is not inside a loop')
            continue
        apps = _appends_to(loop, CL)
        n += 1
        if not apps:
            touched = [s for s in assigns_to(loop, CL)] + [
                x for x in walk_local(loop) if isinstance(x, ast.Call) and isinstance(x.func, ast.Attribute)
                and isinstance(x.func.value, ast.Name) and x.func.value.id == CL] + [
                x for x in walk_local(loop) if isinstance(x, ast.Call) and x is not c and any(
                    isinstance(a, ast.Name) and a.id == CL for a in x.args)]
            if touched:
                ck.missing(rule, 'kcenters: `%s` is extended in an unrecognised way' % CL)
                n -= 1
            else:
                ck.bad(rule, mod, st, F, u(st)[:120],
                       'the new centre returned by the iteration is never appended to the '
                       'centre-coordinate list `%s` although its index is appended to the index list' % CL)
            continue
        # what is appended: element 0 of the iteration result (tuple unpacking,
        # indexing of a temporary, copies - by def-use)
        kinds = []
        for a in apps:
            r = _component(fi, a.args[0], fi.stmt(a)) if len(a.args) == 1 and not a.keywords else None
            kinds.append(r[1] if r is not None and r[0] is c else ('other' if r is None else 'foreign'))
        cfg = fi.cfg
        app_st = [fi.stmt(a) for a in apps]
        twice = any(cfg.reachable(a, b, avoiding=[st]) for a in app_st for b in app_st if a is not b) or \
            any(cfg.reachable(a, a, avoiding=[st]) for a in app_st)
        construct = u(st)[:120]
        if all(k == 0 for k in kinds) and not twice:
            raises = [x for x in walk_local(fn) if isinstance(x, ast.Raise)]
            skipped = cfg.reachable(st, 'EXIT', avoiding=app_st + raises)
            if not skipped:
                ck.ok(rule, mod, st, construct,
                      'the centre returned by the iteration is appended to `%s` once per trip' % CL)
            else:
                ck.bad(rule, mod, st, F, construct,
                       'the new centre returned by the iteration is appended to `%s` only on some paths of a trip '
                       'while its index is appended by the iteration itself on every path' % CL)
        elif twice and all(k == 0 for k in kinds):
            ck.bad(rule, mod, st, F, construct,
                   'the new centre returned by the iteration must be appended to the '
                   'centre-coordinate list exactly once per trip')
        elif any(isinstance(k, int) and k != 0 for k in kinds):
            ck.bad(rule, mod, st, F, construct,
                   'element %s of the iteration result is appended to the centre-coordinate list `%s`; the new '
                   'centre is element 0' % ([k for k in kinds if isinstance(k, int) and k != 0][0], CL))
        else:
            ck.missing(rule, 'kcenters: value appended to `%s` is not traced to the result of the iteration call: %s' % (
                CL, '; '.join(u(a)[:50] for a in apps)))
            n -= 1
    return n


def _alias_root(fi, fn, region, name_node, depth=4):
    """The Name node whose object `name_node` denotes, seen through plain
    copies `b = a` / `.., b, .. = (.., a, ..)`: `b` is bound exactly once in
    the function, by that copy, is never mutated under its own name, and `a`
    is a local that is bound exactly once too, inside `region`, on every path
    to the copy.  All writers of the object then go through `a`: rules that
    collect stores into / the allocation of the object by name look at `a`."""
    cur = name_node
    for _ in range(depth):
        ds = assigns_to(fn, cur.id)
        if len(ds) != 1 or not isinstance(ds[0], ast.Assign):
            break
        v = fi.def_value(ds[0], cur.id)
        if not isinstance(v, ast.Name) or v.id == cur.id or fi._mutated_in_place(cur.id):
            break
        rs = assigns_to(fn, v.id)
        if len(rs) != 1 or rs[0] not in set(walk_local(region)) or v.id in params(fn) or \
                not fi.cfg.dominates(rs[0], ds[0]):
            break
        cur = v
    return cur


def _pam_roles(ck, rule, mod, fn, fi):
    """Names of the PAM update by role.  X/metric: parameters 0/1; I, D, A,
    Cc: what is returned as (indices, distances, labels, coordinates); the
    per-centre loop is the loop that rebinds Cc; N, ND, NA: the candidate
    coordinate list / distances / labels that Cc, D, A are rebound to there."""
    F = '_kmedoids_pam_update'
    rets = [e for _, e in _ret_tuples(fi, fn, 4)]
    if len(rets) != 1 or not rets[0] or not all(isinstance(e, ast.Name) for e in rets[0]):
        ck.missing(rule, '%s: single `return <indices>, <distances>, <labels>, <coordinates>` of plain names not found' % F)
        return None
    I, D, A, Cc = [e.id for e in rets[0]]
    ps = params(fn)
    if len(ps) < 5:
        ck.missing(rule, '%s: parameter list not recognised' % F)
        return None
    X, metric = ps[0], ps[1]
    loops = [l for l in walk_local(fn) if isinstance(l, ast.For)
             and any(isinstance(s, ast.Assign) for s in assigns_to(l, Cc))]
    loops = [l for l in loops if _enclosing(mod, l, (ast.For, ast.While), stop=fn) is None]
    if len(loops) != 1 or _loop_index(loops[0]) is None:
        ck.missing(rule, '%s: per-centre loop (the loop that rebinds `%s`) not found uniquely' % (F, Cc))
        return None
    loop = loops[0]

    def cand(name):
        vals = []
        for s in assigns_to(loop, name):
            v = fi.def_value(s, name)
            vals.append((s, v))
        if len(vals) == 1 and isinstance(vals[0][1], ast.Name):
            return vals[0][0], _alias_root(fi, fn, loop, vals[0][1])
        return None
    cN, cD, cA = cand(Cc), cand(D), cand(A)
    if cN is None or cD is None or cA is None:
        ck.missing(rule, '%s: accept step `%s, %s = <new>, <new>; %s = <new>` not recognised' % (F, D, A, Cc))
        return None
    # arrays of distances to a proposal: results of a call of the metric parameter
    SRC = {t for s in walk_local(loop) if isinstance(s, ast.Assign) and isinstance(s.value, ast.Call)
           and isinstance(s.value.func, ast.Name) and s.value.func.id == metric
           for t in target_names(s.targets[0])}
    return {'X': X, 'metric': metric, 'I': I, 'D': D, 'A': A, 'Cc': Cc, 'loop': loop, 'SRC': SRC,
            'cid': _loop_index(loop), 'N': cN[1].id, 'ND': cD[1].id, 'NA': cA[1].id,
            'accept': {'Cc': cN[0], 'D': cD[0], 'A': cA[0]}, 'params': ps}


def _loop_index(loop):
    """Name of the position variable of `for i in range(..)` /
    `for i, x in enumerate(..)` (start 0); None otherwise."""
    t, it = loop.target, loop.iter
    if isinstance(t, ast.Name):
        return t.id
    if isinstance(t, ast.Tuple) and len(t.elts) == 2 and isinstance(t.elts[0], ast.Name) and \
            isinstance(it, ast.Call) and call_name(it) == 'enumerate' and len(it.args) == 1 and (
                not it.keywords or (len(it.keywords) == 1 and it.keywords[0].arg == 'start'
                                    and const_value(it.keywords[0].value) == 0)):
        return t.elts[0].id
    return None


def _lockstep_pam(ck, rule, modm):
    """PAM: N[cid] = proposed coordinates ; I[cid] = proposed index, a pair
    on every path, the index committed exactly where the candidate state is."""
    F = '_kmedoids_pam_update'
    fnp = modm.func(F)
    fip = finfo(modm, fnp)
    ck.analysed(modm, fnp)
    ro = _pam_roles(ck, rule, modm, fnp, fip)
    if ro is None:
        return 0
    loop, cid = ro['loop'], ro['cid']
    coord_st = [(s, t) for s, t in subscript_stores(loop, ro['N']) if isinstance(s, ast.Assign)]
    ind_st = [(s, t) for s, t in subscript_stores(loop, ro['I']) if isinstance(s, ast.Assign)]
    if len(coord_st) == 1 and not ind_st and not [s for s in assigns_to(loop, ro['I'])] and not [
            c for c in calls_in(loop) if (isinstance(c.func, ast.Attribute) and isinstance(c.func.value, ast.Name)
                                          and c.func.value.id == ro['I'] and c.func.attr not in ('index', 'count', 'copy'))
            or (call_name(c) not in ('len', 'range', 'enumerate') and not (call_name(c) or '').startswith(('logger.', 'logging.'))
                and any(isinstance(a, ast.Name) and a.id == ro['I'] for a in list(c.args) + [k.value for k in c.keywords]))]:
        ck.bad(rule, modm, coord_st[0][0], F, '%s ; %s' % (u(coord_st[0][0]), u(ro['accept']['Cc'])),
               'the accept step replaces the centre coordinates (`%s`) but the index list `%s` is never '
               'updated in the per-centre loop: centres and centre indices go out of step' % (u(ro['accept']['Cc']), ro['I']))
        return 1
    if len(coord_st) != 1 or len(ind_st) != 1:
        ck.missing(rule, 'PAM update: stores %s[cid]/%s[cid] not found uniquely' % (ro['N'], ro['I']))
        return 0
    (cs, ct), (is_, it) = coord_st[0], ind_st[0]
    same_cid = fip.xu(ct.slice) == fip.xu(it.slice) == cid
    verdict, why = _proposal_pair(modm, fnp, fip, cs.value, is_.value, ro['X'])
    construct = '%s  <->  %s' % (u(cs), u(is_))
    if verdict == 'unknown':
        ck.missing(rule, 'PAM update: %s (%s)' % (why, construct[:100]))
        return 0
    ck.check(same_cid and verdict == 'ok', rule, modm, is_, F, construct,
             'candidate coordinates and candidate index are paired on every path (%s)' % why,
             'candidate centre coordinates and its index are not a pair: %s' % (
                 why if verdict != 'ok' else 'stored at different positions %s / %s' % (u(ct.slice), u(it.slice))))
    # the index store is committed together with the candidate state
    cfg = fip.cfg
    acc = ro['accept']['Cc']

    def together(a, b):
        return (cfg.dominates(a, b) and cfg.postdominates(b, a)) or \
            (cfg.dominates(b, a) and cfg.postdominates(a, b))
    parts = [is_, ro['accept']['D'], ro['accept']['A']]
    ck.check(all(together(acc, p) for p in parts), rule, modm, is_, F,
             'accept: %s' % '; '.join(sorted({u(x) for x in [acc] + parts})),
             'centre index, coordinates, distances and labels are committed under the same condition',
             'the accept step must commit the candidate index, the candidate coordinate list, '
             'distances and labels together: one of them is updated on a path where the others are not')
    return 1


def _proposal_pair(mod, fn, fi, coord_expr, ind_expr, X):
    """Every definition of the coordinate is X[p]/distribute_frame(X, p...) or
    the first element of _propose_new_center_amongst's pair, with p the
    matching definition of the index.  -> ('ok'|'bad'|'unknown', detail)"""
    if not (isinstance(coord_expr, ast.Name) and isinstance(ind_expr, ast.Name)):
        if fi.xu(coord_expr) == '%s[%s]' % (X, fi.xu(ind_expr)):
            return 'ok', '%s[<index>] stored directly' % X
        return 'unknown', 'candidate coordinate/index are not plain names'
    cname, iname = coord_expr.id, ind_expr.id
    details = []
    for s in assigns_to(fn, cname):
        r = _component_def(fi, s, cname)
        if r is not None and r[1] is not None and _last(call_name(r[0])) == '_propose_new_center_amongst':
            ks = set()
            for s2 in assigns_to(fn, iname):
                r2 = _component_def(fi, s2, iname)
                if r2 is not None and r2[0] is r[0]:
                    ks.add(r2[1])
            if (r[1], ks) == (0, {1}):
                details.append('(coordinates, index) of one _propose_new_center_amongst call')
                continue
            if r[1] == 1 and ks == {0}:
                return 'bad', ('_propose_new_center_amongst returns (coordinates, index); element 1 is used as '
                               'the coordinates `%s` and element 0 as the index `%s`' % (cname, iname))
            return 'unknown', 'index `%s` is not element 1 of the proposal call whose element %s is `%s`' % (
                iname, r[1], cname)
        if isinstance(s, ast.Assign) and isinstance(s.targets[0], ast.Tuple):
            names = target_names(s.targets[0])
            if isinstance(s.value, ast.Call) and \
                    _last(call_name(s.value)) == '_propose_new_center_amongst':
                if names == [cname, iname]:
                    details.append('tuple from _propose_new_center_amongst')
                    continue
                if names == [iname, cname]:
                    return 'bad', '_propose_new_center_amongst returns (coordinates, index); unpacked as %s' % names
            return 'unknown', 'unexpected tuple definition %s' % u(s)[:80]
        v = getattr(s, 'value', None)
        if isinstance(v, ast.Subscript) and u(v.value) == X and \
                isinstance(_strip_int(v.slice), ast.Name) and _strip_int(v.slice).id == iname:
            details.append('%s[%s]' % (X, iname))
            continue
        if isinstance(v, ast.Call) and _last(call_name(v)) == 'distribute_frame':
            data, wi, owner = _df_args(v)
            xo, xw = fi.xu(owner, stop=(iname,)), fi.xu(wi, stop=(iname,))
            if u(data) == X and xo == '%s[0]' % iname and xw == '%s[1]' % iname:
                details.append('distribute_frame(%s, %s[0], %s[1])' % (X, iname, iname))
                continue
            if u(data) == X and xo == '%s[1]' % iname and xw == '%s[0]' % iname:
                return 'bad', 'distribute_frame owner/index taken from %s in the wrong order: %s' % (iname, u(v)[:100])
            if names_loaded(v) <= {X, iname, 'mpi'}:
                return 'bad', 'distribute_frame arguments do not address %s in %s: %s' % (iname, X, u(v)[:100])
            return 'unknown', 'distribute_frame arguments not recognised: %s' % u(v)[:100]
        if v is None:
            return 'unknown', 'definition of %s not recognised: %s' % (cname, u(s)[:80])
        c = classify(fi.expand(v, stop=(iname,)), ['%s[%s]' % (X, iname)], scope={X, iname})
        if c[0] == 'match':
            details.append('%s[%s]' % (X, iname))
            continue
        if c[0] == 'near':
            return 'bad', 'coordinate defined from %s, not from %s[%s]' % (u(v)[:80], X, iname)
        return 'unknown', 'coordinate defined from %s' % u(v)[:80]
    if not details:
        return 'unknown', 'no definition of the candidate coordinate found'
    return 'ok', ', '.join(details)


def d1_warmstart(ck):
    """kcenters(): the index list and the coordinate list handed to the loop
    (and returned as center_indices / centers) are paired position by
    position: both empty (cold start), or the coordinate list C built from
    init_centers and the index list = list(find_cluster_centers(a, d)) with
    (a, d) the result of assign_to_nearest_center(<data>, C, ...): ONE index
    per label, in label order = order of C."""
    rule = 'C01.D1.warmstart'
    mod = ck.repo.mod(KC)
    F = 'kcenters'
    fn = mod.func(F)
    fi = finfo(mod, fn)
    ck.analysed(mod, fn)
    cfg = fi.cfg
    flds = _cluster_result_fields(ck)
    ils, cls = _result_kw_names(fn, 'center_indices', flds), _result_kw_names(fn, 'centers', flds)
    if len(ils) != 1 or len(cls) != 1:
        ck.missing(rule, 'kcenters: names returned as center_indices=/centers= not found uniquely')
        return
    IL, CL = ils[0], cls[0]
    data = params(fn)[0]
    loops = [l for l in walk_local(fn) if isinstance(l, (ast.While, ast.For))]
    idefs = [s for s in assigns_to(fn, IL) if isinstance(s, ast.Assign)
             and not any(_inside(mod, s, l) for l in loops)]
    cdefs = [s for s in assigns_to(fn, CL) if isinstance(s, ast.Assign)
             and not any(_inside(mod, s, l) for l in loops)]
    n = 0
    for s in idefs:
        v = fi.def_value(s, IL)
        if v is None:
            ck.missing(rule, 'kcenters: definition of `%s` not recognised: %s' % (IL, u(s)[:80]))
            continue
        near_c = [c for c in cdefs if cfg.dominates(c, s) or cfg.dominates(s, c)]
        # keep the coordinate definitions of the same straight-line region
        near_c = [c for c in near_c if _same_region(mod, c, s)]
        if len(near_c) != 1:
            ck.missing(rule, 'kcenters: definition of the coordinate list `%s` paired with `%s` not found' % (CL, u(s)[:60]))
            continue
        cdef = near_c[0]
        cval = fi.def_value(cdef, CL)
        n += 1
        if _is_empty_list(v):
            if cval is not None and _is_empty_list(cval):
                ck.ok(rule, mod, s, '%s ; %s' % (u(s), u(cdef)), 'cold start: no centres, no indices')
            elif cval is None:
                ck.missing(rule, 'kcenters: definition of `%s` not recognised: %s' % (CL, u(cdef)[:80]))
            else:
                ck.bad(rule, mod, s, F, '%s ; %s' % (u(s), u(cdef)),
                       'the index list starts empty while the coordinate list starts as %s: '
                       'center_indices[j] would not be the frame of centers[j]' % u(cval)[:60])
            continue
        # warm start: the labels/distances sweep over the same coordinate list
        # the sweep: the one assign_to_nearest_center call of this branch that
        # is evaluated before the index list; its results are located by
        # def-use (tuple unpacking, indexing of a temporary, copies)
        sweeps = [c for c in calls_in(fn) if _last(call_name(c)) == 'assign_to_nearest_center'
                  and fi.stmt(c) is not None and fi.stmt(c) is not s
                  and cfg.dominates(fi.stmt(c), s) and _same_region(mod, fi.stmt(c), s)]
        if len(sweeps) != 1:
            ck.missing(rule, 'kcenters: warm-start sweep `assign_to_nearest_center(...)` '
                       'before `%s` not found uniquely' % u(s)[:60])
            n -= 1
            continue
        sw_call = sweeps[0]
        sw = fi.stmt(sw_call)
        comp = {}
        for nm in sorted(_names_bound_in(fn)):
            r = _component(fi, ast.Name(id=nm, ctx=ast.Load()), s)
            if r is not None and r[0] is sw_call:
                comp[nm] = r[1]
        a_names = sorted(k for k, i in comp.items() if i == 0)
        d_names = sorted(k for k, i in comp.items() if i == 1)
        a_name = a_names[0] if a_names else '<labels of the sweep>'
        d_name = d_names[0] if d_names else '<distances of the sweep>'
        forms = ['list(_F.find_cluster_centers(_A, _D))', 'list(find_cluster_centers(_A, _D))',
                 '_F.find_cluster_centers(_A, _D).tolist()', 'find_cluster_centers(_A, _D).tolist()',
                 '[_E for _E in _F.find_cluster_centers(_A, _D)]', '[_E for _E in find_cluster_centers(_A, _D)]',
                 '[int(_E) for _E in _F.find_cluster_centers(_A, _D)]', '[int(_E) for _E in find_cluster_centers(_A, _D)]']
        c = classify(_subst_call_temps(fi, fi.expand(v, stop=tuple(comp)), s, ('find_cluster_centers',)),
                     forms, scope=set(comp))
        construct = u(s)
        bad = ('the centre indices of a warm start must be ONE frame per label in label order '
               '(list(find_cluster_centers(%s, %s)), which pairs center_indices[j] with init centre j): '
               'an index set computed otherwise (e.g. the zero-distance frames in ascending frame order) '
               'does not line up with the centre list `%s`' % (a_name, d_name, CL))
        if c[0] != 'match':
            ck.decide(c, rule, mod, s, F, construct, '', bad)
            continue
        b = c[1]
        ra, rd_ = _component(fi, b['_A'], s), _component(fi, b['_D'], s)
        ka = ra[1] if ra is not None and ra[0] is sw_call else None
        kd = rd_[1] if rd_ is not None and rd_[0] is sw_call else None
        if (ka, kd) == (1, 0):
            ck.bad(rule, mod, s, F, construct, 'find_cluster_centers(assignments, distances) is called with '
                   'the two results of the sweep swapped')
            continue
        if (ka, kd) != (0, 1):
            ck.missing(rule, 'kcenters: find_cluster_centers is not applied to the (labels, distances) result of '
                       'the warm-start sweep: %s' % construct[:80])
            n -= 1
            continue
        # sweep arguments: (data, the coordinate list)
        call = sw_call
        a0 = arg_or_kw(call, 0, 'trajectory')
        a1 = arg_or_kw(call, 1, 'cluster_centers')
        src = None
        if cval is not None:
            m = match('[_E for _E in _S]', cval) or match('list(_S)', cval)
            if m and isinstance(m.get('_S'), ast.AST):
                src = u(m['_S'])
        ctr_ok = isinstance(a1, ast.Name) and a1.id == CL and cfg.dominates(cdef, sw)
        ctr_ok = ctr_ok or (a1 is not None and src is not None and u(a1) == src)
        if a0 is None or a1 is None or u(a0) != data:
            ck.missing(rule, 'kcenters: arguments of the warm-start sweep not recognised: %s' % u(call)[:100])
            n -= 1
            continue
        if not ctr_ok:
            # (a list the returned centre list was built from element by element is
            # the same centres in the same order: not decided here)
            if isinstance(a1, ast.Name) and a1.id in (data, IL, a_name, d_name):
                ck.bad(rule, mod, sw, F, u(sw)[:160], 'the warm-start sweep assigns frames to `%s`, not to the centre '
                       'list `%s` that is returned: labels would not index the reported centres' % (u(a1), CL))
            else:
                ck.missing(rule, 'kcenters: centre argument of the warm-start sweep not recognised: %s' % u(a1)[:60])
                n -= 1
            continue
        ck.ok(rule, mod, s, '%s ; %s' % (u(sw)[:120], construct),
              'warm start: indices = per-label find_cluster_centers of the sweep over the returned centre list')
    ck.floor(rule, n, 2, 'initialisations of the (centre index, centre coordinate) lists')


def _inside(mod, node, outer):
    n = mod.parent.get(node)
    while n is not None:
        if n is outer:
            return True
        n = mod.parent.get(n)
    return False


def _same_region(mod, a, b):
    """a and b are statements of the same branch: the chain of enclosing
    if-branches of one is a prefix of the other's (no sibling branches)."""
    def chain(s):
        out = []
        n, child = mod.parent.get(s), s
        while n is not None and not isinstance(n, (ast.FunctionDef, ast.AsyncFunctionDef)):
            if isinstance(n, ast.If):
                out.append((id(n), 'body' if any(child is x for x in n.body) else 'orelse'))
            child, n = n, mod.parent.get(n)
        return list(reversed(out))
    ca, cb = chain(a), chain(b)
    k = min(len(ca), len(cb))
    return ca[:k] == cb[:k]


def d1_propose(ck):
    """_propose_new_center_amongst returns (X[i], i) / (distribute_frame(X,r,i),(r,i))."""
    rule = 'C01.D1.propose'
    mod = ck.repo.mod(KM)
    F = '_propose_new_center_amongst'
    fn = mod.func(F)
    ck.analysed(mod, fn)
    fi = finfo(mod, fn)
    X = params(fn)[0]
    n = 0
    for r, elts in _ret_tuples(fi, fn, 2):
        if elts is None:
            ck.missing(rule, '%s: returned value is not a tuple display' % F)
            continue
        if not elts:
            ck.missing(rule, '%s: the returned tuple is not a (coordinates, index) pair: %s' % (F, u(r)[:80]))
            continue
        c, i = elts
        if isinstance(c, ast.Name):
            sites = [(site, fi.def_value(site, c.id)) for site in fi.defs_of_use(c)]
        else:
            sites = [(r, c)]
        for site, v in sites:
            if site in ('PARAM', 'UNBOUND') or v is None:
                ck.missing(rule, '%s: definition of the proposed coordinates not recognised' % F)
                continue
            n += 1
            if isinstance(v, ast.Subscript):
                ok = u(v.value) == X and isinstance(i, ast.Name) and \
                    isinstance(_strip_int(v.slice), ast.Name) and _strip_int(v.slice).id == i.id
                ck.check(ok, rule, mod, site, F, u(site),
                         'serial proposal is X[i] with the returned i',
                         'proposed coordinates must be `%s[<returned index>]`' % X)
            elif isinstance(v, ast.Call) and _last(call_name(v)) == 'distribute_frame':
                data, wi, owner = _df_args(v)
                # the returned index must be (owner, wi)
                idef = None
                if isinstance(i, ast.Name):
                    for d in fi.defs_of_use(i):
                        vv = fi.def_value(d, i.id) if d not in ('PARAM', 'UNBOUND') else None
                        if isinstance(vv, ast.Tuple):
                            idef = vv
                elif isinstance(i, ast.Tuple):
                    idef = i
                if idef is None or owner is None or wi is None:
                    ck.missing(rule, '%s: returned (rank, index) pair of the MPI proposal not recognised' % F)
                    n -= 1
                    continue
                ok = u(data) == X and len(idef.elts) == 2 and \
                    u(idef.elts[0]) == u(owner) and u(idef.elts[1]) == u(wi)
                ck.check(ok, rule, mod, site, F, u(site)[:160],
                         'MPI proposal frame address equals the returned (rank, index) pair',
                         'distribute_frame(owner_rank, world_index) must be the '
                         'returned (rank, index) pair in that order')
            else:
                cl = classify(fi.expand(v), ['%s[_I]' % X], scope={X} | ({i.id} if isinstance(i, ast.Name) else set()))
                ck.decide(cl if cl[0] != 'match' else 'far', rule, mod, site, F, u(site)[:120], '',
                          'proposed coordinates are not taken from %s' % X)
    ck.floor(rule, n, 2, 'proposal definitions')


def _helper_expr(stmts):
    """The expression computed by a helper body made only of `return e` and
    `if c: ... [else: ...]` whose branches all return; None otherwise."""
    body = [s for s in stmts if not (isinstance(s, ast.Pass) or (
        isinstance(s, ast.Expr) and isinstance(s.value, ast.Constant)))]
    if not body:
        return None
    s = body[0]
    if isinstance(s, ast.Return) and s.value is not None:
        return s.value
    if isinstance(s, ast.If):
        a = _helper_expr(s.body)
        b = _helper_expr(s.orelse) if s.orelse else _helper_expr(body[1:])
        if a is None or b is None:
            return None
        return ast.IfExp(test=s.test, body=a, orelse=b)
    return None


def _inline_local_helper(fi, call):
    """A call of a nested `def h(p, ...)` of the analysed function (single
    reaching definition, plain positional parameters, body = an expression):
    that expression with the parameters replaced by the argument nodes."""
    if not isinstance(call.func, ast.Name) or call.keywords or \
            any(isinstance(a, ast.Starred) for a in call.args):
        return None
    try:
        defs = fi.defs_of_use(call.func)
    except Exception:
        return None
    if len(defs) != 1:
        return None
    h = next(iter(defs))
    if not isinstance(h, ast.FunctionDef) or h.decorator_list:
        return None
    a = h.args
    if a.vararg or a.kwarg or a.kwonlyargs or a.defaults or a.posonlyargs or len(a.args) != len(call.args):
        return None
    e = _helper_expr(h.body)
    if e is None or any(isinstance(n, (ast.Lambda, ast.comprehension, ast.NamedExpr, ast.Yield,
                                       ast.YieldFrom, ast.Await)) for n in ast.walk(e)):
        return None
    env = dict(zip([x.arg for x in a.args], call.args))

    def subst(x):
        if isinstance(x, ast.Name):
            return env[x.id] if x.id in env and isinstance(x.ctx, ast.Load) else x
        if not isinstance(x, ast.AST) or isinstance(x, (ast.expr_context, ast.operator, ast.unaryop,
                                                         ast.boolop, ast.cmpop)):
            return x
        new = type(x)()
        for f in x._fields:
            val = getattr(x, f, None)
            if isinstance(val, list):
                setattr(new, f, [subst(y) for y in val])
            elif isinstance(val, ast.AST):
                setattr(new, f, subst(val))
            else:
                setattr(new, f, val)
        return ast.copy_location(new, x) if hasattr(x, 'lineno') else new
    return subst(e)


def _max_of(fi, e, D, at, depth=4):
    """Is `e` (evaluated at statement `at`) the maximum of the CURRENT value of
    the array named D?  -> 'yes' | 'no' | 'unknown'.  Seen through named
    temporaries with several definitions (if/else, before the loop / at the end
    of the body) and through conditional expressions; a definition that is
    followed by a rebinding of D on the way to `at` is stale -> 'unknown'."""
    def combine(vs):
        vs = set(vs)
        if vs == {'yes'}:
            return 'yes'
        if vs == {'no'}:
            return 'no'
        return 'unknown'
    if isinstance(e, ast.IfExp):
        return combine([_max_of(fi, e.body, D, at, depth), _max_of(fi, e.orelse, D, at, depth)])
    if isinstance(e, ast.Constant):
        return 'no'
    if isinstance(e, ast.Name):
        try:
            defs = fi.rd.defs_at(at, e.id) if at is not None else fi.defs_of_use(e)
        except Exception:
            return 'unknown'
        if not defs or depth <= 0:
            return 'unknown'
        if defs == {'PARAM'}:
            return 'no'
        out = []
        cfg = fi.cfg
        sites = [s for s in defs if s not in ('PARAM', 'UNBOUND')]
        # a (re)binding of D that reaches `at` without a later definition of
        # the temporary: the temporary describes an older array
        stale = at is not None and any(
            d is not at and cfg.reachable(d, at, avoiding=sites) for d in assigns_to(fi.fn, D))
        for site in defs:
            if site == 'PARAM':
                out.append('no')        # a caller-supplied value
                continue
            if site == 'UNBOUND':
                out.append('unknown')
                continue
            v = fi.def_value(site, e.id)
            if v is None:
                out.append('unknown')
                continue
            r = _max_of(fi, v, D, site, depth - 1)
            if r == 'yes' and stale:
                r = 'unknown'       # D is rebound after the maximum was taken
            out.append(r)
        return combine(out)
    if isinstance(e, ast.Call) and depth > 0:
        body = _inline_local_helper(fi, e)
        if body is not None:
            return _max_of(fi, body, D, at, depth - 1)
    x = canon(e)
    if isinstance(x, ast.Call):
        ln = _last(call_name(x))
        if isinstance(x.func, ast.Attribute) and x.func.attr == 'max' and not x.args and not x.keywords:
            if isinstance(x.func.value, ast.Name):
                return 'yes' if x.func.value.id == D else 'no'
            return 'unknown'
        if ln in ('striped_array_max', 'amax', 'max', 'nanmax') and len(x.args) == 1 and not x.keywords \
                and isinstance(x.args[0], ast.Name):
            return 'yes' if x.args[0].id == D else 'no'
        if call_name(x) == 'len' and len(x.args) == 1:
            return 'no'         # a count, not a distance
        return 'unknown'
    if isinstance(x, (ast.Attribute, ast.Subscript, ast.BinOp, ast.UnaryOp)):
        return 'unknown' if D in names_loaded(x) else 'no'
    return 'unknown'


def _trip_conditions(mod, fi, loop, stmt):
    """[(test, polarity, cfg node)]: the conditions known to hold, since the
    start of the current trip of `loop`, whenever `stmt` (a statement of the
    loop body) is reached: the test of a while loop and every if-branch inside
    the loop that dominates the statement (nested ifs, the fall-through side of
    `if <stop>: break` guard clauses)."""
    from ..cfg import Assume
    out = []
    if isinstance(loop, ast.While) and not (isinstance(loop.test, ast.Constant) and bool(loop.test.value)):
        out.append((loop.test, True, loop))
    for nd in fi.cfg.nodes:
        if isinstance(nd, Assume) and _inside(mod, nd.owner, loop) and fi.cfg.dominates(nd, stmt):
            out.append((nd.test, nd.polarity, nd))
    return out


def _escapes_unseen(mod, fi, loop, stmt, conds):
    """Is the loop left (break/return/raise) at a place whose condition is not
    one of the trip conditions?  Such an exit may carry the stopping rule."""
    owners = {id(at.owner) for _, _, at in conds if hasattr(at, 'owner')}
    for x in walk_local(loop):
        if not isinstance(x, (ast.Break, ast.Return, ast.Raise)):
            continue
        # the exit is the whole other arm of a condition that guards the call
        p = mod.parent.get(x)
        if isinstance(p, ast.If) and id(p) in owners:
            arm = p.body if any(x is y for y in p.body) else p.orelse
            if not any(y is stmt or _inside(mod, stmt, y) for y in arm):
                continue        # left exactly when that (analysed) condition fails
        return True
    return False


def d1_no_reselect(ck):
    """kcenters(): a frame that already is a centre is never selected again.
    Every trip makes argmax(distances) the new centre; a centre frame has
    distance 0 to itself, so a trip may only be taken while max(distances) is
    STRICTLY above a non-negative bound: the loop guard must contain the
    conjunct `cutoff < max(<the distances handed to the iteration>)`.  With
    `<=` (or without the conjunct) a trip happens at max == cutoff == 0 (the
    default cutoff, more centres requested than distinct frames): an existing
    centre frame is appended again as centre j although it carries its old
    label - center_indices are no longer distinct and 'every centre frame
    carries its own label' fails."""
    rule = 'C01.D1.no-reselect'
    mod = ck.repo.mod(KC)
    F = 'kcenters'
    fn = mod.func(F)
    fi = finfo(mod, fn)
    ck.analysed(mod, fn)
    its = [c for c in calls_in(fn)
           if _callee_names(fi, c) & {'_kcenters_iteration', '_kcenters_iteration_mpi'}]
    n = 0
    seen = set()
    for c in its:
        loop = _enclosing(mod, c, (ast.While, ast.For), stop=fn)
        d = arg_or_kw(c, 2, 'distances')
        if loop is None or not isinstance(d, ast.Name):
            ck.missing(rule, 'kcenters: iteration call outside a loop or distances argument not a plain name: %s' % u(c)[:80])
            continue
        call_st = fi.stmt(c)
        # the conditions under which a trip reaches the iteration call: the
        # test of the while loop and every branch condition inside the loop
        # that dominates the call (if/else nesting, `if <stop>: break` guards)
        conds = _trip_conditions(mod, fi, loop, call_st)
        key = (id(loop), d.id, tuple(id(x[2]) for x in conds))
        if key in seen:
            continue
        seen.add(key)
        if not conds:
            ck.missing(rule, 'kcenters: no condition guards the iteration call in the centre-adding loop: '
                       'cannot see its stopping rule')
            continue
        radius, unknown, stale = [], [], []
        for test, pol, at in conds:
            cs = conjuncts(test, pol)
            if cs is None:
                # a disjunction: it can only restrict the trips further, but it may hide the radius test
                if d.id in names_loaded(test) or any(
                        _max_of(fi, x, d.id, at) != 'no' for x in walk_expr(test) if isinstance(x, ast.Name)):
                    unknown.append(u(test)[:60])
                continue
            for cj in cs:
                less = cj.as_less() if hasattr(cj, 'as_less') else None
                if less is None:
                    # a non-ordering conjunct can only restrict the trips further
                    if not hasattr(cj, 'as_less') or d.id in names_loaded(cj.lhs) | names_loaded(cj.rhs):
                        unknown.append(str(cj))
                    continue
                small, strict, big = less
                kb, ks = _max_of(fi, big, d.id, at), _max_of(fi, small, d.id, at)
                if 'yes' in (kb, ks) and fi.rd.defs_at(at, d.id) != fi.defs_of_use(d):
                    stale.append(cj)        # the array is rebound between this test and the call
                    continue
                if kb == 'yes' and ks == 'no':
                    radius.append((cj, strict, True))
                elif ks == 'yes' and kb == 'no':
                    radius.append((cj, strict, False))
                elif 'unknown' in (kb, ks) or 'yes' in (kb, ks):
                    unknown.append(str(cj))
        n += 1
        shown = ' and '.join(('' if pol else 'not ') + '(%s)' % u(t)[:60] for t, pol, _ in conds)
        good = [r for r in radius if r[1] and r[2]]
        if good:
            ck.ok(rule, mod, loop, str(good[0][0]),
                  'a trip is taken only while the largest distance is strictly above the cutoff: '
                  'the frame selected by argmax is not yet a centre')
        elif radius:
            cj, strict, right = radius[0]
            ck.bad(rule, mod, loop, F, str(cj),
                   'the loop guard lets a trip happen when the largest distance is %s the cutoff; with the default '
                   'cutoff 0 that is the state in which every frame is at distance 0 from its centre (more centres '
                   'requested than distinct frames): argmax then selects a frame that already is a centre, which is '
                   'appended again as a further centre although it keeps its old label' % (
                       'equal to' if right else 'below'))
        elif stale:
            ck.missing(rule, 'kcenters: `%s` is rebound between the radius test `%s` and the iteration call' % (d.id, stale[0]))
            n -= 1
        elif unknown or _escapes_unseen(mod, fi, loop, call_st, conds):
            # (a loop left from inside its body may test the radius there)
            ck.missing(rule, 'kcenters: radius conjunct of the trip condition not recognised: %s' % shown[:160])
            n -= 1
        else:
            ck.bad(rule, mod, loop, F, shown[:160],
                   'the loop guard has no test `cutoff < max(%s)`: trips continue when every frame already is at '
                   'distance 0 from its centre, and argmax re-selects an existing centre frame' % d.id)
    ck.floor(rule, n, 1, 'centre-adding loops with a strict radius test')


# ---------------------------------------------------------------------------
# D2 (argmin branch, shortcut opt-in; the commit itself is in cluster_common)

def d2_argmin_branch(ck):
    """Per-frame branch of assign_to_nearest_center: label = argmin and
    distance = min of the SAME distance vector, stored at the same frame."""
    rule = 'C01.D2.argmin-branch'
    mod = ck.repo.mod(CU)
    F = 'assign_to_nearest_center'
    fn = mod.func(F)
    fi = finfo(mod, fn)
    rets = [e for _, e in _ret_tuples(fi, fn, 2) if e]
    # the exit that hands out the arrays the sweeps store into (other exits are judged by
    # C01.D2.metric-source / C01.D4.result.unpack)
    rets = [e for e in rets if all(isinstance(x, ast.Name) for x in e)] or rets
    if not rets or not all(isinstance(x, ast.Name) for x in rets[0]):
        ck.missing(rule, '%s: `return <labels>, <distances>` not found' % F)
        return
    A, D = rets[0][0].id, rets[0][1].id
    REDUCE = ('argmin', 'argmax', 'min', 'max')

    def reduction(e):
        """(method, canonical operand text) of a reduction over one vector."""
        x = canon(fi.expand(e))
        x = _strip_int(x)
        if isinstance(x, ast.Call) and isinstance(x.func, ast.Attribute) and x.func.attr in REDUCE \
                and not x.args and not [k for k in x.keywords if k.arg != 'axis']:
            return x.func.attr, u(x.func.value)
        if isinstance(x, ast.Call) and _last(call_name(x)) in ('amin', 'amax', 'nanmin', 'nanargmin') and x.args:
            return _last(call_name(x)), u(x.args[0])
        # V[V.argmin()] is the minimum of V (same for max)
        if isinstance(x, ast.Subscript):
            inner = reduction(x.slice)
            if inner is not None and inner[0] in ('argmin', 'argmax') and inner[1] == u(x.value):
                return inner[0][3:], inner[1]
        return None

    n = 0
    for loop in [l for l in walk_local(fn) if isinstance(l, ast.For)]:
        if any(isinstance(x, ast.For) for x in walk_local(loop) if x is not loop):
            continue
        alla = [(s, t, reduction(s.value)) for s, t in subscript_stores(loop, A) if isinstance(s, ast.Assign)]
        alld = [(s, t, reduction(s.value)) for s, t in subscript_stores(loop, D) if isinstance(s, ast.Assign)]
        sa = [x for x in alla if x[2] is not None]
        sd = [x for x in alld if x[2] is not None]
        if not sa and not sd:
            continue
        n += 1
        if len(sa) != 1 or len(sd) != 1:
            if (not sa and alla) or (not sd and alld) or len(sa) > 1 or len(sd) > 1:
                other = [x for x in alla + alld if x[2] is None]
                ck.missing(rule, '%s: per-frame branch: value stored by `%s` is not a recognised reduction' % (
                    F, u((other or alla + alld)[0][0])[:80]))
                n -= 1
                continue
            ck.bad(rule, mod, loop, F, u(loop)[:120],
                   'per-frame branch must store both argmin (label) and min (distance)')
            continue
        (a, ta, ra), (m, tm, rm) = sa[0], sd[0]
        same = ra[1] == rm[1]
        right = ra[0] == 'argmin' and rm[0] in ('min', 'amin')
        same_cell = fi.xu(ta.slice, strict=False) == fi.xu(tm.slice, strict=False)
        ck.check(same and same_cell and right, rule, mod, a, F,
                 '%s ; %s' % (u(a), u(m)),
                 'label = argmin and distance = min of the same distance vector, same frame',
                 'argmin and min must be taken over the same array and stored at the '
                 'same frame index into %s resp. %s' % (A, D))
    ck.floor(rule, n, 1, 'argmin/min branch')


def _guards(mod, fn, stmt):
    """[(test, polarity)] of the if-statements enclosing stmt."""
    out = []
    n, child = mod.parent.get(stmt), stmt
    while n is not None and n is not fn:
        if isinstance(n, ast.If):
            out.append((n.test, any(child is x for x in n.body)))
        elif isinstance(n, (ast.For, ast.While)):
            out.append((None, True))
        child, n = n, mod.parent.get(n)
    return out


def _eval3(e, env):
    """Kleene evaluation of a boolean test: names in `env` have the given
    truth value, every other atom is unknown (None)."""
    if isinstance(e, ast.Constant):
        return bool(e.value)
    if isinstance(e, ast.Name):
        return env.get(e.id)
    if isinstance(e, ast.UnaryOp) and isinstance(e.op, ast.Not):
        v = _eval3(e.operand, env)
        return None if v is None else (not v)
    if isinstance(e, ast.BoolOp):
        vs = [_eval3(x, env) for x in e.values]
        if isinstance(e.op, ast.And):
            return False if False in vs else (None if None in vs else True)
        return True if True in vs else (None if None in vs else False)
    if isinstance(e, ast.Compare) and len(e.ops) == 1 and isinstance(e.ops[0], (ast.Is, ast.IsNot, ast.Eq, ast.NotEq)) \
            and isinstance(e.left, ast.Name) and e.left.id in env and isinstance(e.comparators[0], ast.Constant) \
            and isinstance(e.comparators[0].value, bool):
        same = env[e.left.id] == e.comparators[0].value
        return same if isinstance(e.ops[0], (ast.Is, ast.Eq)) else not same
    return None


def _reach3(guards, env):
    """Can a statement under the if-guards [(test, polarity)] be reached?
    True: every guard certainly lets it through; False: some guard certainly
    blocks it; None: depends on atoms the environment does not fix."""
    vs = []
    for t, pol in guards:
        v = _eval3(t, env)
        vs.append(None if v is None else (v == pol))
    return False if False in vs else (None if None in vs else True)


_ALLOCATORS = ('full', 'empty', 'zeros', 'ones', 'full_like', 'empty_like', 'zeros_like', 'ones_like')


def _not_measured(fi, v, cur):
    """The value is not a measurement against the new centre: a copy / alias of
    the current distances `cur`, or a freshly allocated constant array."""
    t = fi.xu(v)
    if t in ('%s.copy()' % cur, cur, 'copy.copy(%s)' % cur, 'copy.deepcopy(%s)' % cur, '%s[:]' % cur,
             'np.asarray(%s)' % cur, 'np.asanyarray(%s)' % cur, '%s.astype(%s.dtype)' % (cur, cur),
             '%s + 0' % cur, '%s * 1' % cur, '+%s' % cur):
        return True
    x = canon(fi.expand(v))
    return isinstance(x, ast.Call) and (call_name(x) or '').startswith(('np.', 'numpy.')) and \
        _last(call_name(x)) in _ALLOCATORS


def _fully_overwritten(fi, fn, site, name, before):
    """Every cell of the array bound at `site` is overwritten (`name[:] = ...`
    / `name[...] = ...`) on every path from there to `before`."""
    for st, t in subscript_stores(fn, name):
        sl = t.slice
        full = (isinstance(sl, ast.Slice) and sl.lower is None and sl.upper is None and sl.step is None) or \
            (isinstance(sl, ast.Constant) and sl.value is Ellipsis)
        if full and isinstance(st, ast.Assign) and fi.cfg.dominates(site, st) and fi.cfg.dominates(st, before) \
                and fi.cfg.postdominates(st, site):
            return True
    return False


def d2_shortcut_optin(ck):
    """The triangle-inequality shortcut makes the candidate array a COPY of the
    current distances and recomputes only some frames; frames it skips can
    never pass the strict commit test.  That is exact only for true metrics,
    while every clustering entry point accepts arbitrary callables.  The
    shortcut therefore has to be opt-in: guarded by a flag parameter whose
    default is False, handed down unchanged by kcenters(), and not switched
    on by any in-package caller."""
    rule = 'C01.D2.shortcut-optin'
    mod = ck.repo.mod(KC)
    n = 0
    flags = {}
    for F in ('_kcenters_iteration', '_kcenters_iteration_mpi'):
        fn = mod.func(F)
        fi = finfo(mod, fn)
        ck.analysed(mod, fn)
        ps = params(fn)
        for inst in find_running_min_commits(mod, fn):
            new, cur = inst['new'], inst['cur']
            copies = [s for s in assigns_to(fn, new) if isinstance(s, ast.Assign)
                      and fi.def_value(s, new) is not None
                      and _not_measured(fi, fi.def_value(s, new), cur)
                      and not _fully_overwritten(fi, fn, s, new, inst['mask_stmt'])]
            if not copies:
                ck.ok(rule, mod, inst['mask_stmt'], '%s: candidate `%s`' % (F, new),
                      'no shortcut: the candidate array is never a copy of the current distances')
                n += 1
                continue
            for s in copies:
                n += 1
                gs = [(t, pol) for t, pol in _guards(mod, fn, s) if t is not None]
                # candidate flags: parameters used as truth values in the guards, not rebound before
                cands = []
                for t, _ in gs:
                    for x in walk_expr(t):
                        if isinstance(x, ast.Name) and x.id in ps and x.id not in cands and \
                                fi.defs_of_use(x) == {'PARAM'}:
                            cands.append(x.id)
                # opt-in by p: with p false the statement cannot be reached, whatever the other atoms are
                optin = [p for p in cands if _reach3(gs, {p: False}) is False]
                flag = None
                for p in optin:
                    d0 = param_default(fn, p)
                    if flag is None or (isinstance(d0, ast.Constant) and not d0.value):
                        flag = p
                        if isinstance(d0, ast.Constant) and not d0.value:
                            break
                if flag is None:
                    # reachable when every option keeps its default value?
                    env = {}
                    for p in cands:
                        d0 = param_default(fn, p)
                        if isinstance(d0, ast.Constant):
                            env[p] = bool(d0.value)
                    if _reach3(gs, env) is True:
                        ck.bad(rule, mod, s, F, u(s),
                               'the candidate distances start as `%s` and only part of the frames is re-measured '
                               'against the new centre on a path that is taken %s: a frame that is not re-measured '
                               'can never pass the strict commit test, so it keeps its centre although the new one '
                               'may be strictly closer (exact only under the triangle inequality, which has to be '
                               'opted into)' % (u(fi.def_value(s, new))[:40],
                                                'unconditionally' if not gs else 'with every option at its default (%s)' % (
                                                    ', '.join('%s=%s' % kv for kv in sorted(env.items())) or 'no flag involved')))
                    else:
                        ck.missing(rule, '%s: guard of the shortcut `%s` does not depend on a flag parameter in a '
                                   'recognised way' % (F, u(s)[:60]))
                        n -= 1
                    continue
                flags[F] = flag
                dflt = param_default(fn, flag)
                if dflt is None:
                    ck.bad(rule, mod, s, F, '%s(%s)' % (F, flag), 'the shortcut flag `%s` has no default: it must default to False' % flag)
                elif isinstance(dflt, ast.Constant):
                    ck.check(not dflt.value, rule, mod, fn, F, '%s(%s=%s)' % (F, flag, u(dflt)),
                             'shortcut guarded by `%s`, default off' % flag,
                             'the triangle-inequality shortcut is ON by default (`%s=%s`): for a dissimilarity that is not '
                             'a metric, skipped frames keep a centre that is not their nearest' % (flag, u(dflt)))
                else:
                    ck.missing(rule, '%s: default of `%s` is not a constant' % (F, flag))
                    n -= 1
    if not flags:
        ck.floor(rule, n, 2, 'shortcut guards')
        return
    fl = set(flags.values())
    # kcenters(): hands its own flag parameter (default False) down
    fnk = mod.func('kcenters')
    fik = finfo(mod, fnk)
    kflag = None
    calls = [c for c in calls_in(fnk)
             if _callee_names(fik, c) & {'_kcenters_iteration', '_kcenters_iteration_mpi'}]
    for c in calls:
        vals = [k.value for k in c.keywords if k.arg in fl]
        n += 1
        if not vals:
            if len(c.args) > 5:
                ck.missing(rule, 'kcenters: shortcut flag possibly passed positionally: %s' % u(c)[:100])
                n -= 1
            else:
                ck.ok(rule, mod, c, u(c)[:160], 'flag not passed: callee default (off)')
            continue
        v = vals[0]
        verdict, why = _flag_value(mod, fnk, fik, v)
        if verdict == 'param':
            kflag = v.id
        _record_flag(ck, rule, mod, c, 'kcenters', verdict, why, v)
        if verdict == 'unknown':
            n -= 1
    # every in-package call of the driver
    sites = 0
    for rel in (KC, KM, HY, CU, AP):
        m = ck.repo.mod(rel)
        for q, f in m.functions.items():
            for c in calls_in(f):
                cn = call_name(c) or ''
                if _last(cn) not in ('kcenters', 'kcenters_mpi') or (
                        '.' in cn and cn.split('.')[-2] not in ('kcenters', 'cluster')):
                    continue
                fi2 = finfo(m, f)
                ck.analysed(m, f)
                sites += 1
                names = ({kflag} if kflag else set()) | fl
                vals = [k.value for k in c.keywords if k.arg in names]
                pos = params(fnk).index(kflag) if kflag in params(fnk) else None
                if not vals and pos is not None and len(c.args) > pos and \
                        not any(isinstance(a, ast.Starred) for a in c.args):
                    vals = [c.args[pos]]
                if not vals:
                    ck.ok(rule, m, c, u(c)[:160], 'shortcut not requested: default (off)')
                    continue
                verdict, why = _flag_value(m, f, fi2, vals[0])
                _record_flag(ck, rule, m, c, q, verdict, why, vals[0])
    n += sites
    ck.floor(rule, sites, 3, 'in-package calls of kcenters()')
    ck.floor(rule + '.guards', n - sites, 3, 'shortcut guards and hand-down')


def _flag_value(mod, fn, fi, v):
    """Classify the value passed for the shortcut flag."""
    if isinstance(v, ast.Constant):
        return ('off', 'constant %r' % (v.value,)) if not v.value else ('on', 'constant %r' % (v.value,))
    if isinstance(v, ast.Name):
        try:
            defs = fi.defs_of_use(v)
        except Exception:
            defs = set()
        if defs == {'PARAM'}:
            d = param_default(fn, v.id)
            if isinstance(d, ast.Constant) and not d.value:
                return 'param', 'caller\'s own option `%s` (default %s)' % (v.id, u(d))
            if isinstance(d, ast.Constant):
                return 'on', 'caller\'s option `%s` defaults to %s' % (v.id, u(d))
            return 'unknown', 'option `%s` without constant default' % v.id
        r = fi.resolve(v)
        if r is not v:
            return _flag_value(mod, fn, fi, r)
    return 'unknown', 'value `%s` not recognised' % u(v)[:60]


def _record_flag(ck, rule, mod, call, q, verdict, why, v):
    if verdict in ('off', 'param'):
        ck.ok(rule, mod, call, u(call)[:160], 'shortcut flag: %s' % why)
    elif verdict == 'on':
        ck.bad(rule, mod, call, q, u(call)[:200],
               'this call switches the triangle-inequality shortcut of k-centers ON (%s) although the '
               'dissimilarity is whatever callable the user supplied: frames with d(x, own centre) <= '
               'd(own centre, new centre)/2 are not re-measured, which is exact only for a true metric; '
               'for e.g. squared distances they keep a centre although the new one is strictly closer' % why)
    else:
        ck.missing(rule, '%s: %s in %s' % (q, why, u(call)[:100]))


# ---------------------------------------------------------------------------
# D3

def _pam_masks(ck, rule, mod, fn, fi, ro):
    """{key: {'a': [(stmt, target)], 'd': [...], 'tree', 'expr'}} for the
    stores into the candidate label / distance arrays, keyed by the canonical
    text of the expanded index (mask) expression."""
    loop = ro['loop']
    out = {}
    for kind, base in (('a', ro['NA']), ('d', ro['ND'])):
        for s, t in subscript_stores(loop, base):
            if not isinstance(s, ast.Assign):
                continue
            ex = canon(fi.expand(t.slice, strict=False))
            key = u(ex)
            e = out.setdefault(key, {'a': [], 'd': [], 'expr': ex, 'tree': mask_atoms(ex),
                                     'shown': u(t.slice)})
            e[kind].append((s, t))
    return out


def _const_alloc(fi, v):
    """`np.<allocator>(...)` possibly shifted/scaled by constants: every cell
    holds the same sentinel value."""
    x = canon(fi.expand(v))
    while isinstance(x, ast.BinOp) and (const_value(x.right) is not None or const_value(x.left) is not None):
        x = x.left if const_value(x.right) is not None else x.right
    while isinstance(x, ast.Call) and isinstance(x.func, ast.Attribute) and x.func.attr == 'astype':
        x = x.func.value
    return isinstance(x, ast.Call) and (call_name(x) or '').startswith(('np.', 'numpy.')) and \
        _last(call_name(x)) in _ALLOCATORS


def d3_pam_three_way(ck):
    rule = 'C01.D3.pam'
    mod = ck.repo.mod(KM)
    F = '_kmedoids_pam_update'
    fn = mod.func(F)
    fi = finfo(mod, fn)
    ck.analysed(mod, fn)
    ro = _pam_roles(ck, rule, mod, fn, fi)
    if ro is None:
        return
    masks = _pam_masks(ck, rule, mod, fn, fi, ro)
    if not any(e['a'] for e in masks.values()) or not any(e['d'] for e in masks.values()):
        ck.missing(rule, 'stores into %s/%s not found' % (ro['NA'], ro['ND']))
        return
    # (1) each mask writes both arrays
    for key in sorted(masks):
        e = masks[key]
        both = bool(e['a']) and bool(e['d'])
        node = (e['a'] or e['d'])[0][0]
        m = e['shown']
        ck.check(both, rule + '.both', mod, node, F, 'mask %s' % m,
                 'labels and distances are both written under mask %s' % m,
                 'mask `%s` writes %s but not %s: candidate labels and distances '
                 'would describe different clusterings' % (
                     m, 'labels' if e['a'] else 'distances',
                     'distances' if e['a'] else 'labels'))
    trees = {k: e for k, e in masks.items() if e['a'] and e['d']}
    # the truth-table rules below speak about ALL writers of the candidate
    # arrays: each must start from a constant (sentinel) allocation inside the
    # per-centre loop and be written by masked stores only
    for nm in (ro['NA'], ro['ND']):
        defs = [x for x in assigns_to(ro['loop'], nm)]
        vals = [fi.def_value(x, nm) if isinstance(x, ast.Assign) else None for x in defs]
        if len(defs) != 1 or vals[0] is None or not _const_alloc(fi, vals[0]):
            ck.missing(rule + '.exhaustive', '%s: candidate array `%s` is not one constant allocation per trip followed by '
                       'masked stores (%d definitions in the per-centre loop): the mask family is not the whole update' % (
                           F, nm, len(defs)))
            return
        others = [c for c in calls_in(ro['loop']) if _last(call_name(c)) in ('copyto', 'putmask', 'place', 'put')
                  and c.args and isinstance(c.args[0], ast.Name) and c.args[0].id == nm] + [
                  c for c in calls_in(ro['loop']) if any(k.arg == 'out' and isinstance(k.value, ast.Name)
                                                         and k.value.id == nm for k in c.keywords)]
        if others:
            ck.missing(rule + '.exhaustive', '%s: candidate array `%s` is also written by %s' % (F, nm, u(others[0])[:60]))
            return
    # (2) exhaustiveness of the mask family over its atoms
    keys = []
    for k, e in trees.items():
        for a in mask_keys(e['tree']):
            if a not in keys:
                keys.append(a)
    if len(keys) > 6:
        raise AnalysisIncomplete('too many atoms in PAM masks')
    uncovered = []
    for vals in itertools.product([False, True], repeat=len(keys)):
        asg = dict(zip(keys, vals))
        if not any(eval_mask(e['tree'], asg) for e in trees.values()):
            uncovered.append(asg)
    ck.check(not uncovered, rule + '.exhaustive', mod, fn, F,
             'masks: ' + '; '.join('%s := %s' % (e['shown'], k) for k, e in trees.items()),
             'the %d masks cover all %d truth assignments of the atoms %s' % (
                 len(trees), 2 ** len(keys), ['%s %s %s' % k for k in keys]),
             'frames with %s are covered by no reassignment mask and keep the '
             'sentinel label/distance -1' % (
                 ['%s' % {'%s %s %s' % k: v for k, v in a.items()} for a in uncovered][:2]))
    # (2b) pairwise disjointness: a frame selected by two masks is written twice
    # and keeps whatever the LATER store wrote, regardless of which case applies
    names = list(trees)
    for i in range(len(names)):
        for j in range(i + 1, len(names)):
            both = []
            for vals in itertools.product([False, True], repeat=len(keys)):
                asg = dict(zip(keys, vals))
                if eval_mask(trees[names[i]]['tree'], asg) and eval_mask(trees[names[j]]['tree'], asg):
                    both.append(asg)
            si, sj = trees[names[i]]['shown'], trees[names[j]]['shown']
            ck.check(not both, rule + '.disjoint', mod, trees[names[j]]['a'][0][0], F,
                     '%s := %s  vs  %s := %s' % (si, names[i], sj, names[j]),
                     'the two masks select disjoint frame sets',
                     'masks `%s` and `%s` overlap (e.g. when %s): those frames are written by both '
                     'cases and keep the later one, e.g. the old label although the proposal is strictly '
                     'nearer' % (si, sj, {'%s %s %s' % k: v for k, v in both[0].items()} if both else ''))
    # (3) paired sources per mask
    srcs = []
    for key, e in trees.items():
        a_st, d_st = e['a'][0][0], e['d'][0][0]
        verdict, why, src = _paired_sources(mod, fn, fi, ro, key, e, a_st.value, d_st.value)
        construct = '%s ; %s' % (u(a_st), u(d_st))
        if src:
            srcs.append(src)
        if verdict == 'unknown':
            ck.missing(rule + '.sources', '%s (%s)' % (why, construct[:120]))
        else:
            ck.check(verdict == 'ok', rule + '.sources', mod, a_st, F, construct, why, why)
    ck.floor(rule + '.both', len(trees), 3, 'PAM masks')
    d3_pam_case_a(ck, mod, fn, fi, ro, srcs)


def _paired_sources(mod, fn, fi, ro, key, e, av, dv):
    """-> ('ok'|'bad'|'unknown', detail, candidate-distance array name|None)"""
    m = e['shown']
    tree = e['tree']
    cid, A, D = ro['cid'], ro['A'], ro['D']
    avx = canon(fi.expand(av, strict=False))
    dvx = canon(fi.expand(dv, strict=False))

    def under_mask(x):
        return isinstance(x, ast.Subscript) and isinstance(x.value, ast.Name) and u(x.slice) == key
    # case A: (cid, new_ctr_dist[m])
    is_a = under_mask(dvx) and (dvx.value.id in ro['SRC'] or (isinstance(avx, ast.Name) and avx.id == cid))
    if not is_a and under_mask(dvx) and isinstance(avx, ast.Name) and avx.id in ro['params']:
        is_a = True
    if is_a:
        src = dvx.value.id
        lv = classify(avx, [cid], scope={cid} | set(ro['params']))
        if lv[0] == 'far':
            return 'unknown', 'label `%s` written with the candidate distances %s[%s] not recognised' % (u(av)[:40], src, m), src
        if lv[0] == 'near':
            return 'bad', ('frames nearer to the proposal must take the label of the '
                           'centre being replaced (loop variable `%s`), not `%s`' % (cid, u(avx)[:40])), src
        if tree[0] != 'atom':
            return 'bad', 'mask %s for the nearer-to-proposal case is not a single comparison' % m, None
        less = tree[1].as_less()
        if less is None or u(less[0]) != src:
            return 'bad', ('mask %s must select frames where the candidate distance `%s` '
                           'is below the current distance; it is `%s`' % (m, src, tree[1])), src
        cur = u(less[2])
        if cur != D:
            return 'bad', 'mask %s compares against `%s`, not the current distances `%s`' % (m, cur, D), src
        return 'ok', 'label %s with candidate distances %s[%s] where %s' % (cid, src, m, tree[1]), src
    # case B: (assignments[m], distances[m])
    if under_mask(avx) and under_mask(dvx):
        a_src, d_src = avx.value.id, dvx.value.id
        if (a_src, d_src) == (A, D):
            return 'ok', 'old labels %s[%s] with old distances %s[%s]' % (a_src, m, d_src, m), None
        known = {A, D, ro['NA'], ro['ND']} | set(ro['params']) | ro['SRC']
        if a_src in known and d_src in known:
            return 'bad', ('frames that stay with another centre must keep (%s[%s], %s[%s]); '
                           'found (%s[%s], %s[%s])' % (A, m, D, m, a_src, m, d_src, m)), None
        return 'unknown', 'sources %s/%s of mask %s not recognised' % (a_src, d_src, m), None
    # case C: both from one assign_to_nearest_center call
    ca, cd = _component(fi, av, fi.stmt(av)), _component(fi, dv, fi.stmt(dv))
    if ca is not None and cd is not None and ca[0] is cd[0] and \
            _last(call_name(ca[0])) == 'assign_to_nearest_center':
        call = ca[0]
        if (ca[1], cd[1]) == (1, 0):
            return 'bad', ('assign_to_nearest_center returns (assignments, distances); element 1 is stored as '
                           'labels and element 0 as distances under mask %s' % m), None
        if (ca[1], cd[1]) != (0, 1):
            return 'bad', ('labels=%s / distances=%s are not the (assignments, distances) pair returned by %s' % (
                u(av)[:30], u(dv)[:30], u(call)[:60])), None
        return _sweep_args(fi, ro, key, m, call)
    if isinstance(av, ast.Name) and isinstance(dv, ast.Name):
        da, dd = fi.defs_of_use(av), fi.defs_of_use(dv)
        if len(da) == 1 and da == dd:
            site = next(iter(da))
            if isinstance(site, ast.Assign) and isinstance(site.targets[0], ast.Tuple) \
                    and isinstance(site.value, ast.Call) and \
                    _last(call_name(site.value)) == 'assign_to_nearest_center':
                names = target_names(site.targets[0])
                if names == [av.id, dv.id]:
                    return _sweep_args(fi, ro, key, m, site.value)
                if names == [dv.id, av.id]:
                    return 'bad', ('assign_to_nearest_center returns (assignments, distances); '
                                   'unpacked as %s but stored as labels=%s distances=%s' % (
                                       names, av.id, dv.id)), None
                return 'bad', ('labels=%s / distances=%s are not the pair unpacked from %s' % (
                    av.id, dv.id, u(site)[:80])), None
            return 'unknown', 'common definition of %s/%s not recognised: %s' % (av.id, dv.id, u(site)[:80]), None
        sa = {_last(call_name(s.value)) for s in da if isinstance(s, ast.Assign) and isinstance(s.value, ast.Call)}
        sd = {_last(call_name(s.value)) for s in dd if isinstance(s, ast.Assign) and isinstance(s.value, ast.Call)}
        if sa == sd == {'assign_to_nearest_center'}:
            return 'bad', 'labels and distances for mask %s come from different computations' % m, None
        return 'unknown', 'sources (%s, %s) for mask %s not recognised' % (av.id, dv.id, m), None
    return 'unknown', 'unrecognised source pair (%s, %s) for mask %s' % (u(av), u(dv), m), None


def _sweep_args(fi, ro, key, m, call):
    """The ambiguity sweep measures exactly the frames of the mask it is
    stored under, against the CANDIDATE centre list."""
    data = arg_or_kw(call, 0, 'trajectory')
    ctrs = arg_or_kw(call, 1, 'cluster_centers')
    if data is None or ctrs is None:
        return 'unknown', 'arguments of %s not recognised' % u(call)[:80], None
    dx = canon(fi.expand(data, strict=False))
    if not (isinstance(dx, ast.Subscript) and u(dx.value) == ro['X']):
        return 'unknown', 'frames recomputed by %s not recognised' % u(call)[:80], None
    if u(dx.slice) != key:
        return 'bad', ('ambiguous frames are recomputed for %s but stored '
                       'under mask %s' % (u(data), m)), None
    if isinstance(ctrs, ast.Name) and ctrs.id == ro['Cc']:
        return 'bad', ('ambiguous frames are assigned against the CURRENT centre list `%s`, not the '
                       'candidate list `%s` that contains the proposal' % (ro['Cc'], ro['N'])), None
    if not (isinstance(ctrs, ast.Name) and ctrs.id == ro['N']):
        return 'unknown', 'centre list `%s` of the ambiguity sweep not recognised' % u(ctrs)[:60], None
    return 'ok', ('(labels, distances) taken in order from one '
                  'assign_to_nearest_center(%s, %s) call' % (u(data), u(ctrs))), None


def d3_pam_case_a(ck, mod, fn, fi, ro, srcs):
    """The candidate distances compared by the 'closer to proposal' mask are
    metric(X, proposal), the per-centre loop visits every centre, and the
    candidate centre list passed to the ambiguity sweep is a COPY of the
    current list with the proposal at that id."""
    rule = 'C01.D3.pam.atoms'
    F = '_kmedoids_pam_update'
    loop, cid = ro['loop'], ro['cid']
    I, Cc, N, X, metric = ro['I'], ro['Cc'], ro['N'], ro['X'], ro['metric']
    forms = ['range(len(%s))' % I, 'range(0, len(%s))' % I, 'range(len(%s))' % Cc, 'range(0, len(%s))' % Cc]
    if isinstance(loop.target, ast.Tuple):
        forms = ['enumerate(%s)' % I, 'enumerate(%s)' % Cc, 'enumerate(%s, start=0)' % I, 'enumerate(%s, start=0)' % Cc]
    v = classify(fi.expand(loop.iter), forms, scope={I, Cc})
    ck.decide(v, rule, mod, loop, F, 'for %s in %s' % (cid, u(loop.iter)),
              'one update per current centre', 'per-centre loop must range over len(%s)' % I)
    # the proposal: what is stored at N[cid]
    props = [s.value for s, t in subscript_stores(loop, N) if isinstance(s, ast.Assign)]
    srcs = sorted(set(srcs))
    if len(srcs) != 1:
        ck.missing(rule, 'candidate-distance array of the nearer-to-proposal case not identified')
    else:
        SRC = srcs[0]
        defs = [s for s in assigns_to(loop, SRC) if isinstance(s, ast.Assign)]
        if len(defs) != 1 or fi.def_value(defs[0], SRC) is None:
            ck.missing(rule, 'single definition of the candidate distances `%s` in the per-centre loop not found' % SRC)
        else:
            val = fi.def_value(defs[0], SRC)
            if isinstance(val, ast.Call) and isinstance(val.func, ast.Name) and val.func.id == metric:
                a0 = arg_or_kw(val, 0, None)
                a1 = arg_or_kw(val, 1, None)
                ok = len(val.args) == 2 and not val.keywords and u(a0) == X and len(props) == 1 and \
                    isinstance(a1, ast.Name) and isinstance(props[0], ast.Name) and a1.id == props[0].id and \
                    fi.defs_of_use(a1) == fi.defs_of_use(props[0])
                ck.check(ok, rule, mod, defs[0], F, u(defs[0]),
                         'candidate distances = metric(X, proposed centre)',
                         'candidate distances must be %s(%s, <the proposed centre stored at %s[%s]>)' % (metric, X, N, cid))
            else:
                ck.missing(rule, 'definition of the candidate distances is not a call of the metric parameter: %s' % u(defs[0])[:100])
    # N = Cc.copy()
    nm = [s for s in assigns_to(loop, N) if isinstance(s, ast.Assign)]
    if len(nm) != 1 or fi.def_value(nm[0], N) is None:
        ck.missing('C01.D3.pam.candidate-copy', 'single definition of the candidate centre list `%s` not found' % N)
        return
    copies = ['%s.copy()' % Cc, 'list(%s)' % Cc, 'copy.copy(%s)' % Cc, '%s[:]' % Cc,
              'copy.deepcopy(%s)' % Cc, '[_E for _E in %s]' % Cc, '%s + []' % Cc, '[*%s]' % Cc]
    v = classify(fi.def_value(nm[0], N), copies, scope={Cc})
    ck.decide(v, 'C01.D3.pam.candidate-copy', mod, nm[0], F, u(nm[0]),
              'candidate centre list is a fresh copy of the current one',
              'the candidate centre list must be a COPY of %s: if it aliases '
              'the current list, `%s[%s] = <proposal>` commits the '
              'proposal before the accept/reject decision' % (Cc, N, cid))


# ---------------------------------------------------------------------------
# D4

_ROLE_TOKENS = {'center_indices': ('center_ind', 'ctr_ind', 'medoid_ind', 'pred_centers', 'cluster_center_inds', 'int_indcs', 'center_indices'),
                'assignments': ('assig', 'assignments'),
                'distances': ('dist',),
                'centers': ('centers', 'medoid_coords', 'centers_')}


# return order of the in-package producers (None: not one of the four fields)
_RETURN_ROLES = {
    'assign_to_nearest_center': ('assignments', 'distances'),
    '_kcenters_iteration': (None, 'distances', 'assignments', 'center_indices'),
    '_kcenters_iteration_mpi': (None, 'distances', 'assignments', 'center_indices'),
    '_kmedoids_pam_update': ('center_indices', 'distances', 'assignments', 'centers'),
}


def _roles_of_text(txt):
    return {f for f, toks in _ROLE_TOKENS.items() if any(t in txt for t in toks)}


def _role_verdict(fi, field, v):
    """Role typing of a value passed as ClusterResult(<field>=v): by the
    vocabulary of its text, then of what it is computed from.  -> ok/bad/unknown"""
    # by def-use first: element k of the result of a producer whose return
    # order is fixed (checked by D1/D4 at the producer), or a field of a result
    try:
        r = _component(fi, v, fi.stmt(v))
    except Exception:
        r = None
    def producer_role(r):
        if r is None or not isinstance(r[1], int):
            return None
        order = _RETURN_ROLES.get(_last(call_name(r[0])))
        if order is None and isinstance(r[0].func, (ast.Name, ast.IfExp)):
            orders = {_RETURN_ROLES.get(x) for x in _callee_names(fi, r[0])}
            order = orders.pop() if len(orders) == 1 else None
        if order is not None and r[1] < len(order):
            return order[r[1]]
        return None
    role = producer_role(r)
    if role is not None:
        return 'ok' if role == field else 'bad'
    if isinstance(v, ast.Name):
        # several reaching definitions (initialisation + loop-carried update):
        # every one that is an element of a producer's result must agree
        try:
            sites = [x for x in fi.defs_of_use(v) if x not in ('PARAM', 'UNBOUND')]
        except Exception:
            sites = []
        roles = {producer_role(_component_def(fi, x, v.id)) for x in sites} - {None}
        if len(roles) == 1:
            return 'ok' if roles == {field} else 'bad'
        if len(roles) > 1:
            return 'bad'
    x = fi.resolve(v) if isinstance(v, ast.Name) else v
    if isinstance(x, ast.Attribute) and x.attr in _ROLE_TOKENS and isinstance(x.value, ast.Name) and \
            'result' in x.value.id.lower():
        return 'ok' if x.attr == field else 'bad'
    texts = [u(v)]
    try:
        texts.append(u(fi.expand(v)))
        ps, calls = fi.derives_from(v)
        texts.append(' '.join(sorted(ps)) + ' ' + ' '.join(sorted(calls)))
    except Exception:
        pass
    for t in texts:
        roles = _roles_of_text(t)
        if roles:
            # the most direct description that carries a role decides
            return 'ok' if field in roles else 'bad'
    return 'unknown'


# ---------------------------------------------------------------------------
# D4: the fitted attributes are functions of the CURRENT result_

_PROPS = {'labels_': 'assignments', 'distances_': 'distances',
          'center_indices_': 'center_indices', 'centers_': 'centers'}
_MEMO_DECOS = {'cached_property', 'lru_cache', 'cache', 'memoize', 'memoized', 'cached', 'memo'}
_RES = 'result_'


def _recv_attr_read(e, me):
    """Attribute name A when expression `e` IS a read of attribute A of the
    receiver: `me.A`, `getattr(me, 'A'[, default])`; None otherwise."""
    if isinstance(e, ast.Attribute) and isinstance(e.value, ast.Name) and e.value.id == me:
        return e.attr
    if isinstance(e, ast.Call) and call_name(e) == 'getattr' and len(e.args) in (2, 3) and not e.keywords \
            and isinstance(e.args[0], ast.Name) and e.args[0].id == me and isinstance(const_value(e.args[1]), str):
        return const_value(e.args[1])
    return None


def _recv_attrs_in(e, me):
    """Every attribute of the receiver an expression reads or tests
    (`me.A`, getattr/hasattr(me, 'A'), `'A' in me.__dict__` -> A and __dict__)."""
    out = set()
    for x in ast.walk(e):
        a = _recv_attr_read(x, me)
        if a is not None:
            out.add(a)
        if isinstance(x, ast.Call) and call_name(x) in ('hasattr', 'getattr', 'vars') and x.args and \
                isinstance(x.args[0], ast.Name) and x.args[0].id == me:
            if len(x.args) > 1 and isinstance(const_value(x.args[1]), str):
                out.add(const_value(x.args[1]))
            else:
                out.add('__dict__')
    if '__dict__' in out:
        out |= {x.value for x in ast.walk(e) if isinstance(x, ast.Constant) and isinstance(x.value, str)}
    return out


def _recv_attr_writes(fn, me, attr):
    """[(statement, kind, value)] for every statement of `fn` that may change
    attribute `attr` of the receiver `me`.  kind: 'store' (value = the stored
    expression) | 'delete' | 'unknown' (an update the rule cannot read:
    augmented store, `me.__dict__.update(..)`, setattr with a computed name)."""
    out = []

    def targets(t):
        if isinstance(t, (ast.Tuple, ast.List)):
            for x in t.elts:
                yield from targets(x)
        elif isinstance(t, ast.Starred):
            yield from targets(t.value)
        else:
            yield t

    def is_attr(t):
        return isinstance(t, ast.Attribute) and isinstance(t.value, ast.Name) and t.value.id == me and t.attr == attr

    def is_dict_item(t):
        return isinstance(t, ast.Subscript) and (
            (isinstance(t.value, ast.Attribute) and t.value.attr == '__dict__' and isinstance(t.value.value, ast.Name)
             and t.value.value.id == me) or
            (isinstance(t.value, ast.Call) and call_name(t.value) == 'vars' and len(t.value.args) == 1
             and isinstance(t.value.args[0], ast.Name) and t.value.args[0].id == me))

    for s in walk_local(fn):
        if isinstance(s, ast.Assign):
            for t0 in s.targets:
                plain = not isinstance(t0, (ast.Tuple, ast.List))
                for t in targets(t0):
                    if is_attr(t) or (is_dict_item(t) and const_value(t.slice) == attr):
                        out.append((s, 'store' if plain else 'unknown', s.value if plain else None))
                    elif is_dict_item(t) and not isinstance(const_value(t.slice), str):
                        out.append((s, 'unknown', None))
        elif isinstance(s, ast.AnnAssign) and s.value is not None and is_attr(s.target):
            out.append((s, 'store', s.value))
        elif isinstance(s, ast.AugAssign) and is_attr(s.target):
            out.append((s, 'unknown', None))
        elif isinstance(s, ast.Delete):
            for t in s.targets:
                if is_attr(t) or (is_dict_item(t) and const_value(t.slice) == attr):
                    out.append((s, 'delete', None))
        elif isinstance(s, (ast.With, ast.For)):
            hdr = [i.optional_vars for i in s.items if i.optional_vars is not None] if isinstance(s, ast.With) else [s.target]
            for t0 in hdr:
                if any(is_attr(t) for t in targets(t0)):
                    out.append((s, 'unknown', None))
    for c in calls_in(fn):
        cn = call_name(c) or ''
        first_me = bool(c.args) and isinstance(c.args[0], ast.Name) and c.args[0].id == me
        st = None
        if cn in ('setattr', 'object.__setattr__') and first_me and len(c.args) == 3:
            nm = const_value(c.args[1])
            if nm == attr:
                st = ('store', c.args[2])
            elif not isinstance(nm, str):
                st = ('unknown', None)
        elif cn in ('delattr', 'object.__delattr__') and first_me and len(c.args) == 2:
            nm = const_value(c.args[1])
            if nm == attr:
                st = ('delete', None)
            elif not isinstance(nm, str):
                st = ('unknown', None)
        elif isinstance(c.func, ast.Attribute) and isinstance(c.func.value, ast.Attribute) and \
                c.func.value.attr == '__dict__' and isinstance(c.func.value.value, ast.Name) and \
                c.func.value.value.id == me:
            if c.func.attr in ('pop', 'popitem', 'clear', 'update', 'setdefault', '__setitem__', '__delitem__'):
                key = const_value(c.args[0]) if c.args else None
                if c.func.attr in ('pop', '__delitem__') and key == attr:
                    st = ('delete', None)
                elif c.func.attr == 'clear':
                    st = ('delete', None)
                elif c.func.attr in ('pop', '__delitem__', 'setdefault', '__setitem__') and isinstance(key, str) and key != attr:
                    st = None
                else:
                    st = ('unknown', None)
        if st is not None:
            stmt = c
            out.append((stmt, st[0], st[1]))
    return out


def _refit_sites(ck, owner_cls):
    """[(module, qualname, fn, receiver, [statements that store receiver.result_])]
    for the methods of the estimator classes (classes that list `owner_cls`
    among their bases, and `owner_cls` itself) that store a new result_."""
    out, opaque = [], []
    for rel in (KC, KM, HY, CU):
        mod = ck.repo.mod(rel)
        for cq, cls in mod.classes.items():
            if cq != owner_cls and not any(_last(u(b)) == owner_cls for b in cls.bases):
                continue
            for q, fn in mod.functions.items():
                if not q.startswith(cq + '.') or '.' in q[len(cq) + 1:]:
                    continue
                if fn.name in ('__setattr__', '__getattr__', '__getattribute__', '__delattr__') or fn.name == _RES:
                    opaque.append('%s::%s' % (rel, q))
                ps = params(fn)
                if not ps:
                    continue
                st = [s for s, k, v in _recv_attr_writes(fn, ps[0], _RES)]
                if st:
                    out.append((mod, q, fn, ps[0], st))
    return out, opaque


def _memo_invalidation(ck, fi_of, sites, attr, field):
    """Is attribute `attr` of the estimator reset whenever a new result_ is
    stored?  -> {'reset': [q], 'kept': [(mod, q, stmt)], 'unknown': [text]}"""
    res = {'reset': [], 'kept': [], 'unknown': []}
    for mod, q, fn, me, stores in sites:
        fi = fi_of(mod, fn)
        cfg = fi.cfg
        ws = _recv_attr_writes(fn, me, attr)
        resets, bad = [], False
        for s, kind, v in ws:
            st = s if isinstance(s, ast.stmt) else fi.stmt(s)
            if kind == 'delete' or (kind == 'store' and isinstance(v, ast.Constant) and v.value is None):
                resets.append(st)
            elif kind == 'store' and v is not None and fi.xu(v) == '%s.%s.%s' % (me, _RES, field) and \
                    any(cfg.dominates(r if isinstance(r, ast.stmt) else fi.stmt(r), st) for r in stores):
                resets.append(st)
            else:
                bad = True
        # calls on the receiver that the rule cannot see through may reset it too
        helpers = [c for c in calls_in(fn) if isinstance(c.func, ast.Attribute) and isinstance(c.func.value, ast.Name)
                   and c.func.value.id == me and not c.func.attr.startswith('__')]
        if bad:
            res['unknown'].append('%s writes `%s.%s` in a way that is not recognised as a reset' % (q, me, attr))
            continue
        raises = [x for x in walk_local(fn) if isinstance(x, ast.Raise)]
        kept = None
        for r in stores:
            rs = r if isinstance(r, ast.stmt) else fi.stmt(r)
            if rs in resets:
                continue
            if cfg.reachable('ENTRY', rs, avoiding=resets) and cfg.reachable(rs, 'EXIT', avoiding=resets + raises):
                kept = rs
        if kept is None:
            res['reset'].append(q)
        elif helpers and not ws:
            res['unknown'].append('%s stores %s.%s and calls %s, which may or may not reset `%s`' % (
                q, me, _RES, u(helpers[0])[:50], attr))
        else:
            res['kept'].append((mod, q, kept))
    return res


def _field_verdict(fi, e, me, field):
    """classify `e` against `me.result_.<field>`: another field of the result is a
    different function of the same operand (near), anything else is not recognised."""
    x = fi.expand(e)
    v = classify(x, ['%s.%s.%s' % (me, _RES, field)], scope={me})
    if v[0] == 'match':
        return v
    if fi.xu(e).startswith('%s.%s.' % (me, _RES)):
        return ('near', v[1], v[2])
    return ('far', v[1], v[2])


def _d4_props(ck, rule, modu):
    """Estimator attributes labels_/distances_/center_indices_/centers_: on
    every returning path the value is field <f> of the receiver's CURRENT
    result_.  A value carried over from an earlier call in another attribute
    of the receiver (memo filled on first read, cached_property) is only
    current if every method that stores a new result_ resets it."""
    OWNER = 'MolecularClusterMixin'
    prule, frule = rule + '.props', rule + '.props.fresh'

    def fi_of(mod, fn):
        return finfo(mod, fn)
    sites = opaque = None
    for prop, field in _PROPS.items():
        q = '%s.%s' % (OWNER, prop)
        fn = modu.functions.get(q)
        if fn is None:
            ck.missing(rule, 'property %s missing' % prop)
            continue
        ck.analysed(modu, fn)
        ps = params(fn)
        if len(ps) != 1:
            ck.missing(prule, 'property %s: receiver parameter not found' % prop)
            continue
        me = ps[0]
        fi = finfo(modu, fn)
        cfg = fi.cfg
        decos = [_last(call_name(d) if isinstance(d, ast.Call) else u(d)) for d in fn.decorator_list]
        rets = [r for r in returns_of(fn) if r.value is not None]
        if not rets or len(rets) != len(returns_of(fn)):
            ck.missing(prule, 'property %s: `return <value>` not found on every path' % prop)
            continue
        if sites is None:
            sites, opaque = _refit_sites(ck, OWNER)

        def carried(attr, node, construct, filled_here):
            """Decide a value that survives in `me.attr` from an earlier call."""
            if opaque:
                ck.missing(frule, '%s: attribute access of the estimator is customised (%s)' % (q, opaque[0]))
                return
            if not sites:
                ck.missing(frule, '%s: no method that stores `%s` found' % (q, _RES))
                return
            inv = _memo_invalidation(ck, fi_of, sites, attr, field)
            if inv['unknown']:
                ck.missing(frule, '%s: %s' % (q, inv['unknown'][0]))
            elif inv['kept']:
                m_, q_, st_ = inv['kept'][0]
                ck.bad(frule, modu, node, q, construct,
                       '%s hands out a value kept in `%s.%s` from an earlier call (%s) instead of field `%s` of the current '
                       '`%s.%s`; %s stores a new %s without resetting `%s` (%s): after a second fit on the same '
                       'estimator %s still describes the FIRST fit while the other fitted attributes describe the new '
                       'one (centres are no longer the frames at center_indices_, labels may exceed the number of '
                       'centres)' % (prop, me, attr, filled_here, field, me, _RES,
                                     ', '.join(sorted(x[1] for x in inv['kept'])), _RES, attr, m_.loc(st_), prop))
            else:
                ck.ok(frule, modu, node, construct, 'kept value is reset by every method that stores %s: %s' % (
                    _RES, ', '.join(sorted(inv['reset']))))

        memo_decos = [d for d in decos if d in _MEMO_DECOS]
        if memo_decos:
            if memo_decos == ['cached_property'] and decos == ['cached_property']:
                carried(prop, fn, '@%s %s' % (u(fn.decorator_list[0])[:40], q),
                        'functools.cached_property stores the first value in the instance dictionary')
            elif not any(_last(call_name(c)) == 'cache_clear' for s in sites for c in calls_in(s[2])):
                ck.bad(frule, modu, fn, q, '@%s %s' % (memo_decos[0], q),
                       'the accessor is memoised per estimator object (%s) and no method that stores a new %s clears '
                       'the cache: after a second fit %s still describes the first fit' % (memo_decos[0], _RES, prop))
            else:
                ck.missing(frule, '%s: memoising decorator %s with cache_clear somewhere: not decided' % (q, memo_decos[0]))
            if decos != ['cached_property'] and 'property' not in decos:
                continue
        elif decos != ['property']:
            ck.missing(prule, 'property %s: decorators %s not recognised (expected @property)' % (prop, decos))
            continue

        tests = [x.test for x in ast.walk(fn) if isinstance(x, (ast.If, ast.IfExp, ast.While, ast.Assert))]
        for r in rets:
            construct = u(r)
            x = fi.expand(r.value)
            hidden = _recv_attrs_in(x, me) - {_RES}
            if not hidden:
                ck.decide(_field_verdict(fi, r.value, me, field), prule, modu, fn, q, construct,
                          '%s -> result_.%s' % (prop, field),
                          'estimator attribute %s must expose result_.%s' % (prop, field))
                continue
            attr = _recv_attr_read(x, me)
            if attr is None or len(hidden) != 1 or attr == '__dict__':
                ck.missing(prule, 'property %s: returned value combines other attributes of the estimator (%s): %s' % (
                    prop, ', '.join(sorted(hidden)), construct[:80]))
                continue
            ws = _recv_attr_writes(fn, me, attr)
            wst = [s if isinstance(s, ast.stmt) else fi.stmt(s) for s, _, _ in ws]
            if any(k != 'store' for _, k, _ in ws):
                ck.missing(prule, 'property %s: `%s.%s` is updated in an unrecognised way' % (prop, me, attr))
                continue
            # content of what the accessor itself stores there
            fills = [(s, v) for (s, k, v), st in zip(ws, wst) if cfg.reachable(st, r)]
            okfill = True
            for s, v in fills:
                fv = _field_verdict(fi, v, me, field)
                okfill = okfill and fv[0] == 'match'
                ck.decide(fv, prule, modu, s, q, '%s ; %s' % (u(s)[:100], construct),
                          '%s -> result_.%s (through `%s.%s`)' % (prop, field, me, attr),
                          'estimator attribute %s must expose result_.%s' % (prop, field))
            if not cfg.reachable('ENTRY', r, avoiding=wst):
                continue        # stored in this very call on every path: a temporary
            if not okfill:
                continue
            # a path returns `me.attr` as an earlier call (or another method) left it
            keyed = set().union(*[_recv_attrs_in(t, me) for t in tests]) if tests else set()
            in_try = _enclosing(modu, r, (ast.Try,), stop=fn) is not None
            fit_written = {a for a in keyed - {attr} for s in sites if _recv_attr_writes(s[2], s[3], a)}
            if fit_written:
                ck.missing(frule, '%s: the path that returns the kept `%s.%s` is guarded by `%s.%s`, which the fitting '
                           'methods write: validity of the kept value not decided' % (
                               q, me, attr, me, sorted(fit_written)[0]))
                continue
            if fills and not (attr in keyed or in_try):
                ck.missing(frule, '%s: the condition under which the kept `%s.%s` is returned is not recognised' % (q, me, attr))
                continue
            carried(attr, r, construct if not fills else '%s ; %s' % (u(fills[0][0])[:100], construct),
                    'filled on first read by `%s`' % u(fills[0][0])[:80] if fills else
                    'not stored by the accessor on this path')


def d4_result_fields(ck):
    rule = 'C01.D4.result'
    n = 0
    fields = None
    modu = ck.repo.mod(CU)
    cls = modu.classes.get('ClusterResult')
    if cls is None:
        raise AnalysisIncomplete('ClusterResult class not found')
    for b in cls.bases:
        if isinstance(b, ast.Call) and _last(call_name(b)) == 'namedtuple' and len(b.args) == 2 \
                and isinstance(b.args[1], (ast.List, ast.Tuple)):
            fields = [e.value for e in b.args[1].elts if isinstance(e, ast.Constant)]
    if fields is None:
        raise AnalysisIncomplete('ClusterResult namedtuple field list not found')
    ck.check(set(fields) == {'center_indices', 'distances', 'assignments', 'centers'},
             rule, modu, cls, 'ClusterResult', str(fields), 'four fields', 'unexpected field set')
    producers = {(KC, 'kcenters'), (KM, '_kmedoids_iterations'), (HY, 'hybrid'),
                 (CU, 'MolecularClusterMixin.predict'), (CU, 'ClusterResult.partition'), (AP, 'main')}
    found = set()
    for rel in (KC, KM, HY, CU, AP):
        mod = ck.repo.mod(rel)
        for q, fn in mod.functions.items():
            for c in calls_in(fn):
                if _last(call_name(c)) != 'ClusterResult':
                    continue
                n += 1
                found.add((rel, q))
                ck.analysed(mod, fn)
                fi = finfo(mod, fn)
                if any(k.arg is None for k in c.keywords) or any(isinstance(a, ast.Starred) for a in c.args):
                    ck.missing(rule, '%s: ClusterResult(*.../**...) cannot be role-checked' % q)
                    continue
                if len(c.args) > len(fields) or set(fields[:len(c.args)]) & {k.arg for k in c.keywords}:
                    ck.bad(rule, mod, c, q, u(c)[:160], 'ClusterResult is built with more values than the fields %s' % fields)
                    continue
                # positional values take the declared field order
                kws = dict(zip(fields, c.args))
                kws.update({k.arg: k.value for k in c.keywords})
                ok = set(kws) == set(fields)
                bad_roles, unknown = [], []
                for f, v in kws.items():
                    r = _role_verdict(fi, f, v) if f in _ROLE_TOKENS else 'bad'
                    if r == 'bad':
                        bad_roles.append('%s=%s' % (f, u(v)[:40]))
                    elif r == 'unknown':
                        unknown.append('%s=%s' % (f, u(v)[:40]))
                if ok and not bad_roles and unknown:
                    ck.missing(rule, '%s: role of %s cannot be derived' % (q, unknown))
                    continue
                ck.check(ok and not bad_roles, rule, mod, c, q, u(c)[:200],
                         'all four fields passed by keyword with role-consistent values',
                         'field/value role mismatch: %s' % (bad_roles or sorted(set(fields) ^ set(kws))))
    # every producer of a result builds it by keyword (at least once each)
    for rel, q in sorted(producers - found):
        ck.missing(rule, 'no ClusterResult(...) construction found in %s::%s' % (rel, q))
    ck.floor(rule, n, len(producers), 'ClusterResult constructions')
    # estimator properties
    _d4_props(ck, rule, modu)
    # unpacking order of assign_to_nearest_center at call sites
    n2 = 0
    for rel in (KC, KM, HY, CU):
        mod = ck.repo.mod(rel)
        for q, fn in mod.functions.items():
            sweeps = [c for c in calls_in(fn) if _last(call_name(c)) == 'assign_to_nearest_center']
            if not sweeps:
                continue
            fi = finfo(mod, fn)
            # names bound to element 0 / 1 of the result of each call (tuple
            # unpacking, indexing of a temporary, copies)
            bound = {}
            for s in walk_local(fn):
                if not isinstance(s, ast.Assign):
                    continue
                for nm in {x for t in s.targets for x in target_names(t)}:
                    r = _component_def(fi, s, nm)
                    if r is not None and r[1] in (0, 1) and any(r[0] is c for c in sweeps):
                        bound.setdefault(id(r[0]), {0: [], 1: []})[r[1]].append((nm, s))
            for c in sweeps:
                b = bound.get(id(c))
                if not b or not (b[0] or b[1]):
                    continue
                n2 += 1
                st = fi.stmt(c)
                a_names, d_names = sorted({x for x, _ in b[0]}), sorted({x for x, _ in b[1]})
                a, d = ', '.join(a_names) or '-', ', '.join(d_names) or '-'
                ra = set().union(*[_roles_of_text(x) for x in a_names]) if a_names else set()
                rd = set().union(*[_roles_of_text(x) for x in d_names]) if d_names else set()
                if ('distances' in ra and 'assignments' not in ra) or ('assignments' in rd and 'distances' not in rd):
                    ck.bad(rule + '.unpack', mod, st, q, u(st)[:160],
                           'assign_to_nearest_center returns (assignments, distances); '
                           'unpacked into (%s, %s)' % (a, d))
                elif ('assignments' in ra or not a_names) and ('distances' in rd or not d_names) and \
                        'distances' not in ra and 'assignments' not in rd:
                    ck.ok(rule + '.unpack', mod, st, u(st)[:160], '(assignments, distances) order respected')
                else:
                    verdict = _unpack_by_use(mod, fn, fi, b)
                    if verdict == 'ok':
                        ck.ok(rule + '.unpack', mod, st, u(st)[:160], '(labels, distances) order respected (by use)')
                    elif verdict == 'bad':
                        ck.bad(rule + '.unpack', mod, st, q, u(st)[:160],
                               'assign_to_nearest_center returns (assignments, distances); '
                               'unpacked into (%s, %s) whose uses are the other way round' % (a, d))
                    else:
                        ck.missing(rule + '.unpack', '%s: roles of (%s, %s) cannot be derived' % (q, a, d))
    ck.floor(rule + '.unpack', n2, 5, 'unpackings of assign_to_nearest_center')
    # return order of the producers themselves: the label array and the
    # running-minimum array of their commit sit at the documented positions
    for mod_, F, arity, ipos_lab, ipos_cur in ((modu, 'assign_to_nearest_center', 2, 0, 1),
                                              (ck.repo.mod(KC), '_kcenters_iteration', 4, 2, 1),
                                              (ck.repo.mod(KC), '_kcenters_iteration_mpi', 4, 2, 1)):
        fna = mod_.func(F)
        fia = finfo(mod_, fna)
        inst = find_running_min_commits(mod_, fna)
        lab = cur = None
        for i in inst:
            cur = i['cur']
            for st, t in i['stores']:
                if u(t.value) != cur:
                    lab = u(t.value)
        if lab is None or cur is None:
            ck.missing(rule + '.unpack', '%s: label / running-minimum arrays not identified' % F)
            continue
        for r, elts in _ret_tuples(fia, fna, arity):
            if elts is None:
                ck.missing(rule + '.unpack', '%s: returned value is not a tuple display' % F)
                continue
            if not elts:
                ck.missing(rule + '.unpack', '%s: returned tuple does not have %d elements' % (F, arity))
                continue
            got = [fia.xu(e) for e in elts]
            want = dict(((ipos_lab, lab), (ipos_cur, cur)))
            if all(got[k] == v for k, v in want.items()):
                ck.ok(rule + '.unpack', mod_, r, u(r), 'labels at position %d, distances at position %d' % (ipos_lab, ipos_cur))
            elif got[ipos_lab] == cur and got[ipos_cur] == lab:
                ck.bad(rule + '.unpack', mod_, r, F, u(r),
                       'return order changed: the label array `%s` must be element %d and the distance array `%s` '
                       'element %d of the result' % (lab, ipos_lab, cur, ipos_cur))
            elif all(isinstance(elts[k], ast.Name) for k in want) and \
                    {got[ipos_lab], got[ipos_cur]} <= set(params(fna)) | {lab, cur}:
                ck.bad(rule + '.unpack', mod_, r, F, u(r),
                       'return order changed: must carry `%s` at position %d and `%s` at position %d' % (
                           lab, ipos_lab, cur, ipos_cur))
            else:
                ck.missing(rule + '.unpack', '%s: returned (labels, distances) are not the arrays of the commit: %s' % (F, u(r)[:80]))


_WIDE_INT = {'int', 'np.int64', 'np.intp', 'np.int_', 'np.longlong', 'np.uint64', 'np.uintp',
             "'int'", "'int64'", "'i8'", "'intp'", "'<i8'", "'uint64'", "'u8'", "'q'", "'p'",
             'np.dtype(int)', "np.dtype('int64')", "np.dtype('int')", 'np.dtype(np.int64)', 'np.dtype(np.intp)'}
_NARROW = {'np.int8', 'np.int16', 'np.int32', 'np.uint8', 'np.uint16', 'np.uint32', 'np.short', 'np.ushort',
           'np.intc', 'np.uintc', 'np.byte', 'np.ubyte', 'bool', 'np.bool_', 'np.bool',
           "'i1'", "'i2'", "'i4'", "'u1'", "'u2'", "'u4'", "'int8'", "'int16'", "'int32'",
           "'uint8'", "'uint16'", "'uint32'", "'b'", "'B'", "'h'", "'H'", "'i'", "'I'", "'bool'", "'?'"}
_FLOATS = {'float', 'np.float64', 'np.float32', 'np.float16', 'np.double', 'np.single', 'np.float_',
           "'float'", "'float64'", "'float32'", "'f8'", "'f4'", "'d'", "'f'", 'complex', 'np.complex128'}
# allocators: name -> (position of dtype, inherits the dtype of argument 0)
_ALLOC = {'zeros': (1, False), 'empty': (1, False), 'ones': (1, False), 'full': (2, False),
          'zeros_like': (1, True), 'empty_like': (1, True), 'ones_like': (1, True), 'full_like': (2, True)}


def _dtype_width(e):
    """'wide' (holds every frame index) | 'narrow' | 'float' | 'unknown' for a
    dtype expression.  np.min_scalar_type(v) is by definition the SMALLEST
    type that holds v: narrower than an index unless v is one."""
    t = u(canon(e))
    if t in _WIDE_INT:
        return 'wide'
    if t in _NARROW:
        return 'narrow'
    if t in _FLOATS:
        return 'float'
    if isinstance(e, ast.Call) and _last(call_name(e)) == 'min_scalar_type':
        return 'narrow'
    if isinstance(e, ast.Call) and _last(call_name(e)) == 'dtype' and len(e.args) == 1 and not e.keywords:
        return _dtype_width(e.args[0])
    return 'unknown'


def _alloc_dtype(fi, v):
    """Classify an array allocation: ('explicit', dtype expr) | ('default-float', None)
    | ('inherits', prototype expr) | None (not a recognised allocation)."""
    v = canon(fi.expand(v))
    if not isinstance(v, ast.Call):
        return None
    nm = _last(call_name(v))
    if nm not in _ALLOC or not (call_name(v) or '').startswith(('np.', 'numpy.')):
        return None
    pos, like = _ALLOC[nm]
    dt = arg_or_kw(v, pos, 'dtype')
    if dt is not None and not (isinstance(dt, ast.Constant) and dt.value is None):
        return 'explicit', dt
    if like:
        return ('inherits', v.args[0]) if v.args else None
    return 'default-float', None


def d4_index_dtype(ck):
    """find_cluster_centers stores FRAME INDICES into the array it returns (the
    center_indices of every warm start / predict).  When that array is
    allocated `<alloc>_like(np.unique(<labels>))` it has the dtype of the
    LABELS, so every label array produced in the package must have an integer
    dtype that holds any frame index (platform int); a narrower label dtype
    makes the stored frame indices wrap around: center_indices[j] is then not
    the frame of centers[j]."""
    rule = 'C01.D4.index-dtype'
    modu = ck.repo.mod(CU)
    F = 'find_cluster_centers'
    fn = modu.func(F)
    fi = finfo(modu, fn)
    ck.analysed(modu, fn)
    rets = returns_of(fn)
    if len(rets) != 1 or not isinstance(rets[0].value, ast.Name):
        ck.missing(rule, '%s: single `return <index array>` of a plain name not found' % F)
        return
    R = rets[0].value.id
    allocs = [s for s in assigns_to(fn, R) if isinstance(s, ast.Assign) and fi.def_value(s, R) is not None]
    if len(allocs) != 1 or len(assigns_to(fn, R)) != 1:
        ck.missing(rule, '%s: single allocation of the returned index array `%s` not found' % (F, R))
        return
    a = allocs[0]
    kind = _alloc_dtype(fi, fi.def_value(a, R))
    if kind is None:
        ck.missing(rule, '%s: allocation of the index array not recognised: %s' % (F, u(a)[:100]))
        return
    inherits_from = None
    if kind[0] == 'explicit':
        w = _dtype_width(kind[1])
        if w == 'unknown':
            ck.missing(rule, '%s: dtype `%s` of the index array not recognised' % (F, u(kind[1])[:60]))
            return
        ck.check(w == 'wide', rule, modu, a, F, u(a),
                 'the returned index array has an index-wide integer dtype of its own',
                 'the array that receives frame indices has dtype %s: frame indices do not fit' % u(kind[1]))
        ck.floor(rule, 1, 1, 'index-array allocations')
        return
    if kind[0] == 'default-float':
        ck.bad(rule, modu, a, F, u(a), 'the array that receives frame indices is allocated without dtype (float64): '
               'center_indices must be integers')
        return
    proto = kind[1]        # already expanded and canonical
    ps = params(fn)
    if isinstance(proto, ast.Call) and call_name(proto) in ('np.unique', 'np.sort') and len(proto.args) == 1 \
            and not proto.keywords:
        inner = proto.args[0]
        while isinstance(inner, ast.Call) and call_name(inner) in ('np.unique', 'np.sort', 'np.asarray') \
                and len(inner.args) == 1 and not inner.keywords:
            inner = inner.args[0]
        if isinstance(inner, ast.Name) and inner.id in ps and fi.rd.defs_at(a, inner.id) == {'PARAM'}:
            inherits_from = ps.index(inner.id)
    elif isinstance(proto, ast.Name) and proto.id in ps and fi.rd.defs_at(a, proto.id) == {'PARAM'}:
        inherits_from = ps.index(proto.id)
    if inherits_from is None:
        ck.missing(rule, '%s: prototype `%s` of the index array is not derived from a parameter' % (F, u(kind[1])[:60]))
        return
    pname = ps[inherits_from]
    # which in-package producers feed that parameter?
    sweeps = []
    for rel in (KC, KM, HY, CU):
        m = ck.repo.mod(rel)
        for q, f in m.functions.items():
            for c in calls_in(f):
                if _last(call_name(c)) != F:
                    continue
                arg = arg_or_kw(c, inherits_from, pname)
                if not isinstance(arg, ast.Name):
                    continue
                fi2 = finfo(m, f)
                try:
                    defs = fi2.defs_of_use(arg)
                except Exception:
                    continue
                for site in defs:
                    if isinstance(site, ast.Assign) and isinstance(site.value, ast.Call) and \
                            _last(call_name(site.value)) == 'assign_to_nearest_center' and \
                            isinstance(site.targets[0], ast.Tuple) and site.targets[0].elts and \
                            isinstance(site.targets[0].elts[0], ast.Name) and site.targets[0].elts[0].id == arg.id:
                        sweeps.append((m, q, c))
    n = 0
    why = ('%s allocates its result as `%s`, i.e. in the dtype of its `%s` argument, and stores frame indices in it'
           % (F, u(fi.def_value(a, R))[:60], pname))
    if not sweeps:
        ck.ok(rule, modu, a, u(a), 'index array inherits the label dtype; no in-package label producer feeds it')
        ck.floor(rule, 1, 1, 'index-array allocations')
        return
    # the producer: the label array returned by assign_to_nearest_center
    P = 'assign_to_nearest_center'
    fnp = modu.func(P)
    fip = finfo(modu, fnp)
    ck.analysed(modu, fnp)
    prets = [e for _, e in _ret_tuples(fip, fnp, 2) if e]
    if not prets or not all(isinstance(e[0], ast.Name) for e in prets) or len({e[0].id for e in prets}) != 1:
        ck.missing(rule, '%s: returned label array not found' % P)
        return
    A = prets[0][0].id
    adefs = [s for s in assigns_to(fnp, A)]
    if not adefs:
        ck.missing(rule, '%s: allocation of the label array `%s` not found' % (P, A))
        return
    for s in adefs:
        v = fip.def_value(s, A) if isinstance(s, ast.Assign) else None
        k = _alloc_dtype(fip, v) if v is not None else None
        if k is None or k[0] == 'inherits':
            ck.missing(rule, '%s: allocation of the label array not recognised: %s' % (P, u(s)[:100]))
            continue
        n += 1
        if k[0] == 'default-float':
            ck.bad(rule, modu, s, P, u(s), 'the label array is allocated without an integer dtype; ' + why)
            continue
        w = _dtype_width(k[1])
        if w == 'unknown':
            ck.missing(rule, '%s: dtype `%s` of the label array not recognised' % (P, u(k[1])[:60]))
            n -= 1
            continue
        ck.check(w == 'wide', rule, modu, s, P, u(s),
                 'labels are platform integers: the index array derived from them holds any frame index',
                 'the label array gets the dtype `%s`, which does not hold every frame index; %s (%d warm-start/'
                 'predict site(s), e.g. %s): indices beyond the range of that dtype wrap around, so '
                 'center_indices[j] is no longer the frame of centers[j]' % (
                     u(k[1])[:60], why, len(sweeps), sweeps[0][1]))
    ck.floor(rule, n, 1, 'label-array allocations feeding find_cluster_centers')


def d4_fit_result(ck):
    """Estimator form: `fit(X, ...)` stores, on every path on which it returns,
    the result of the function form applied to ITS data argument.  A path
    that returns without a new `self.result_` (early return, memo of an
    earlier fit) leaves labels_/distances_/center_indices_/centers_ describing
    other data: reported centre indices are then not frames of X."""
    rule = 'C01.D4.fit-result'
    n = 0
    for rel, q, entry in ((KC, 'KCenters.fit', 'kcenters'), (KM, 'KMedoids.fit', 'kmedoids'),
                          (HY, 'KHybrid.fit', 'hybrid')):
        mod = ck.repo.mod(rel)
        fn = mod.functions.get(q)
        if fn is None:
            ck.missing(rule, '%s not found' % q)
            continue
        ps = params(fn)
        if len(ps) < 2:
            ck.missing(rule, '%s: data parameter not found' % q)
            continue
        me, X = ps[0], ps[1]
        fi = finfo(mod, fn)
        ck.analysed(mod, fn)
        cfg = fi.cfg
        stores = [st for st in walk_local(fn) if isinstance(st, ast.Assign) and any(
            isinstance(t, ast.Attribute) and t.attr == 'result_' and isinstance(t.value, ast.Name)
            and t.value.id == me for t in st.targets)]
        indirect = [c for c in calls_in(fn) if call_name(c) == 'setattr' or (
            isinstance(c.func, ast.Attribute) and isinstance(c.func.value, ast.Name) and c.func.value.id == me)]
        if not stores:
            if indirect:
                ck.missing(rule, '%s: no direct store `%s.result_ = ...` (result possibly stored by %s)' % (
                    q, me, u(indirect[0])[:60]))
            else:
                ck.bad(rule, mod, fn, q, '%s.result_' % me, 'fit never stores a result')
            continue
        n += 1
        raises = [x for x in walk_local(fn) if isinstance(x, ast.Raise)]
        if cfg.reachable('ENTRY', 'EXIT', avoiding=stores + raises):
            if indirect:
                ck.missing(rule, '%s: a path returns without a direct store of `%s.result_` (possibly stored by %s)' % (
                    q, me, u(indirect[0])[:60]))
                n -= 1
            else:
                ck.bad(rule, mod, stores[0], q, 'paths to return without `%s.result_ = ...`' % me,
                       'fit can return without storing a result for the data it was given: result_ (labels_, distances_, '
                       'center_indices_, centers_) then still describes an earlier fit, whose centre indices are not '
                       'frames of this `%s`' % X)
            continue
        for st in stores:
            v = st.value
            r = _component(fi, v, st)
            call = r[0] if r is not None and r[1] is None else None
            construct = u(st)[:160]
            if call is None or _last(call_name(call)) != entry:
                try:
                    ps_, calls_ = fi.derives_from(v)
                except Exception:
                    ps_, calls_ = set(), set()
                if X not in ps_ and not any(_last(c) == entry for c in calls_):
                    ck.bad(rule, mod, st, q, construct, 'the stored result does not depend on the data argument `%s` of fit' % X)
                else:
                    ck.missing(rule, '%s: stored result is not directly the value of %s(...): %s' % (q, entry, construct[:80]))
                continue
            ent = mod.functions.get(entry)
            data = arg_or_kw(call, 0, params(ent)[0] if ent is not None and params(ent) else 'X')
            if data is None:
                ck.missing(rule, '%s: data argument of %s not found' % (q, u(call)[:60]))
                continue
            try:
                dps, _ = fi.derives_from(data)
            except Exception:
                dps = set()
            if isinstance(data, ast.Name) and data.id == X and fi.defs_of_use(data) == {'PARAM'}:
                ck.ok(rule, mod, st, construct, 'result_ = %s(%s, ...) on every returning path' % (entry, X))
            elif X in dps:
                ck.ok(rule, mod, st, construct, 'result_ = %s(<derived from %s>, ...)' % (entry, X))
            elif isinstance(data, ast.Attribute) or (isinstance(data, ast.Name) and not dps - {me}):
                ck.bad(rule, mod, st, q, construct, 'the data handed to %s is `%s`, not the `%s` given to this fit' % (
                    entry, u(data)[:40], X))
            else:
                ck.missing(rule, '%s: data argument `%s` of %s not related to `%s`' % (q, u(data)[:40], entry, X))
    ck.floor(rule, n, 3, 'estimator fit methods')


def _unpack_by_use(mod, fn, fi, bound):
    """Roles of the names bound to element 0 / 1 of an assign_to_nearest_center
    result ({0: [(name, def site)], 1: [...]}) by what they are passed as."""
    def elem(x):
        if not isinstance(x, ast.Name):
            return None
        try:
            defs = fi.defs_of_use(x)
        except Exception:
            return None
        for k in (0, 1):
            if any(x.id == nm and site in defs for nm, site in bound[k]):
                return k
        return None
    votes = set()
    for c in calls_in(fn):
        for k in c.keywords:
            if k.arg in ('assignments', 'distances'):
                e = elem(k.value)
                if e is not None:
                    votes.add('ok' if (k.arg == 'assignments') == (e == 0) else 'bad')
        if _last(call_name(c)) == 'find_cluster_centers' and len(c.args) == 2:
            e0, e1 = elem(c.args[0]), elem(c.args[1])
            if e0 is not None and e1 is not None and e0 != e1:
                votes.add('ok' if e0 == 0 else 'bad')
    if votes == {'ok'}:
        return 'ok'
    if votes == {'bad'}:
        return 'bad'
    return 'unknown'


# ---------------------------------------------------------------------------
# fifth wave: necessary conditions found through the survivors of the generic
# mutants (operand roles, branch polarity of the format tests, None paths)

def _eval3t(e, env):
    """Kleene evaluation of a boolean test.  `env` maps the canonical TEXT of a
    sub-expression (or a bare name) to its truth value; '@size' -> the number
    of MPI ranks, against which `mpi.size() <op> <constant>` is evaluated.
    Everything else is unknown (None)."""
    e = canon(e)
    t = u(e)
    if t in env:
        return env[t]
    if isinstance(e, ast.Constant):
        return bool(e.value)
    if isinstance(e, ast.UnaryOp) and isinstance(e.op, ast.Not):
        v = _eval3t(e.operand, env)
        return None if v is None else (not v)
    if isinstance(e, ast.BoolOp):
        vs = [_eval3t(x, env) for x in e.values]
        if isinstance(e.op, ast.And):
            return False if False in vs else (None if None in vs else True)
        return True if True in vs else (None if None in vs else False)
    if isinstance(e, ast.Compare) and len(e.ops) == 1:
        l, r, op = e.left, e.comparators[0], e.ops[0]
        if isinstance(op, (ast.Is, ast.IsNot, ast.Eq, ast.NotEq)) and isinstance(r, ast.Constant) \
                and isinstance(r.value, bool) and u(l) in env:
            same = env[u(l)] == r.value
            return same if isinstance(op, (ast.Is, ast.Eq)) else not same
        sizes = env.get('@size')
        if sizes:
            def val(x, n):
                if isinstance(x, ast.Call) and _last(call_name(x)) in ('size', 'Get_size') and not x.args \
                        and (call_name(x) or '').split('.')[0] in ('mpi', 'comm', 'MPI'):
                    return n
                c = const_value(x)
                return c if isinstance(c, int) and not isinstance(c, bool) else None
            import operator as _op
            fns = {ast.Lt: _op.lt, ast.LtE: _op.le, ast.Gt: _op.gt, ast.GtE: _op.ge, ast.Eq: _op.eq, ast.NotEq: _op.ne}
            if type(op) in fns and any(isinstance(x, ast.Call) for x in (l, r)):
                outs = set()
                for n in sizes:
                    a, b = val(l, n), val(r, n)
                    if a is None or b is None:
                        return None
                    outs.add(fns[type(op)](a, b))
                return outs.pop() if len(outs) == 1 else None
    return None


def _dominating_conditions(fi, stmt, extra=()):
    """[(test, polarity)] of every branch condition that holds whenever `stmt`
    is reached (Assume nodes of the CFG that dominate it: nested ifs, elif
    chains and the fall-through side of guard clauses alike)."""
    from ..cfg import Assume
    out = [(nd.test, nd.polarity) for nd in fi.cfg.nodes
           if isinstance(nd, Assume) and stmt in fi.cfg.succ and fi.cfg.dominates(nd, stmt)]
    return out + list(extra)


def _def_use_conditions(fi, d, use, name):
    """[(test, polarity)] that hold whenever the definition `d` of `name` is the
    one that reaches the statement `use`: the branch conditions dominating `d`
    plus every branch head that lies on ALL paths from `d` to `use` that avoid
    the other definitions of the name (default-then-override: `f = a` /
    `if c: f = b` - the first definition reaches the use only through the
    not-c side)."""
    from ..cfg import Assume
    cfg = fi.cfg
    out = _dominating_conditions(fi, d)
    kills = [x for x in assigns_to(fi.fn, name) if x is not d and x in cfg.succ]
    if not cfg.reachable(d, use, avoiding=kills):
        return out
    for nd in cfg.nodes:
        if isinstance(nd, Assume) and not cfg.dominates(nd, d) and not cfg.reachable(d, use, avoiding=kills + [nd]):
            out.append((nd.test, nd.polarity))
    return out


def _reach3t(fi, conds, env):
    """Three-valued: is a statement under the conditions `conds` reachable when
    the atoms of `env` have the given values?  False = certainly not."""
    vs = []
    for t, pol in conds:
        try:
            tx = fi.expand(t)
        except Exception:
            tx = t
        v = _eval3t(tx, env)
        if v is None and tx is not t:
            v = _eval3t(t, env)
        vs.append(None if v is None else (v == pol))
    return False if False in vs else (None if None in vs else True)


def _mentions_atom(fi, conds, env):
    keys = {k for k in env if not k.startswith('@')}
    for t, _ in conds:
        for cand in (t, ):
            try:
                x = canon(fi.expand(cand))
            except Exception:
                x = canon(cand)
            for y in list(ast.walk(x)) + list(ast.walk(canon(cand))):
                if isinstance(y, ast.expr) and u(y) in keys:
                    return True
                if '@size' in env and isinstance(y, ast.Call) and _last(call_name(y)) in ('size', 'Get_size') and not y.args:
                    return True
    return False


def _membership(e):
    """The elementwise comparison behind a frame selection used as an index
    set: `np.where(m)[0]`, `np.nonzero(m)[0]`, `np.arange(n)[m]`, `m` itself.
    -> the Compare node, or None."""
    e = canon(e)
    for _ in range(3):
        if isinstance(e, ast.Subscript) and const_value(e.slice) == 0 and isinstance(e.value, ast.Call) \
                and call_name(e.value) in ('np.where', 'np.nonzero', 'numpy.where', 'numpy.nonzero') \
                and len(e.value.args) == 1 and not e.value.keywords:
            e = e.value.args[0]
            continue
        if isinstance(e, ast.Subscript) and isinstance(e.value, ast.Call) and call_name(e.value) in ('np.arange', 'numpy.arange') \
                and isinstance(e.slice, ast.Compare):
            e = e.slice
            continue
        break
    if isinstance(e, ast.Compare) and len(e.ops) == 1:
        return e
    return None


def _membership_verdict(e, labels, label_texts):
    """Does the selection `e` pick exactly the frames whose label (array
    `labels`) EQUALS the label denoted by one of `label_texts` (canonical
    texts)?  -> ('ok'|'bad'|'unknown', shown)"""
    c = _membership(e)
    if c is None:
        return 'unknown', u(e)[:80]
    l, r = u(c.left), u(c.comparators[0])
    sides = {l, r}
    if labels not in sides or len(sides) != 2 or not (sides - {labels}) <= set(label_texts):
        return 'unknown', u(c)[:80]
    if isinstance(c.ops[0], ast.Eq):
        return 'ok', u(c)
    return 'bad', u(c)


def d1_find_centers(ck):
    """find_cluster_centers(labels, distances): for the k-th distinct label c
    (ascending: np.unique) the reported index is, among the frames that CARRY
    label c, the one with the smallest distance.  Every warm start takes its
    centre indices from here; a selection over other frames (label != c), the
    largest instead of the smallest distance, or a store at another position
    makes center_indices[k] a frame that is not centre k."""
    rule = 'C01.D1.find-centers'
    from .cluster_common import _sweep_loop
    modu = ck.repo.mod(CU)
    F = 'find_cluster_centers'
    fn = modu.func(F)
    fi = finfo(modu, fn)
    ck.analysed(modu, fn)
    ps = params(fn)
    rets = returns_of(fn)
    if len(ps) < 2 or len(rets) != 1 or not isinstance(rets[0].value, ast.Name):
        ck.missing(rule, '%s: (labels, distances) parameters / single returned index array not found' % F)
        return
    A, D, R = ps[0], ps[1], rets[0].value.id
    stores = [(s, t) for s, t in subscript_stores(fn, R) if isinstance(s, ast.Assign)]
    if not stores:
        ck.missing(rule, '%s: no store into the returned index array `%s`' % (F, R))
        return
    n = 0
    for s, t in stores:
        loop, idx, elems, seq, problem = _sweep_loop(modu, fi, s)
        if loop is None or problem:
            ck.missing(rule, '%s: per-label loop around `%s` not recognised (%s)' % (F, u(s)[:60], problem))
            continue
        # the labels visited: the distinct values of the label array, ascending
        # (`for k, c in enumerate(S)` or `for k in range(len(S))` with c = S[k])
        if call_name(loop.iter) == 'enumerate':
            seq_x = fi.expand(loop.iter.args[0])
        else:
            # range(len(S)) / range(S.shape[0]): S as written in the loop header
            stop = fi.expand(loop.iter.args[-1])
            seq_x = None
            if isinstance(stop, ast.Call) and call_name(stop) == 'len' and len(stop.args) == 1:
                seq_x = stop.args[0]
            elif isinstance(stop, ast.Subscript) and isinstance(stop.value, ast.Attribute) and \
                    stop.value.attr == 'shape' and const_value(stop.slice) == 0:
                seq_x = stop.value.value
        if seq_x is None:
            ck.missing(rule, '%s: label sequence of the per-label loop not recognised' % F)
            continue
        v = classify(seq_x, ['np.unique(%s)' % A, 'np.sort(np.unique(%s))' % A, 'sorted(set(%s))' % A,
                                            'np.unique(%s).tolist()' % A, 'sorted(np.unique(%s))' % A], scope={A})
        n += 1
        if v[0] != 'match':
            ck.decide(v, rule, modu, loop, F, 'for %s in %s' % (u(loop.target), u(loop.iter)[:80]), '',
                      'the labels visited must be the distinct values of `%s` in ascending order (np.unique(%s)): position k '
                      'of the result then belongs to centre k' % (A, A))
            continue
        labs = set(elems) | {'%s[%s]' % (u(canon(seq_x)), idx), '%s[%s]' % (seq, idx)}
        construct = u(s)
        pos_ok = fi.xu(t.slice, strict=False) == idx
        if not pos_ok:
            pv = classify(fi.expand(t.slice), [idx], scope={idx} | set(elems))
            ck.decide(pv if pv[0] != 'match' else 'far', rule, modu, s, F, construct, '',
                      'the index found for the k-th label must be stored at position k (`%s`) of the result' % idx)
            continue
        x = canon(fi.expand(s.value, strict=False))
        m = match('_W[%s[_W].argmin()]' % D, x) or match('_W[%s[_W].argmin(axis=0)]' % D, x)
        if m is None:
            cv = classify(x, ['_W[%s[_W].argmin()]' % D], scope={A, D, idx} | set(elems))
            # a different reduction / another array in the located role
            ck.decide(cv if cv[0] != 'match' else 'far', rule, modu, s, F, construct, '',
                      'the index reported for a label must be <members>[argmin(%s[<members>])]: the member frame with '
                      'the smallest distance (the centre itself after a sweep over the centres)' % D)
            continue
        verdict, shown = _membership_verdict(m['_W'], A, labs)
        if verdict == 'unknown':
            ck.missing(rule, '%s: frame set `%s` searched for the centre of a label not recognised' % (F, shown))
            n -= 1
        else:
            ck.check(verdict == 'ok', rule, modu, s, F, construct,
                     'centre of label c = the minimum-distance frame among the frames with %s' % shown,
                     'the frame reported as the centre of label c is searched among the frames selected by `%s`, not among '
                     'the frames that carry label c (`%s == c`): center_indices[k] is then a frame of another cluster, '
                     'not the frame of centre k' % (shown, A))
    ck.floor(rule, n, 1, 'per-label centre selections')


def _value_role(mod, fn, fi, e, at, depth=2):
    """Role ('assignments' | 'distances' | 'center_indices' | 'centers' | None)
    of the value of `e` at statement `at`: by def-use (element k of a producer
    whose return order is fixed), for a parameter of a private function by what
    its in-module callers pass, for a parameter of a public function by its
    (API) name, else by the vocabulary of the expression."""
    try:
        r = _component(fi, e, at)
    except Exception:
        r = None
    if r is not None and isinstance(r[1], int):
        order = _RETURN_ROLES.get(_last(call_name(r[0])))
        if order is not None and r[1] < len(order) and order[r[1]] is not None:
            return order[r[1]]
    if isinstance(e, ast.Attribute) and e.attr in _ROLE_TOKENS:
        return e.attr
    if isinstance(e, ast.Name):
        try:
            defs = fi.rd.defs_at(at, e.id)
        except Exception:
            defs = set()
        if defs == {'PARAM'} and fn.name.startswith('_') and depth > 0 and e.id in params(fn):
            pos = params(fn).index(e.id)
            roles = []
            for q2, f2 in mod.functions.items():
                if f2 is fn:
                    continue
                for c in calls_in(f2):
                    if _last(call_name(c)) != fn.name or any(isinstance(a, ast.Starred) for a in c.args):
                        continue
                    a = arg_or_kw(c, pos, e.id)
                    if a is None:
                        continue
                    fi2 = finfo(mod, f2)
                    roles.append(_value_role(mod, f2, fi2, a, fi2.stmt(a), depth - 1))
            if roles and None not in roles and len(set(roles)) == 1:
                return roles[0]
        if len(defs) == 1 and 'PARAM' not in defs:
            site = next(iter(defs))
            v = fi.def_value(site, e.id) if site != 'UNBOUND' else None
            if isinstance(v, (ast.Name, ast.Attribute)):
                return _value_role(mod, fn, fi, v, site, depth)
    roles = _roles_of_text(u(e))
    return roles.pop() if len(roles) == 1 else None


def d4_find_centers_args(ck):
    """Every in-package call find_cluster_centers(<labels>, <distances>) passes
    the label array first and the distance array second (roles by def-use /
    API names): swapped, the 'labels' are the distinct distance values and the
    reported centre indices have nothing to do with the centres."""
    rule = 'C01.D4.find-centers-args'
    n = 0
    for rel in (KC, KM, HY, CU):
        mod = ck.repo.mod(rel)
        callee = ck.repo.mod(CU).func('find_cluster_centers')
        cps = params(callee)
        for q, fn in mod.functions.items():
            for c in calls_in(fn):
                if _last(call_name(c)) != 'find_cluster_centers':
                    continue
                fi = finfo(mod, fn)
                ck.analysed(mod, fn)
                st = fi.stmt(c)
                if st is None or any(isinstance(a, ast.Starred) for a in c.args) or any(k.arg is None for k in c.keywords):
                    ck.missing(rule, '%s: arguments of %s not recognised' % (q, u(c)[:80]))
                    continue
                a0, a1 = arg_or_kw(c, 0, cps[0]), arg_or_kw(c, 1, cps[1])
                if a0 is None or a1 is None:
                    ck.missing(rule, '%s: arguments of %s not recognised' % (q, u(c)[:80]))
                    continue
                r0, r1 = _value_role(mod, fn, fi, a0, st), _value_role(mod, fn, fi, a1, st)
                n += 1
                if (r0, r1) == ('assignments', 'distances'):
                    ck.ok(rule, mod, c, u(c)[:160], '(labels, distances) in the documented order')
                elif (r0, r1) == ('distances', 'assignments'):
                    ck.bad(rule, mod, c, q, u(c)[:160],
                           'find_cluster_centers(%s, %s) expects (labels, distances); `%s` is a distance array and `%s` a '
                           'label array: the result has one entry per distinct DISTANCE value and is not the list of '
                           'centre frames' % (cps[0], cps[1], u(a0)[:40], u(a1)[:40]))
                else:
                    ck.missing(rule, '%s: roles of the arguments of %s cannot be derived (%s, %s)' % (q, u(c)[:80], r0, r1))
                    n -= 1
    ck.floor(rule, n, 3, 'calls of find_cluster_centers')


def _loop_element_kinds(fn, fi, P0, P1):
    """{name: 'frame' | 'centre'} for loop / comprehension targets that run over
    the data parameter P0 resp. the centre container P1 (directly or through
    enumerate)."""
    out = {}

    def note(target, it):
        try:
            x = canon(fi.expand(it))
        except Exception:
            x = canon(it)
        el = target
        if isinstance(x, ast.Call) and call_name(x) == 'enumerate' and x.args and isinstance(target, ast.Tuple) \
                and len(target.elts) == 2:
            x, el = x.args[0], target.elts[1]
        if isinstance(x, ast.Name) and isinstance(el, ast.Name):
            if x.id == P0:
                out[el.id] = 'frame'
            elif P1 is not None and x.id == P1:
                out[el.id] = 'centre'
    for nd in ast.walk(fn):
        if isinstance(nd, ast.For):
            note(nd.target, nd.iter)
        elif isinstance(nd, ast.comprehension):
            note(nd.target, nd.iter)
    return out


def d2_metric_args(ck):
    """The dissimilarity is a callable (X, y): a set of frames first, ONE point
    second (user callables need not be symmetric and need not accept the
    operands the other way round).  At every call of the metric parameter in
    the nearest-centre sweep and the k-centers iterations the first operand is
    the data (or a masked part of it); the whole data set in the single-point
    position is the swapped call.  The per-frame form metric(<centre
    container>, frame) is only defined for trajectory containers: it must be
    unreachable when `hasattr(<container>, 'xyz')` is false."""
    rule = 'C01.D2.metric-args'
    cu, kc = ck.repo.mod(CU), ck.repo.mod(KC)
    for mod, F, cpos in ((cu, 'assign_to_nearest_center', 1), (kc, '_kcenters_iteration', None),
                         (kc, '_kcenters_iteration_mpi', None)):
        fn = mod.func(F)
        fi = finfo(mod, fn)
        ck.analysed(mod, fn)
        ps = params(fn)
        P0 = ps[0]
        P1 = ps[cpos] if cpos is not None else None
        elems = _loop_element_kinds(fn, fi, P0, P1)

        def kind(e):
            try:
                x = canon(fi.expand(e, strict=False))
            except Exception:
                x = canon(e)
            if isinstance(x, ast.Name):
                if x.id == P0:
                    return 'all'
                if P1 is not None and x.id == P1:
                    return 'centres'
                return elems.get(x.id, 'other')
            if isinstance(x, ast.Subscript) and isinstance(x.value, ast.Name) and x.value.id == P0:
                sl = x.slice
                if isinstance(sl, ast.Compare) or (isinstance(sl, ast.BinOp) and isinstance(sl.op, (ast.BitAnd, ast.BitOr))) \
                        or (isinstance(sl, ast.UnaryOp) and isinstance(sl.op, ast.Invert)):
                    return 'many'
                y = _strip_int(sl)
                if isinstance(y, ast.Call) and isinstance(y.func, ast.Attribute) and y.func.attr in ('argmax', 'argmin'):
                    return 'one'
                return 'sub'
            return 'other'
        n = 0
        for c in calls_in(fn):
            if not (isinstance(c.func, ast.Name) and c.func.id in ps):
                continue
            try:
                if fi.defs_of_use(c.func) != {'PARAM'}:
                    continue
            except Exception:
                continue
            if len(c.args) != 2 or c.keywords or any(isinstance(a, ast.Starred) for a in c.args):
                ck.missing(rule, '%s: call of the metric parameter with an unrecognised argument list: %s' % (F, u(c)[:80]))
                continue
            k0, k1 = kind(c.args[0]), kind(c.args[1])
            st = fi.stmt(c)
            construct = u(c)[:160]
            if k0 in ('all', 'many') and k1 not in ('all', 'many'):
                n += 1
                ck.ok(rule, mod, c, construct, 'metric(<frames of %s>, <one point>)' % P0)
            elif k1 in ('all', 'many') and k0 not in ('all', 'many', 'sub'):
                n += 1
                ck.bad(rule, mod, c, F, construct,
                       'the metric is called with the data `%s` in the single-point position and `%s` in the data position: '
                       'a dissimilarity callable takes (frames, one point) - for a non-symmetric or shape-sensitive callable the '
                       'reported distances are not the distances from each frame to its centre' % (u(c.args[1])[:40], u(c.args[0])[:40]))
            elif k0 == 'centres' and k1 == 'frame':
                atom = C("hasattr(%s, 'xyz')" % P1)
                conds = _dominating_conditions(fi, st)
                env = {atom: False}
                if not _mentions_atom(fi, conds, env):
                    ck.missing(rule, '%s: per-frame form `%s` is not guarded by a test of the container kind `%s`' % (F, construct[:60], atom))
                    continue
                r = _reach3t(fi, conds, env)
                n += 1
                if r is False:
                    ck.ok(rule, mod, c, construct, 'per-frame form only for trajectory containers (`%s`)' % atom)
                elif r is True:
                    ck.bad(rule, mod, c, F, construct,
                           'the per-frame form hands the whole centre container `%s` to the metric as its frame set; that is '
                           'only defined for a trajectory object, but this branch is taken whenever `%s` is false (a list '
                           'or array of centres, which every in-package caller passes)' % (P1, atom))
                else:
                    ck.missing(rule, '%s: per-frame form `%s` may be reached when `%s` is false' % (F, construct[:60], atom))
                    n -= 1
        ck.floor(rule + ('' if F == 'assign_to_nearest_center' else '.' + F), n, 1, 'calls of the metric parameter in %s' % F)


def d1_propose_args(ck):
    """PAM: the proposal for centre `cid` is drawn from the data parameter,
    amongst the frames that currently carry label `cid`.  (A frame of another
    cluster may be that cluster's centre: it would become centre `cid` while
    keeping its own label at distance 0.)"""
    rule = 'C01.D1.propose-args'
    modm = ck.repo.mod(KM)
    F = '_kmedoids_pam_update'
    fn = modm.func(F)
    fi = finfo(modm, fn)
    ro = _pam_roles(ck, rule, modm, fn, fi)
    if ro is None:
        return
    callee = modm.functions.get('_propose_new_center_amongst')
    if callee is None or len(params(callee)) < 2:
        ck.missing(rule, '_propose_new_center_amongst not found')
        return
    cps = params(callee)
    X, A, cid = ro['X'], ro['A'], ro['cid']
    n = 0
    for c in calls_in(ro['loop']):
        if _last(call_name(c)) != '_propose_new_center_amongst':
            continue
        if any(isinstance(a, ast.Starred) for a in c.args) or any(k.arg is None for k in c.keywords):
            ck.missing(rule, '%s: arguments of %s not recognised' % (F, u(c)[:80]))
            continue
        a0, a1 = arg_or_kw(c, 0, cps[0]), arg_or_kw(c, 1, cps[1])
        if a0 is None or a1 is None:
            ck.missing(rule, '%s: arguments of %s not recognised' % (F, u(c)[:80]))
            continue
        n += 1
        x0 = canon(fi.expand(a0, strict=False))
        v = classify(x0, [X], scope={X, A, cid})
        if v[0] != 'match':
            ck.decide(v, rule, modm, c, F, u(c)[:160], '',
                      'the proposal must be drawn from the data parameter `%s`; `%s` is passed as the data' % (X, u(a0)[:40]))
            continue
        verdict, shown = _membership_verdict(fi.expand(a1, strict=False), A, {cid})
        if verdict == 'unknown':
            ck.missing(rule, '%s: candidate frames `%s` of the proposal not recognised' % (F, shown))
            n -= 1
            continue
        ck.check(verdict == 'ok', rule, modm, c, F, u(c)[:160],
                 'proposal drawn from %s amongst the frames with %s' % (X, shown),
                 'the proposal for centre `%s` is drawn amongst the frames selected by `%s`, not amongst the frames that carry '
                 'label `%s`: the centre frame of another cluster can be proposed, which then is reported as centre `%s` '
                 'while it keeps its own label' % (cid, shown, cid, cid))
    ck.floor(rule, n, 1, 'proposal calls in the per-centre loop')


def d4_cold_start_trip(ck):
    """kcenters(): the centre-adding loop is entered while the number of
    centres is BELOW the requested number.  With the comparison the other way
    round a cold start (no centres yet) never takes a trip: the result has no
    centre at all and every frame keeps the initial label, which is not in
    [0, number of centres)."""
    rule = 'C01.D4.cold-start-trip'
    mod = ck.repo.mod(KC)
    F = 'kcenters'
    fn = mod.func(F)
    fi = finfo(mod, fn)
    its = [c for c in calls_in(fn)
           if _callee_names(fi, c) & {'_kcenters_iteration', '_kcenters_iteration_mpi'}]
    seen = set()
    for c in its:
        loop = _enclosing(mod, c, (ast.While, ast.For), stop=fn)
        lst = arg_or_kw(c, 4, 'center_inds')
        if loop is None or not isinstance(lst, ast.Name) or id(loop) in seen:
            continue
        seen.add(id(loop))
        want = 'len(%s)' % lst.id
        for test, pol, at in _trip_conditions(mod, fi, loop, fi.stmt(c)):
            cs = conjuncts(test, pol)
            if cs is None:
                continue
            for cj in cs:
                less = cj.as_less() if hasattr(cj, 'as_less') else None
                if less is None:
                    continue
                small, strict, big = less
                try:
                    ts, tb = fi.xu(small), fi.xu(big)
                except Exception:
                    continue
                if ts == want and want not in tb:
                    ck.ok(rule, mod, loop, str(cj), 'a trip is taken while the number of centres is below the bound: '
                          'a cold start enters the loop')
                elif tb == want and want not in ts:
                    ck.bad(rule, mod, loop, F, str(cj),
                           'a trip is only taken while the number of centres `%s` is ABOVE `%s`: a cold start (no centres) never '
                           'enters the loop, so the result has no centres and every frame keeps the initial label -1 at '
                           'distance inf - labels are not in [0, number of centres)' % (want, u(small)[:40]))


def _none_derefs(e, st, out):
    """Collect (name, node) for every use in expression `e` that fails on None
    (attribute, subscript, len(), iteration, call) of a name whose state in
    `st` is 'none'.  Short-circuit evaluation is followed: the right operand of
    `and` / `or` is evaluated under what the left operands imply, and not at
    all when they decide the result."""
    from .. import nullness as _nl
    if e is None:
        return
    if isinstance(e, ast.BoolOp):
        cur = dict(st)
        for v in e.values:
            _none_derefs(v, cur, out)
            t = _nl.truth(v, cur)
            if isinstance(e.op, ast.And):
                if t is False:
                    return
                _nl.refine(v, True, cur)
            else:
                if t is True:
                    return
                _nl.refine(v, False, cur)
        return
    if isinstance(e, ast.IfExp):
        _none_derefs(e.test, st, out)
        t = _nl.truth(e.test, st)
        if t is not False:
            a = dict(st)
            _nl.refine(e.test, True, a)
            _none_derefs(e.body, a, out)
        if t is not True:
            b = dict(st)
            _nl.refine(e.test, False, b)
            _none_derefs(e.orelse, b, out)
        return
    if isinstance(e, (ast.Lambda, ast.GeneratorExp)):
        return      # evaluated later, if at all

    def is_none(x):
        return isinstance(x, ast.Name) and st.get(x.id) == _nl.NONE
    if isinstance(e, ast.Attribute) and is_none(e.value):
        out.append((e.value.id, e))
    elif isinstance(e, ast.Subscript) and is_none(e.value):
        out.append((e.value.id, e))
    elif isinstance(e, ast.Call):
        if is_none(e.func):
            out.append((e.func.id, e))
        if call_name(e) in ('len', 'iter', 'enumerate', 'list', 'tuple', 'sorted', 'sum', 'zip') and e.args and is_none(e.args[0]):
            out.append((e.args[0].id, e))
    elif isinstance(e, (ast.ListComp, ast.SetComp, ast.DictComp)):
        g = e.generators[0]
        if is_none(g.iter):
            out.append((g.iter.id, e))
        _none_derefs(g.iter, st, out)
        return      # (the element expressions see names bound by the generators)
    for ch in ast.iter_child_nodes(e):
        if isinstance(ch, ast.expr):
            _none_derefs(ch, st, out)


def _none_results(ck, rule, mod, q, fn, fi, IN):
    """A function that hands back state arrays as `return a, b, ...` must not
    return a name that is None.  Decided only where it is certain: from the
    branch head where `name is None` is learnt, follow the CFG with the
    None-ness state; a definition of the name ends the walk, a branch whose
    test the state decides is followed on the decided side only, and a branch
    the state does NOT decide ends the walk as well (the path may be excluded
    by a relation between the options that the None-ness domain cannot
    express, e.g. 'both given or neither').  Reaching a `return` that carries
    the name is then a path every such call takes."""
    from .. import nullness as _nl
    from ..cfg import Assume, stmt_defs
    cfg = fi.cfg
    rets = {}
    for r in returns_of(fn):
        v = r.value
        if isinstance(v, ast.Tuple) and len(v.elts) >= 2:
            rets[r] = {e.id for e in v.elts if isinstance(e, ast.Name)}
    if not rets:
        return
    reported = set()
    for nd in cfg.nodes:
        if not isinstance(nd, Assume) or IN.get(nd) is None:
            continue
        before = IN[nd]
        after = dict(before)
        _nl.refine(nd.test, nd.polarity, after)
        learnt = {k for k, v in after.items() if v == _nl.NONE and before.get(k) != _nl.NONE}
        if not any(learnt & names for names in rets.values()):
            continue
        seen, work = set(), [(nd, after)]
        while work:
            x, st = work.pop()
            for y in cfg.succ.get(x, []):
                if y in ('ENTRY', 'EXIT'):
                    continue
                key = (id(y), tuple(sorted((k, v) for k, v in st.items() if v != _nl.MAYBE)))
                if key in seen:
                    continue
                seen.add(key)
                st2 = dict(st)
                if isinstance(y, Assume):
                    t = _nl.truth(y.test, st)
                    if t is None or t != y.polarity:
                        continue        # excluded, or not decided by the state: not certain
                    _nl.refine(y.test, y.polarity, st2)
                elif y in rets:
                    for name in sorted(learnt & rets[y]):
                        if st.get(name) == _nl.NONE and (name, id(y)) not in reported:
                            reported.add((name, id(y)))
                            ck.bad(rule, mod, y, q, '%s  after  %s%s' % (u(y)[:80], '' if nd.polarity else 'not ', u(nd.test)[:80]),
                                   '`%s` is None on the branch taken when `%s` is %s and is returned unchanged by `%s`: the caller '
                                   'receives None where the state array is expected and fails on its first use - no clustering '
                                   'result for this start' % (name, u(nd.test)[:60], 'true' if nd.polarity else 'false', u(y)[:60]))
                    continue
                elif isinstance(y, ast.AST):
                    if isinstance(y, (ast.For, ast.AsyncFor, ast.While, ast.Try, ast.ExceptHandler)):
                        continue        # zero-trip / exceptional continuation: not certain
                    for name in set(stmt_defs(y) or ()):
                        st2[name] = _nl.MAYBE
                    if not any(st2.get(k) == _nl.NONE for k in learnt):
                        continue
                work.append((y, st2))


def d4_none_deref(ck):
    """Every entry point has options that default to None (`args`,
    `init_centers`, `proposals`, `cluster_center_inds`, ...).  On a path on
    which such a name is KNOWN to be None (the path was selected by a test
    against None) it must not be dereferenced: the call would raise for the
    default configuration and no clustering result exists at all."""
    rule = 'C01.D4.none-deref'
    from .. import nullness as _nl
    from ..cfg import Assume, header_exprs
    sites = [(KC, 'kcenters'), (KC, '_kcenters_iteration'), (KM, 'kmedoids'), (KM, '_kmedoids_inputs_tree'),
             (KM, '_kmedoids_iterations'), (KM, '_kmedoids_pam_update'), (KM, '_propose_new_center_amongst'),
             (HY, 'hybrid'), (CU, 'assign_to_nearest_center'), (KC, 'KCenters.fit'), (KM, 'KMedoids.fit'),
             (HY, 'KHybrid.fit')]
    n = 0
    for rel, q in sites:
        mod = ck.repo.mod(rel)
        fn = mod.functions.get(q)
        if fn is None:
            continue
        fi = finfo(mod, fn)
        ck.analysed(mod, fn)
        try:
            IN, _ = _nl.run(fi, {})
        except Exception as exc:
            ck.missing(rule, '%s: None-ness dataflow failed (%s)' % (q, exc))
            continue
        uses = 0
        for s in fi.cfg.nodes:
            if s in ('ENTRY', 'EXIT') or isinstance(s, Assume) or not isinstance(s, ast.AST):
                continue
            st = IN.get(s)
            if st is None:
                continue
            found = []
            for e in header_exprs(s) or []:
                if isinstance(s, (ast.For, ast.AsyncFor)) and e is s.iter and isinstance(e, ast.Name) and st.get(e.id) == _nl.NONE:
                    found.append((e.id, e))
                _none_derefs(e, st, found)
            uses += 1
            for nm, node in found:
                ck.bad(rule, mod, s, q, '%s  in  %s' % (u(node)[:60], u(s)[:100]),
                       '`%s` is None whenever this point is reached (the path was selected by a test of `%s` against None) '
                       'and `%s` is evaluated on it: the call raises instead of returning a clustering result%s' % (
                           nm, nm, u(node)[:50],
                           ' - and None is the default of `%s`' % nm if nm in params(fn) and isinstance(
                               param_default(fn, nm), ast.Constant) and param_default(fn, nm).value is None else ''))
        ck.ok(rule, mod, fn, '%s: %d statements' % (q, uses), 'no use of a name on a path on which it is known to be None')
        n += 1
        _none_results(ck, rule.replace('none-deref', 'none-result'), mod, q, fn, fi, IN)
    ck.floor(rule, n, 8, 'entry points analysed for None paths')


def _format_site(ck, rule, mod, F, fi, node, kind, conds, env_plain, env_pair, what, test_text):
    """One construct that only makes sense for ONE format of the centre
    indices.  kind 'pair': it treats an index as (rank, local index) / runs the
    MPI variant - it must be unreachable in the plain (serial) world; kind
    'plain': it uses an index as a frame number of the data - it must be
    unreachable in the pair world.  -> 1 if decided."""
    env = env_plain if kind == 'pair' else env_pair
    # only the conditions that speak about the format decide; the others
    # (options, validation guard clauses) hold in both worlds alike
    conds = [c for c in conds if _mentions_atom(fi, [c], env)]
    if not conds:
        ck.missing(rule, '%s: %s is not guarded by the format test `%s`' % (F, what[:80], test_text))
        return 0
    r = _reach3t(fi, conds, env)
    if r is False:
        ck.ok(rule, mod, node, what[:160], '%s-format construct, unreachable when `%s` is %s' % (
            kind, test_text, 'false' if kind == 'pair' else 'true'))
        return 1
    if r is True:
        if kind == 'pair':
            why = ('this treats centre indices as (rank, local index) pairs / runs the MPI variant, but it is on the branch taken '
                   'when `%s` is FALSE, i.e. for plain frame indices of a serial run: the reported centre indices are then pairs '
                   '(or the call fails), center_indices[j] is not the frame number of centre j' % test_text)
        else:
            why = ('this uses a centre index as a plain frame number of the data, but it is on the branch taken when `%s` is TRUE, '
                   'i.e. when the indices are (rank, local index) pairs' % test_text)
        ck.bad(rule, mod, node, F, what[:200], why)
        return 1
    ck.missing(rule, '%s: %s may be reached whatever `%s` says' % (F, what[:80], test_text))
    return 0


def _alias_arms(fi, v, extra, depth=3):
    """[(function name, extra conditions)] a callable-valued expression may denote."""
    if isinstance(v, ast.IfExp):
        return _alias_arms(fi, v.body, extra + [(v.test, True)], depth) + \
            _alias_arms(fi, v.orelse, extra + [(v.test, False)], depth)
    if isinstance(v, ast.Attribute):
        return [(v.attr, extra)]
    if isinstance(v, ast.Name):
        return [(v.id, extra)]
    return [(None, extra)]


def d1_index_format(ck):
    """Centre indices come in two formats: plain frame numbers (serial) and
    (rank, local index) pairs (MPI).  Which code handles them is selected by
    format tests (`mpi_mode`, `hasattr(<index>, '__len__')`, `mpi.size() > 1`).
    Necessary: a construct of the pair world (distribute_frame, the *_mpi
    variants, `index[0]`/`index[1]`) is unreachable when the format test is
    false, and a construct of the plain world (`X[index]`, the serial
    variants) is unreachable when it is true.  With the polarity inverted a
    serial run reports (0, i) pairs as centre indices or fails."""
    rule = 'C01.D1.index-format'
    n = 0
    # (a) kcenters(): which iteration variant runs
    mod = ck.repo.mod(KC)
    F = 'kcenters'
    fn = mod.func(F)
    fi = finfo(mod, fn)
    flag = 'mpi_mode'
    VAR = {'_kcenters_iteration_mpi': 'pair', '_kcenters_iteration': 'plain'}
    if flag not in params(fn):
        ck.missing(rule, 'kcenters: option `mpi_mode` not found')
    else:
        envs = ({flag: False}, {flag: True})
        for c in calls_in(fn):
            if not (_callee_names(fi, c) & set(VAR)):
                continue
            if isinstance(c.func, ast.Name) and c.func.id not in VAR:
                try:
                    dsites = [x for x in fi.defs_of_use(c.func)]
                except Exception:
                    dsites = []
                for site in dsites:
                    v = fi.def_value(site, c.func.id) if site not in ('PARAM', 'UNBOUND') else None
                    if v is None:
                        ck.missing(rule, 'kcenters: definition of the iteration alias `%s` not recognised' % c.func.id)
                        continue
                    for name, extra in _alias_arms(fi, v, []):
                        if name not in VAR:
                            ck.missing(rule, 'kcenters: iteration alias `%s` may denote `%s`' % (c.func.id, name))
                            continue
                        if fi.rd.defs_at(site, flag) != {'PARAM'}:
                            ck.missing(rule, 'kcenters: `%s` is rebound before the variant is selected' % flag)
                            continue
                        n += _format_site(ck, rule, mod, F, fi, site, VAR[name],
                                          _def_use_conditions(fi, site, fi.stmt(c), c.func.id) + extra,
                                          envs[0], envs[1], '%s = %s' % (c.func.id, name), flag)
            else:
                name = _last(call_name(c))
                st = fi.stmt(c)
                if name in VAR and st is not None and fi.rd.defs_at(st, flag) == {'PARAM'}:
                    n += _format_site(ck, rule, mod, F, fi, st, VAR[name], _dominating_conditions(fi, st), envs[0], envs[1],
                                      'call of %s' % name, flag)
    # (b)+(c) PAM update and the proposal helper
    modm = ck.repo.mod(KM)
    F = '_kmedoids_pam_update'
    fnp = modm.func(F)
    fip = finfo(modm, fnp)
    ro = _pam_roles(ck, rule, modm, fnp, fip)
    if ro is not None:
        I, X = ro['I'], ro['X']
        list_atom = C("hasattr(%s[0], '__len__')" % I)
        # names that hold ONE centre index: what is stored into I[..], plain iteration targets over I
        J = {s.value.id for s, t in subscript_stores(ro['loop'], I) if isinstance(s, ast.Assign) and isinstance(s.value, ast.Name)}
        for nd in ast.walk(fnp):
            if isinstance(nd, (ast.For, ast.comprehension)) and isinstance(nd.target, ast.Name):
                try:
                    it = canon(fip.expand(nd.iter)) if isinstance(nd, ast.For) else canon(nd.iter)
                except Exception:
                    it = canon(nd.iter)
                if isinstance(it, ast.Name) and it.id == I:
                    J.add(nd.target.id)
        env_plain = {list_atom: False}
        env_pair = {list_atom: True}
        for j in J:
            env_plain[C("hasattr(%s, '__len__')" % j)] = False
            env_pair[C("hasattr(%s, '__len__')" % j)] = True
        shown = "hasattr(<centre index>, '__len__')"
        for c in calls_in(fnp):
            if _last(call_name(c)) == 'distribute_frame':
                st = fip.stmt(c)
                n += _format_site(ck, rule, modm, F, fip, st, 'pair', _dominating_conditions(fip, st), env_plain, env_pair,
                                  u(c)[:120], shown)
        for x in ast.walk(fnp):
            if isinstance(x, ast.Subscript) and isinstance(x.ctx, ast.Load) and isinstance(x.value, ast.Name) and x.value.id == X \
                    and isinstance(_strip_int(x.slice), ast.Name) and _strip_int(x.slice).id in J:
                st = fip.stmt(x)
                if st is None:
                    continue
                n += _format_site(ck, rule, modm, F, fip, st, 'plain', _dominating_conditions(fip, st), env_plain, env_pair,
                                  '%s  in  %s' % (u(x), u(st)[:100]), shown)
        # the proposal helper: its format flag is what receives the format test of the index list
        callee = modm.functions.get('_propose_new_center_amongst')
        cps = params(callee) if callee is not None else []
        flagq = None
        for c in calls_in(ro['loop']):
            if _last(call_name(c)) != '_propose_new_center_amongst' or callee is None:
                continue
            passed = [(cps[i], a) for i, a in enumerate(c.args) if i < len(cps) and not isinstance(a, ast.Starred)] + \
                     [(k.arg, k.value) for k in c.keywords if k.arg]
            cand = [(pn, a) for pn, a in passed if match("hasattr(_S, '__len__')", fip.expand(a, strict=False)) is not None
                    or pn == 'mpi_mode']
            if len(cand) != 1:
                if 'mpi_mode' in cps:
                    ck.missing(rule, '%s: format flag of %s not passed in a recognised way' % (F, u(c)[:80]))
                continue
            pn, a = cand[0]
            xa = canon(fip.expand(a, strict=False))
            v = classify(xa, [list_atom], scope={I})
            if isinstance(xa, ast.UnaryOp) and isinstance(xa.op, ast.Not) and u(xa.operand) == list_atom:
                v = ('near', 1, list_atom)      # the negated format test
            n += 1
            ck.decide(v, rule, modm, c, F, '%s=%s' % (pn, u(a)[:80]),
                      'the proposal helper is told the format of the index list `%s`' % I,
                      'the format flag `%s` of the proposal helper must be `%s` (are the centre indices pairs?)' % (pn, list_atom))
            if v[0] == 'match':
                flagq = pn
        if flagq is not None:
            Fq = '_propose_new_center_amongst'
            fiq = finfo(modm, callee)
            Xq = cps[0]
            envs = ({flagq: False}, {flagq: True})
            for r, elts in _ret_tuples(fiq, callee, 2):
                if not elts:
                    continue
                cexp = elts[0]
                dsites = [(site, fiq.def_value(site, cexp.id) if site not in ('PARAM', 'UNBOUND') else None)
                          for site in fiq.defs_of_use(cexp)] if isinstance(cexp, ast.Name) else [(r, cexp)]
                for site, v in dsites:
                    if v is None or site in ('PARAM', 'UNBOUND'):
                        continue
                    if fiq.rd.defs_at(site, flagq) != {'PARAM'}:
                        ck.missing(rule, '%s: `%s` is rebound before the format is tested' % (Fq, flagq))
                        continue
                    if isinstance(v, ast.Call) and _last(call_name(v)) == 'distribute_frame':
                        kind = 'pair'
                    elif isinstance(v, ast.Subscript) and u(v.value) == Xq:
                        kind = 'plain'
                    else:
                        continue
                    n += _format_site(ck, rule, modm, Fq, fiq, site, kind, _dominating_conditions(fiq, site), envs[0], envs[1],
                                      u(site)[:120], flagq)
    # (d) _kmedoids_inputs_tree: conversion of (trajectory, frame) pairs
    F = '_kmedoids_inputs_tree'
    fnt = modm.functions.get(F)
    if fnt is not None:
        fit = finfo(modm, fnt)
        P = None
        for r, elts in _ret_tuples(fit, fnt, 3):
            if elts and isinstance(elts[2], ast.Name):
                P = elts[2].id
        if P is None:
            ck.missing(rule, '%s: returned index list not found' % F)
        else:
            atom = C("hasattr(%s[0], '__len__')" % P)
            done = set()
            for x in ast.walk(fnt):
                if isinstance(x, ast.Subscript) and isinstance(x.ctx, ast.Load) and isinstance(x.value, ast.Subscript) and \
                        isinstance(x.value.value, ast.Name) and x.value.value.id == P and const_value(x.slice) in (0, 1):
                    st = fit.stmt(x)
                    if st is None or id(st) in done:
                        continue
                    done.add(id(st))
                    n += _format_site(ck, rule, modm, F, fit, st, 'pair', _dominating_conditions(fit, st), {atom: False}, {atom: True},
                                      '%s  in  %s' % (u(x), u(st)[:100]), atom)
    # (e) kmedoids(): which input tree runs
    F = 'kmedoids'
    fnk = modm.functions.get(F)
    if fnk is not None:
        fik = finfo(modm, fnk)
        VARK = {'_kmedoids_inputs_tree_mpi': 'pair', '_kmedoids_inputs_tree': 'plain'}
        for c in calls_in(fnk):
            name = _last(call_name(c))
            if name in VARK:
                st = fik.stmt(c)
                n += _format_site(ck, rule, modm, F, fik, st, VARK[name], _dominating_conditions(fik, st),
                                  {'@size': (1,)}, {'@size': (2, 3, 64)}, 'call of %s' % name, 'mpi.size() > 1')
    ck.floor(rule, n, 8, 'format-specific constructs')


# ---------------------------------------------------------------------------
# sixth wave: the two arrays of the commit test are different objects, and the
# reported distances flow from the metric parameter on every exit

def _alias_verdicts(fi, name, at, target, tdefs, depth=6, seen=None):
    """{('alias', site) | ('fresh', site) | ('unknown', site)}: may the value of
    `name` at statement `at` share storage with the array `target` (whose
    reaching definitions at the place of interest are `tdefs`)?  View-making
    steps are those of sa/effects.py (frozen tables); everything else makes a
    fresh object."""
    from ..effects import VIEW_ATTRS, VIEW_FUNCS, VIEW_METHODS
    seen = set() if seen is None else seen
    out = set()

    def of_expr(e, site, d):
        if d <= 0:
            return {('unknown', site)}
        if isinstance(e, ast.Name):
            if e.id == target:
                same = fi.rd.defs_at(site, target) == tdefs if site in fi.cfg.succ else False
                return {('alias' if same else 'unknown', site)}
            key = (e.id, id(site))
            if key in seen:
                return set()
            seen.add(key)
            sub = _alias_verdicts(fi, e.id, site, target, tdefs, d - 1, seen)
            # the statement to name is the one that made the alias visible under `name`
            return {(k, site if k == 'alias' else s) for k, s in sub}
        if isinstance(e, ast.IfExp):
            return of_expr(e.body, site, d) | of_expr(e.orelse, site, d)
        if isinstance(e, ast.Subscript):
            sl = e.slice
            basic = isinstance(sl, ast.Slice) or (isinstance(sl, ast.Constant) and sl.value is Ellipsis) or (
                isinstance(sl, ast.Tuple) and all(isinstance(x, ast.Slice) or (
                    isinstance(x, ast.Constant) and (x.value is Ellipsis or x.value is None)) for x in sl.elts))
            return of_expr(e.value, site, d) if basic else {('fresh', site)}
        if isinstance(e, ast.Attribute):
            return of_expr(e.value, site, d) if e.attr in VIEW_ATTRS else {('fresh', site)}
        if isinstance(e, ast.Call):
            cn = call_name(e) or ''
            if isinstance(e.func, ast.Attribute) and not cn.startswith(('np.', 'numpy.')):
                if e.func.attr in VIEW_METHODS:
                    return of_expr(e.func.value, site, d)
                if e.func.attr == 'astype':
                    cp = kwarg(e, 'copy')
                    if cp is not None and not (isinstance(cp, ast.Constant) and cp.value is True):
                        return of_expr(e.func.value, site, d)
                return {('fresh', site)}
            full = 'np.' + cn.split('.', 1)[1] if cn.startswith('numpy.') else cn
            if full in VIEW_FUNCS and e.args:
                return of_expr(e.args[0], site, d)
            if full == 'np.array' and e.args:
                cp = kwarg(e, 'copy')
                if cp is not None and not (isinstance(cp, ast.Constant) and cp.value is True):
                    return of_expr(e.args[0], site, d)
            return {('fresh', site)}
        return {('fresh', site)}

    for site in fi.rd.defs_at(at, name):
        if site == 'UNBOUND':
            continue
        if site == 'PARAM':
            out.add(('alias' if name == target and 'PARAM' in tdefs else 'fresh', site))
            continue
        v = fi.def_value(site, name)
        if v is None:
            out.add(('unknown', site))
            continue
        out |= of_expr(v, site, depth)
    return out


def d2_candidate_fresh(ck):
    """The commit test `candidate < current` compares two DIFFERENT arrays: the
    candidate holds the distances to the one new centre, the current array the
    running minimum.  If a definition of the candidate that reaches the test
    is the current array itself (a name bound to it, a view of it - the dropped
    `.copy()`), every store into the candidate lands in the running minimum
    without a label store, and the test compares the array with itself: it is
    nowhere true, so no frame - not even the new centre - is handed over."""
    rule = 'C01.D2.commit.candidate-fresh'
    n = 0
    for rel, F in ((KC, '_kcenters_iteration'), (KC, '_kcenters_iteration_mpi'), (CU, 'assign_to_nearest_center')):
        mod = ck.repo.mod(rel)
        fn = mod.func(F)
        fi = finfo(mod, fn)
        ck.analysed(mod, fn)
        for inst in find_running_min_commits(mod, fn):
            new, cur, ms = inst['new'], inst['cur'], inst['mask_stmt']
            n += 1
            if new == cur:
                ck.bad(rule, mod, ms, F, u(ms),
                       'the commit mask compares `%s` with itself: it is nowhere true, nothing is ever committed' % cur)
                continue
            tdefs = fi.rd.defs_at(ms, cur)
            vs = _alias_verdicts(fi, new, ms, cur, tdefs)
            al = [s for k, s in vs if k == 'alias' and s not in ('PARAM', 'UNBOUND')]
            if al:
                for s in al:
                    muts = [m for m in fi._mutated_in_place(new)
                            if fi.cfg.reachable(s, m) and fi.cfg.reachable(m, ms)]
                    ck.bad(rule, mod, s, F, u(s),
                           'the candidate array `%s` of the commit test `%s` is bound here to the current-distance array '
                           '`%s` itself, not to a copy: %sthe test then compares the array with itself, is nowhere true, and '
                           'no frame (not even the new centre) receives the new label - labels and distances go out of step' % (
                               new, u(ms), cur,
                               ('`%s` writes candidate distances straight into `%s` whether or not they are smaller, with no '
                                'label store; ' % (u(muts[0])[:70], cur)) if muts else ''))
            else:
                ck.ok(rule, mod, ms, '%s: %s' % (F, u(ms)),
                      'candidate `%s` and current `%s` are distinct arrays on every path (%d definitions)' % (new, cur, len(vs)))
    ck.floor(rule, n, 3, 'commit tests')


def _value_slice(fi, expr, at, limit=400):
    """Backward slice of the VALUE of `expr` at statement `at` through reaching
    definitions and in-place stores: (calls, params, unknown).  calls = every
    Call node in an expression the value may have been computed by."""
    calls, pars, unknown = [], set(), []
    seen_sites, seen_exprs = set(), set()
    todo = [(expr, at)]

    def stores_into(name, at_, sites):
        for m in fi._mutated_in_place(name):
            if m not in fi.cfg.succ or id(m) in seen_sites:
                continue
            if not (m is at_ or fi.cfg.reachable(m, at_)):
                continue
            if not (fi.rd.defs_at(m, name) & sites):
                continue
            seen_sites.add(id(m))
            for e in ([m.value] if getattr(m, 'value', None) is not None else []):
                todo.append((e, m))
            tg = m.targets if isinstance(m, ast.Assign) else [getattr(m, 'target', None)]
            for t in tg:
                if isinstance(t, ast.Subscript):
                    todo.append((t.slice, m))

    while todo and len(seen_exprs) < limit:
        e, st = todo.pop()
        if id(e) in seen_exprs:
            continue
        seen_exprs.add(id(e))
        bound = set()
        for x in ast.walk(e):
            if isinstance(x, ast.comprehension):
                bound |= set(target_names(x.target))
            elif isinstance(x, ast.Lambda):
                bound |= {a.arg for a in x.args.args}
        for x in ast.walk(e):
            if isinstance(x, ast.Call):
                calls.append((x, st))
            if not (isinstance(x, ast.Name) and isinstance(x.ctx, ast.Load)) or x.id in bound:
                continue
            sites = fi.rd.defs_at(st, x.id) if st in fi.cfg.succ else set()
            for site in sites:
                if site == 'PARAM':
                    pars.add(x.id)
                elif site == 'UNBOUND' or id(site) in seen_sites:
                    continue
                else:
                    seen_sites.add(id(site))
                    if isinstance(site, (ast.Assign, ast.AnnAssign, ast.AugAssign)) and site.value is not None:
                        todo.append((site.value, site))
                    elif isinstance(site, (ast.For, ast.AsyncFor)):
                        todo.append((site.iter, site))
                    elif isinstance(site, (ast.With, ast.AsyncWith)):
                        for it in site.items:
                            todo.append((it.context_expr, site))
                    elif isinstance(site, (ast.Import, ast.ImportFrom, ast.FunctionDef, ast.ClassDef)):
                        pass
                    else:
                        unknown.append(site)
            if sites:
                stores_into(x.id, st, sites)
    return calls, pars, unknown


_SHAPE_ONLY = ('len', 'range', 'enumerate', 'isinstance', 'hasattr', 'getattr', 'type', 'int', 'float', 'print')


def d2_metric_source(ck):
    """Every reported distance is a value RETURNED BY the metric callable the
    caller handed in.  On every exit of the three producers of (labels,
    distances) the value of the distance component is traced back through
    reaching definitions and in-place stores: it has to flow from a call of the
    metric parameter.  An exit whose distances are computed from the data by
    some OTHER function (a library routine, a closed formula) reports numbers
    the metric never returned - for a user callable they are unrelated, for a
    built-in kernel they agree at best up to rounding - while all other exits
    and every consumer compare against the metric's own values."""
    rule = 'C01.D2.metric-source'
    n = 0
    for rel, F, arity, pos in ((CU, 'assign_to_nearest_center', 2, 1), (KC, '_kcenters_iteration', 4, 1),
                               (KC, '_kcenters_iteration_mpi', 4, 1)):
        mod = ck.repo.mod(rel)
        fn = mod.func(F)
        fi = finfo(mod, fn)
        ck.analysed(mod, fn)
        ps = params(fn)
        P0 = ps[0]
        metrics = set()
        for c in calls_in(fn):
            if isinstance(c.func, ast.Name) and c.func.id in ps:
                try:
                    if fi.defs_of_use(c.func) == {'PARAM'}:
                        metrics.add(c.func.id)
                except Exception:
                    pass
        if not metrics:
            ck.missing(rule, '%s: no parameter is called as the metric' % F)
            continue
        # names the function compares the metric with (`metric is euclidean`): calling those is calling the metric
        twins_of_metric = set()
        for cmpn in [x for x in ast.walk(fn) if isinstance(x, ast.Compare) and len(x.ops) == 1]:
            a, b = cmpn.left, cmpn.comparators[0]
            for p, q in ((a, b), (b, a)):
                if isinstance(p, ast.Name) and p.id in metrics and isinstance(q, (ast.Name, ast.Attribute)):
                    twins_of_metric.add(u(q))
        for r, elts in _ret_tuples(fi, fn, arity):
            if r not in fi.cfg.succ:
                continue
            e = elts[pos] if elts else r.value
            if e is None:
                continue
            calls, pars, unknown = _value_slice(fi, e, r)
            via_metric = delegated = via_twin = False
            other = []
            for c, st in calls:
                f = c.func
                rf = fi.resolve(f) if isinstance(f, ast.Name) else f
                if isinstance(rf, ast.Name) and rf.id in metrics and (rf is not f or fi.defs_of_use(f) == {'PARAM'}):
                    via_metric = True
                    continue
                if u(f) in twins_of_metric:
                    via_twin = True
                    continue
                argn = [x for a in list(c.args) + [k.value for k in c.keywords] for x in ast.walk(a)]
                if any(isinstance(x, ast.Name) and x.id in metrics for x in argn):
                    delegated = True
                    continue
                cn = call_name(c) or u(f)
                if _last(cn) in _SHAPE_ONLY or _last(cn) in _ALLOCATORS:
                    continue
                uses_data = False
                for a in list(c.args) + [k.value for k in c.keywords] + (
                        [f.value] if isinstance(f, ast.Attribute) else []):
                    try:
                        xa = fi.expand(a, strict=False)
                    except Exception:
                        xa = a
                    if any(isinstance(x, ast.Name) and x.id == P0 for x in ast.walk(xa)):
                        uses_data = True
                if uses_data and not (isinstance(f, ast.Attribute) and isinstance(f.value, ast.Name) and f.value.id == P0):
                    other.append((c, st))
            construct = u(r)[:120]
            if via_metric or delegated:
                n += 1
                ck.ok(rule, mod, r, '%s: %s' % (F, construct),
                      'the distances reported on this exit flow from %s' % (
                          'a call of the metric parameter' if via_metric else 'a helper that is handed the metric'))
            elif via_twin or unknown:
                ck.missing(rule, '%s: cannot relate the distances of `%s` to the metric parameter `%s`' % (
                    F, construct[:60], '/'.join(sorted(metrics))))
            elif other:
                c, st = other[0]
                n += 1
                ck.bad(rule, mod, st, F, u(st)[:160],
                       'the distances reported by `%s` are computed from the data `%s` by `%s`, and no call of the metric '
                       'parameter `%s` feeds them: the reported distance is then not the value the metric returns for that '
                       'frame and its centre (another formula / another rounding; unrelated numbers for a user callable), '
                       'while the other exits and every consumer (running-minimum commit, PAM reassignment, the strict '
                       '"no centre closer" comparison) use the metric\'s own values' % (
                           construct[:60], P0, (call_name(c) or u(c.func))[:60], '/'.join(sorted(metrics))))
            else:
                ck.missing(rule, '%s: the distances of `%s` do not flow from a call of the metric parameter `%s`' % (
                    F, construct[:60], '/'.join(sorted(metrics))))
    ck.floor(rule, n, 3, 'exits of the (labels, distances) producers')


# ---------------------------------------------------------------------------
# seventh wave: caller-supplied labels are POSITIONS in the caller-supplied
# centre index list - the warm-start normalisation must keep that list in the
# caller's order on every path on which the labels are passed through

_REORDERING = {'unique', 'sort', 'sorted', 'argsort', 'flip', 'flipud', 'fliplr', 'permutation', 'shuffle',
               'set', 'frozenset', 'roll', 'partition', 'reversed', 'union1d', 'intersect1d', 'setdiff1d',
               'msort', 'lexsort', 'choice', 'sample', 'permuted'}
_POSITIONWISE = {'asarray', 'array', 'asanyarray', 'ascontiguousarray', 'list', 'tuple', 'copy', 'deepcopy',
                 'astype', 'tolist'}


def _order_step(v, P):
    """How the value `v` relates to the sequence named `P`, position by
    position.  -> (kind, detail): 'free' (does not read P), 'keep' (element k
    is a function of P[k] for every k, same length), 'bad' (a recognised
    reordering / deduplication of P), 'unknown'."""
    if P not in names_loaded(v):
        return 'free', ''
    if isinstance(v, ast.Name):
        return 'keep', ''
    if isinstance(v, ast.Call):
        ln = _last(call_name(v))
        recv = v.func.value if isinstance(v.func, ast.Attribute) else None
        if recv is not None and P in names_loaded(recv):
            first, rest = recv, list(v.args)
        else:
            first, rest = (v.args[0] if v.args else None), list(v.args[1:])
        rest += [k.value for k in v.keywords]
        if first is None or isinstance(first, ast.Starred) or any(P in names_loaded(x) for x in rest):
            return 'unknown', 'call `%s` not recognised' % u(v)[:60]
        if ln in _REORDERING:
            inner = _order_step(first, P)
            if inner[0] in ('keep', 'bad'):
                return 'bad', '`%s` does not keep the positions of `%s`' % (u(v)[:60], P)
            return 'unknown', 'call `%s` not recognised' % u(v)[:60]
        if ln in _POSITIONWISE:
            return _order_step(first, P)
        return 'unknown', 'call `%s` not recognised' % u(v)[:60]
    if isinstance(v, ast.Subscript) and isinstance(v.value, ast.Name) and v.value.id == P and \
            isinstance(v.slice, ast.Slice) and v.slice.lower is None and v.slice.upper is None:
        st = v.slice.step
        if st is None or const_value(st) == 1:
            return 'keep', ''
        if isinstance(const_value(st), int) and const_value(st) < 0:
            return 'bad', '`%s` reverses `%s`' % (u(v), P)
        return 'unknown', 'slice `%s` not recognised' % u(v)
    if isinstance(v, ast.ListComp) and len(v.generators) == 1 and not v.generators[0].is_async:
        g = v.generators[0]
        if g.ifs:
            return 'unknown', 'filtered comprehension over `%s`' % P
        if isinstance(g.iter, ast.Name) and g.iter.id == P and P not in names_loaded(v.elt) and \
                P not in target_names(g.target):
            return 'keep', ''
        if isinstance(g.target, ast.Name) and g.target.id != P and any(
                match(f, g.iter) is not None for f in (
                    'range(len(%s))' % P, 'np.arange(len(%s))' % P, 'range(0, len(%s))' % P,
                    'range(%s.shape[0])' % P, 'np.arange(%s.shape[0])' % P)):
            i = g.target.id
            par = {}
            for x in ast.walk(v.elt):
                for c in ast.iter_child_nodes(x):
                    par[c] = x
            uses = [x for x in ast.walk(v.elt) if isinstance(x, ast.Name) and x.id == P]
            if all(isinstance(par.get(x), ast.Subscript) and par[x].value is x and
                   isinstance(par[x].slice, ast.Name) and par[x].slice.id == i for x in uses):
                return 'keep', ''
        return 'unknown', 'comprehension `%s` not recognised' % u(v)[:60]
    return 'unknown', 'value `%s` not recognised' % u(v)[:60]


def d1_warm_order(ck):
    """A warm start hands k-medoids labels AND a centre index list: label k
    means `the centre at position k of that list`.  The input normalisation
    returns the labels untouched, so on every such path the returned index list
    must be positionwise the caller's list (itself, an elementwise conversion,
    a copy); a sorted / deduplicated / permuted list pairs label k with another
    centre: centre frames no longer carry their own label."""
    rule = 'C01.D1.warm-order'
    mod = ck.repo.mod(KM)
    F = '_kmedoids_inputs_tree'
    fn = mod.functions.get(F)
    if fn is None:
        ck.missing(rule, '%s not found' % F)
        return
    fi = finfo(mod, fn)
    ck.analysed(mod, fn)
    ps = params(fn)
    n = 0
    seen = set()

    def chain(P, at, env, depth=6):
        nonlocal n
        try:
            defs = fi.rd.defs_at(at, P)
        except Exception:
            ck.missing(rule, '%s: definitions of `%s` not resolved' % (F, P))
            return
        for site in defs:
            if site in ('PARAM', 'UNBOUND') or id(site) in seen:
                continue
            conds = _def_use_conditions(fi, site, at, P)
            if _reach3t(fi, conds, env) is False:
                continue            # only when no labels were supplied
            seen.add(id(site))
            v = fi.def_value(site, P) if isinstance(site, (ast.Assign, ast.AnnAssign)) else None
            if v is None:
                ck.missing(rule, '%s: definition of the index list not recognised: %s' % (F, u(site)[:80]))
                continue
            try:
                vx = canon(fi.expand(v, stop=(P,)))
            except Exception:
                vx = v
            kind, why = _order_step(vx, P)
            n += 1
            if kind == 'free':
                ck.ok(rule, mod, site, u(site)[:100], 'index list not derived from the caller\'s list here')
            elif kind == 'keep':
                ck.ok(rule, mod, site, u(site)[:100], 'element k of the index list derives from element k of the caller\'s list')
                if depth > 0:
                    chain(P, site, env, depth - 1)
            elif kind == 'bad':
                ck.bad(rule, mod, site, F, u(site)[:120],
                       'the caller\'s labels are returned unchanged on this path and number the centres by their '
                       'position in `%s`; %s, so label k no longer denotes centre k (centre frames lose their own label)' % (P, why))
            else:
                ck.missing(rule, '%s: %s (is the centre index list still in the caller\'s order?)' % (F, why))

    for r, elts in _ret_tuples(fi, fn, 3):
        if not elts:
            continue
        A, P = elts[0], elts[2]
        if not (isinstance(A, ast.Name) and isinstance(P, ast.Name) and A.id in ps and P.id in ps):
            ck.missing(rule, '%s: returned (labels, distances, index list) are not the parameters: %s' % (F, u(r)[:80]))
            continue
        if 'PARAM' not in fi.rd.defs_at(r, A.id):
            continue
        n += 1
        env = {C('%s is None' % A.id): False, C('%s is not None' % A.id): True}
        chain(P.id, r, env)
        for ms in fi._mutated_in_place(P.id):
            for c in calls_in(ms):
                ln = _last(call_name(c))
                on_p = (isinstance(c.func, ast.Attribute) and isinstance(c.func.value, ast.Name) and c.func.value.id == P.id
                        and ln in ('sort', 'reverse')) or (ln == 'shuffle' and c.args and isinstance(c.args[0], ast.Name)
                                                           and c.args[0].id == P.id)
                if on_p and id(ms) not in seen and fi.cfg.reachable(ms, r) and \
                        _reach3t(fi, _dominating_conditions(fi, ms), env) is not False:
                    seen.add(id(ms))
                    ck.bad(rule, mod, ms, F, u(ms)[:120],
                           'the centre index list `%s` is reordered in place while the caller\'s labels, which number '
                           'the centres by position, are returned unchanged' % P.id)
    ck.floor(rule, n, 1, 'returns of the warm-start normalisation')


def check(ck):
    d1_lockstep(ck)
    d1_warm_order(ck)
    d1_warmstart(ck)
    d1_propose(ck)
    d1_no_reselect(ck)
    d1_find_centers(ck)
    d1_propose_args(ck)
    d1_index_format(ck)
    kc = ck.repo.mod(KC)
    n = check_running_min_commit(ck, 'C01.D2.commit', kc, '_kcenters_iteration',
                                 True, 'len-before-append')
    n += check_running_min_commit(ck, 'C01.D2.commit', kc, '_kcenters_iteration_mpi',
                                  True, 'len-before-append')
    cu = ck.repo.mod(CU)
    n += check_running_min_commit(ck, 'C01.D2.commit', cu, 'assign_to_nearest_center',
                                  False, 'enumerate-index')
    ck.floor('C01.D2.commit', n, 3, 'running-minimum commits')
    d2_candidate_fresh(ck)
    d2_metric_source(ck)
    d2_argmin_branch(ck)
    d2_shortcut_optin(ck)
    d2_metric_args(ck)
    d3_pam_three_way(ck)
    d4_result_fields(ck)
    d4_find_centers_args(ck)
    d4_cold_start_trip(ck)
    d4_none_deref(ck)
    d4_index_dtype(ck)
    d4_fit_result(ck)
    entries = [(KC, 'kcenters'), (KC, 'kcenters_mpi'), (KM, 'kmedoids'),
               (HY, 'hybrid'), (CU, 'assign_to_nearest_center'),
               (CU, 'find_cluster_centers'), (KC, 'KCenters.fit'),
               (KM, 'KMedoids.fit'), (HY, 'KHybrid.fit'),
               (CU, 'MolecularClusterMixin.predict'),
               (KM, '_kmedoids_iterations'), (KM, '_kmedoids_pam_update'),
               (KM, '_kmedoids_inputs_tree'), (KM, '_propose_new_center_amongst')]
    check_no_arg_mutation(ck, 'C01.D5.inputs-unmodified', entries)
    return EXPLANATION

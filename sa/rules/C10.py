"""C10 Nearest-centre assignment and per-trajectory bookkeeping."""
import ast

from ..core import (AnalysisIncomplete, call_name, kwarg, names_loaded,
                    params, target_names, u, walk_expr, walk_local)
from ..patterns import (Cmp, assigns_to, calls_in, check_no_arg_mutation,
                        conjuncts, finfo, returns_of, subscript_stores)
from .cluster_common import CU, check_running_min_commit
from .C01 import d2_argmin_branch

RA = 'enspara/ra/ra.py'

EXPLANATION = (
    'Static decision of the structural necessary conditions of C10: (D1) both '
    'branches of assign_to_nearest_center commit label and distance together '
    '(running-minimum commit / argmin+min of one vector) and call the metric '
    'as metric(<many>, <one>) with the loop element as the single item; '
    'predict reuses the fitted centres and metric; (D2) the rectangular and '
    'ragged branches of ClusterResult.partition build the same fields from '
    'the same sources and differ only in the container; (D3) '
    'partition_indices selects the trajectory with the strict test '
    'traj_len > index and updates index and trajectory counter together in '
    'the complementary branch; (D4) find_cluster_centers maps the argmin over '
    'distances[members] back through the same members array; (D5) '
    'partition_list slices with a running offset after the sum-of-lengths '
    'guard; plus no argument mutation (A4). Minimality of distances as numbers '
    'is not decided.')


def d1_metric_arg_order(ck):
    rule = 'C10.D1.metric-args'
    mod = ck.repo.mod(CU)
    fn = mod.func('assign_to_nearest_center')
    ck.analysed(mod, fn)
    ps = params(fn)
    n = 0
    for loop in [l for l in walk_local(fn) if isinstance(l, ast.For)]:
        it = loop.iter
        if not (isinstance(it, ast.Call) and call_name(it) == 'enumerate' and it.args
                and isinstance(loop.target, ast.Tuple) and len(loop.target.elts) == 2):
            continue
        coll = u(it.args[0])
        elem = u(loop.target.elts[1])
        other = [p for p in ps[:2] if p != coll]
        for c in calls_in(loop):
            if u(c.func) != ps[2]:
                continue
            n += 1
            ok = len(c.args) == 2 and u(c.args[1]) == elem and other and u(c.args[0]) == other[0]
            ck.check(ok, rule, mod, c, 'assign_to_nearest_center',
                     'for _, %s in enumerate(%s): %s' % (elem, coll, u(c)),
                     'metric(<collection %s>, <single %s>)' % (other[0] if other else '?', elem),
                     'the metric takes (many items, one item): while iterating over `%s` the '
                     'call must be %s(%s, %s); swapped arguments make md.rmsd-style metrics '
                     'return distances to the wrong reference' % (coll, ps[2], other[0] if other else '?', elem))
    ck.floor(rule, n, 2, 'metric calls in assign_to_nearest_center')
    # initial state: labels zeros(int), distances +inf
    for name, want in (('distances', 'np.inf'),):
        fills = [c for c in calls_in(fn) if isinstance(c.func, ast.Attribute) and c.func.attr == 'fill'
                 and u(c.func.value) == name]
        full = [s for s in assigns_to(fn, name) if isinstance(s, ast.Assign) and isinstance(s.value, ast.Call)
                and call_name(s.value) == 'np.full']
        ok = any(u(c.args[0]) == want for c in fills if c.args) or any(
            len(s.value.args) > 1 and u(s.value.args[1]) == want for s in full)
        ck.check(ok, 'C10.D1.init', mod, fn, 'assign_to_nearest_center', '%s starts at %s' % (name, want),
                 'running minimum starts at +inf', 'running-minimum distances must start at +inf for every frame')


def d1_predict(ck):
    rule = 'C10.D1.predict'
    mod = ck.repo.mod(CU)
    fn = mod.func('MolecularClusterMixin.predict')
    ck.analysed(mod, fn)
    cs = [c for c in calls_in(fn) if (call_name(c) or '').endswith('assign_to_nearest_center')]
    if len(cs) != 1:
        ck.missing(rule, 'assign_to_nearest_center call in predict')
        return
    c = cs[0]
    callee = mod.func('assign_to_nearest_center')
    ps = params(callee)
    bind = {ps[i]: a for i, a in enumerate(c.args)}
    bind.update({k.arg: k.value for k in c.keywords})
    ok = u(bind.get(ps[0])) == params(fn)[1] and u(bind.get(ps[1])) == 'self.centers_' \
        and u(bind.get(ps[2])) == 'self.metric'
    ck.check(ok, rule, mod, c, 'MolecularClusterMixin.predict', u(c),
             'predict assigns the new data to the fitted centres with the fitted metric',
             'predict must call assign_to_nearest_center(X, self.centers_, self.metric)')
    # result built from the same pair
    s = finfo(mod, fn).stmt(c)
    if isinstance(s, ast.Assign) and isinstance(s.targets[0], ast.Tuple):
        a, d = [u(e) for e in s.targets[0].elts]
        cr = [x for x in calls_in(fn) if (call_name(x) or '').endswith('ClusterResult')]
        for x in cr:
            kws = {k.arg: u(k.value) for k in x.keywords}
            ck.check(kws.get('assignments') == a and kws.get('distances') == d and
                     kws.get('centers') == 'self.centers_', rule, mod, x,
                     'MolecularClusterMixin.predict', u(x)[:160],
                     'result carries the predicted labels/distances and the fitted centres',
                     'predict result fields do not match the values it computed')


def d2_partition(ck):
    rule = 'C10.D2.partition'
    mod = ck.repo.mod(CU)
    fn = mod.func('ClusterResult.partition')
    ck.analysed(mod, fn)
    ifs = [n for n in walk_local(fn) if isinstance(n, ast.If)]
    if len(ifs) != 1:
        ck.missing(rule, 'square/ragged branch in partition')
        return
    node = ifs[0]
    # the test variable: square = all(lengths[0] == l for l in lengths)
    fi = finfo(mod, fn)
    t = fi.resolve(node.test) if isinstance(node.test, ast.Name) else node.test
    ok = isinstance(t, ast.Call) and call_name(t) == 'all' and 'lengths' in names_loaded(t)
    ck.check(ok, rule + '.test', mod, node, 'ClusterResult.partition', u(t),
             'rectangular output iff all lengths are equal',
             'the rectangular/ragged decision must be all(lengths[0] == l for l in lengths)')
    def branch_result(body):
        for s in body:
            for x in ast.walk(s):
                if isinstance(x, ast.Return) and isinstance(x.value, ast.Call):
                    return x.value
        return None
    sq, rg = branch_result(node.body), branch_result(node.orelse)
    if sq is None or rg is None:
        ck.missing(rule, 'both branches must return a ClusterResult')
        return
    ks, kr = ({k.arg: k.value for k in c.keywords} for c in (sq, rg))
    ck.check(set(ks) == set(kr) == {'assignments', 'distances', 'center_indices', 'centers'} and
             not sq.args and not rg.args, rule + '.fields', mod, node, 'ClusterResult.partition',
             'fields %s / %s' % (sorted(ks), sorted(kr)), 'same four fields by keyword in both branches',
             'the two branches build different field sets')
    for f in ('center_indices', 'centers'):
        ck.check(f in ks and f in kr and u(ks[f]) == u(kr[f]), rule + '.siblings', mod, node,
                 'ClusterResult.partition', '%s: %s / %s' % (f, u(ks.get(f)), u(kr.get(f))),
                 'identical in both branches', 'field `%s` differs between the rectangular and ragged branch' % f)
    ci = ks.get('center_indices')
    ok = isinstance(ci, ast.Call) and (call_name(ci) or '').endswith('partition_indices') and \
        [u(a) for a in ci.args] == ['self.center_indices', 'lengths']
    ck.check(ok, rule + '.indices', mod, node, 'ClusterResult.partition', u(ci),
             'centre indices converted with the same lengths',
             'center_indices must be partition_indices(self.center_indices, lengths)')
    ck.check(u(ks.get('centers')) == 'self.centers', rule + '.centers', mod, node,
             'ClusterResult.partition', u(ks.get('centers')), 'centres passed through', 'centres must be passed through unchanged')
    for f in ('assignments', 'distances'):
        a, b = ks.get(f), kr.get(f)
        ok_sq = isinstance(a, ast.Call) and call_name(a) == 'np.array' and a.args and isinstance(a.args[0], ast.Call) \
            and (call_name(a.args[0]) or '').endswith('partition_list') and \
            [u(x) for x in a.args[0].args] == ['self.%s' % f, 'lengths']
        ok_rg = isinstance(b, ast.Call) and (call_name(b) or '').endswith('RaggedArray') and b.args and \
            u(b.args[0]) == 'self.%s' % f and u(kwarg(b, 'lengths')) == 'lengths'
        ck.check(ok_sq, rule + '.square', mod, node, 'ClusterResult.partition', '%s=%s' % (f, u(a)),
                 'rectangular branch: np.array(partition_list(self.%s, lengths))' % f,
                 'rectangular branch must split self.%s by lengths' % f)
        ck.check(ok_rg, rule + '.ragged', mod, node, 'ClusterResult.partition', '%s=%s' % (f, u(b)),
                 'ragged branch: RaggedArray(self.%s, lengths=lengths)' % f,
                 'ragged branch must wrap self.%s with lengths=lengths' % f)


def d3_partition_indices(ck):
    rule = 'C10.D3.partition-indices'
    mod = ck.repo.mod(RA)
    fn = mod.func('partition_indices')
    ck.analysed(mod, fn)
    outer = [l for l in walk_local(fn) if isinstance(l, ast.For)]
    if len(outer) < 2:
        ck.missing(rule, 'nested loops over indices and trajectory lengths')
        return
    o, inner = outer[0], outer[1]
    idx, tl = u(o.target), u(inner.target)
    ck.check(u(o.iter) == params(fn)[0] and u(inner.iter) == params(fn)[1], rule, mod, o,
             'partition_indices', 'for %s in %s: for %s in %s' % (idx, u(o.iter), tl, u(inner.iter)),
             'each flat index is walked through the lengths in order', 'loops must iterate indices x traj_lengths')
    ifs = [n for n in inner.body if isinstance(n, ast.If)]
    if len(ifs) != 1:
        ck.missing(rule, 'boundary test inside the lengths loop')
        return
    node = ifs[0]
    cs = conjuncts(node.test, True)
    ok = cs is not None and len(cs) == 1 and isinstance(cs[0], Cmp)
    less = cs[0].as_less() if ok else None
    ok = less is not None and u(less[0]) == idx and u(less[2]) == tl and less[1]
    ck.check(ok, rule + '.boundary', mod, node, 'partition_indices', u(node.test),
             'frame belongs to this trajectory iff index < traj_len (strict)',
             'the trajectory owning a flat index is the first with traj_len > index (strict): '
             'with >= the last frame+1 is attributed to the wrong trajectory / first frame of '
             'the next trajectory is reported as frame len of the previous one')
    # body: append((trj_index, index)); break
    app = [c for c in calls_in(ast.Module(body=node.body, type_ignores=[])) if isinstance(c.func, ast.Attribute) and c.func.attr == 'append']
    brk = any(isinstance(x, ast.Break) for x in node.body)
    okp = len(app) == 1 and isinstance(app[0].args[0], ast.Tuple) and len(app[0].args[0].elts) == 2 and \
        u(app[0].args[0].elts[1]) == idx
    trj = u(app[0].args[0].elts[0]) if okp else None
    ck.check(okp and brk, rule + '.emit', mod, node, 'partition_indices', '; '.join(u(x) for x in node.body),
             'emit (trajectory, frame) once and stop', 'must append (trj_index, index) and break')
    # else: index -= traj_len ; trj_index += 1
    els = node.orelse
    dec = [s for s in els if isinstance(s, ast.AugAssign) and isinstance(s.op, ast.Sub) and u(s.target) == idx and u(s.value) == tl]
    inc = [s for s in els if isinstance(s, ast.AugAssign) and isinstance(s.op, ast.Add) and u(s.target) == trj and u(s.value) == '1']
    ck.check(len(dec) == 1 and len(inc) == 1, rule + '.advance', mod, node, 'partition_indices',
             '; '.join(u(x) for x in els), 'skip a whole trajectory: index -= traj_len and trj_index += 1 together',
             'the complementary branch must subtract traj_len from the index AND advance the trajectory counter')
    # trj_index reset per index
    resets = [s for s in o.body if isinstance(s, ast.Assign) and u(s.targets[0]) == trj and u(s.value) == '0']
    ck.check(len(resets) == 1, rule + '.reset', mod, o, 'partition_indices', '%s = 0 per index' % trj,
             'trajectory counter restarts for each index', 'trajectory counter must be reset to 0 for every flat index')


def d4_find_centers(ck):
    rule = 'C10.D4.find-centers'
    mod = ck.repo.mod(CU)
    fn = mod.func('find_cluster_centers')
    ck.analysed(mod, fn)
    fi = finfo(mod, fn)
    loops = [l for l in walk_local(fn) if isinstance(l, ast.For)]
    if not loops:
        ck.missing(rule, 'per-label loop')
        return
    loop = loops[0]
    # members = np.where(assignments == c)[0]
    mem = None
    for s in walk_local(loop):
        if isinstance(s, ast.Assign) and isinstance(s.value, ast.Subscript) and \
                isinstance(s.value.value, ast.Call) and call_name(s.value.value) == 'np.where':
            mem = s
    if mem is None:
        # alternative idiom: argmin over the full array with non-members masked
        alt = [s for s in walk_local(loop) if isinstance(s, ast.Assign) and isinstance(s.value, ast.Call) and
               call_name(s.value) == 'np.where' and len(s.value.args) == 3]
        am = [s for s in walk_local(loop) if isinstance(s, ast.Assign) and 'argmin' in u(s.value)]
        if alt and am:
            fill = alt[0].value.args[2]
            cond = u(alt[0].value.args[0])
            lab0 = u(loop.target.elts[1]) if isinstance(loop.target, ast.Tuple) else u(loop.target)
            ok = u(fill) in ('np.inf', 'float("inf")', "float('inf')", 'math.inf') and cond in ('assignments == %s' % lab0, '%s == assignments' % lab0) \
                and u(alt[0].value.args[1]) == 'distances'
            ck.check(ok, rule + '.index-space', mod, alt[0], 'find_cluster_centers', u(alt[0]),
                     'non-members are masked with +inf before the global argmin',
                     'when the argmin runs over the whole array, frames of other labels must be masked with +inf: masking with a '
                     'finite value (e.g. np.max(distances)) lets a NON-member win whenever the best member is as far as that value')
            return
        ck.missing(rule, 'members = np.where(assignments == label)[0]')
        return
    mname = u(mem.targets[0])
    lab = u(loop.target.elts[1]) if isinstance(loop.target, ast.Tuple) else u(loop.target)
    cond = u(mem.value.value.args[0])
    ck.check(cond in ('assignments == %s' % lab, '%s == assignments' % lab) and u(mem.value.slice) == '0',
             rule + '.members', mod, mem, 'find_cluster_centers', u(mem),
             'members of the label', 'members must be np.where(assignments == %s)[0]' % lab)
    # ind = members[np.argmin(distances[members])]
    found = False
    for s in walk_local(loop):
        if isinstance(s, ast.Assign) and isinstance(s.value, ast.Subscript) and u(s.value.value) == mname:
            inner = s.value.slice
            ok = isinstance(inner, ast.Call) and call_name(inner) in ('np.argmin',) and \
                u(inner.args[0]) == 'distances[%s]' % mname
            if not ok and isinstance(inner, ast.Call) and isinstance(inner.func, ast.Attribute) \
                    and inner.func.attr == 'argmin':
                ok = u(inner.func.value) == 'distances[%s]' % mname
            found = True
            ck.check(ok, rule + '.index-space', mod, s, 'find_cluster_centers', u(s),
                     'argmin over distances[members] mapped back through the same members',
                     'the position returned by argmin is relative to the member subset: it must be '
                     'np.argmin(distances[%s]) mapped back as %s[...]; found %s' % (mname, mname, u(s.value)))
            ind = u(s.targets[0])
            st = [x for x in walk_local(loop) if isinstance(x, ast.Assign) and isinstance(x.targets[0], ast.Subscript)
                  and u(x.value) == ind]
            pos = u(loop.target.elts[0]) if isinstance(loop.target, ast.Tuple) else None
            ck.check(len(st) == 1 and u(st[0].targets[0].slice) == pos, rule + '.store', mod, s,
                     'find_cluster_centers', u(st[0]) if st else ind,
                     'stored at the position of the label', 'the frame index must be stored at the enumerate position of its label')
    if not found:
        ck.bad(rule + '.index-space', mod, loop, 'find_cluster_centers', u(loop)[:160],
               'no `members[argmin(distances[members])]` mapping found: a subset-relative argmin '
               'would be stored as a frame index')
    # unique labels
    ok = any(isinstance(s, ast.Assign) and isinstance(s.value, ast.Call) and call_name(s.value) == 'np.unique'
             and u(s.value.args[0]) == 'assignments' for s in walk_local(fn))
    ck.check(ok, rule + '.labels', mod, fn, 'find_cluster_centers', 'np.unique(assignments)',
             'one centre per label present', 'labels must come from np.unique(assignments)')


def d5_partition_list(ck):
    rule = 'C10.D5.partition-list'
    mod = ck.repo.mod(RA)
    fn = mod.func('partition_list')
    ck.analysed(mod, fn)
    fi = finfo(mod, fn)
    ps = params(fn)
    # guard raise
    guards = [n for n in fn.body if isinstance(n, ast.If) and any(isinstance(x, ast.Raise) for x in n.body)]
    ok = bool(guards) and 'sum' in u(guards[0].test) and ps[1] in names_loaded(guards[0].test) and \
        'len(%s)' % ps[0] in u(guards[0].test) and '!=' in u(guards[0].test)
    ck.check(ok, rule + '.guard', mod, guards[0] if guards else fn, 'partition_list',
             u(guards[0].test) if guards else 'sum(lengths) != len(list)',
             'sum of lengths must equal the data length, else raise',
             'partition_list must reject lengths whose sum differs from len(list)')
    loops = [l for l in walk_local(fn) if isinstance(l, ast.For)]
    if not loops:
        ck.missing(rule, 'slicing loop')
        return
    loop = loops[0]
    apps = [c for c in calls_in(loop) if isinstance(c.func, ast.Attribute) and c.func.attr == 'append']
    ok = False
    why = 'no append of list[start:stop]'
    if len(apps) == 1 and isinstance(apps[0].args[0], ast.Subscript) and isinstance(apps[0].args[0].slice, ast.Slice):
        sl = apps[0].args[0].slice
        lo, hi = u(sl.lower), u(sl.upper)
        stops = [s for s in loop.body if isinstance(s, ast.Assign) and u(s.targets[0]) == hi]
        advs = [s for s in loop.body if isinstance(s, ast.Assign) and u(s.targets[0]) == lo and u(s.value) == hi]
        ok_stop = len(stops) == 1 and isinstance(stops[0].value, ast.BinOp) and isinstance(stops[0].value.op, ast.Add) \
            and lo in (u(stops[0].value.left), u(stops[0].value.right)) and ps[1] in names_loaded(stops[0].value)
        order = ok_stop and advs and loop.body.index(stops[0]) < loop.body.index(fi.stmt(apps[0])) < loop.body.index(advs[0])
        init = [s for s in fn.body if isinstance(s, ast.Assign) and u(s.targets[0]) == lo and u(s.value) == '0']
        ok = bool(ok_stop and order and init and u(apps[0].args[0].value) == ps[0] and sl.step is None)
        why = 'stop = start + len_k; append(list[start:stop]); start = stop; start initialised to 0'
    ck.check(ok, rule + '.offsets', mod, loop, 'partition_list', '; '.join(u(s) for s in loop.body),
             why, 'pieces must be list[start:stop] with stop = start + lengths[k], start = stop afterwards, start = 0 initially')


def check(ck):
    cu = ck.repo.mod(CU)
    n = check_running_min_commit(ck, 'C10.D1.commit', cu, 'assign_to_nearest_center',
                                 False, 'enumerate-index')
    ck.floor('C10.D1.commit', n, 1, 'running-minimum commit')
    d2_argmin_branch(ck)
    d1_metric_arg_order(ck)
    d1_predict(ck)
    d2_partition(ck)
    d3_partition_indices(ck)
    d4_find_centers(ck)
    d5_partition_list(ck)
    check_no_arg_mutation(ck, 'C10.D6.inputs-unmodified', [
        (CU, 'assign_to_nearest_center'), (CU, 'find_cluster_centers'),
        (CU, 'ClusterResult.partition'), (RA, 'partition_indices'),
        (RA, 'partition_list'), (CU, 'MolecularClusterMixin.predict')])
    return EXPLANATION

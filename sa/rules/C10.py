"""C10 Nearest-centre assignment and per-trajectory bookkeeping.

The constructs are located by ROLE (parameters by position, "the array that is
returned", "the list that receives the append", "the call to the metric
parameter", the Assume nodes of the CFG that dominate a statement) and their
contents are compared after expansion of temporaries and canonicalisation
against lists of accepted forms.  Every content comparison is three-valued: an
accepted form discharges the obligation, a positively different computation of
the same operands is a VIOLATION, anything the rule cannot see through is
reported as analysis-incomplete (ck.missing)."""
import ast

from ..cfg import Assume
from ..core import (call_name, const_value, names_loaded, params,
                    target_names, u, walk_expr, walk_local)
from ..match import C, canon, classify, match
from ..patterns import (Cmp, assigns_to, calls_in, canon_atom,
                        check_no_arg_mutation, conjuncts, finfo, returns_of,
                        subscript_stores)
from .cluster_common import CU, check_running_min_commit
from .C01 import d2_argmin_branch

RA = 'enspara/ra/ra.py'

EXPLANATION = (
    'Static decision of the structural necessary conditions of C10: (D1) both '
    'branches of assign_to_nearest_center commit label and distance together '
    '(running-minimum commit / argmin+min of one vector) and call the metric '
    'as metric(<many>, <one>) with the loop element as the single item; '
    'predict reuses the fitted centres and metric; (D2) the rectangular and '
    'ragged branches of ClusterResult.partition build the same fields from '
    'the same sources and differ only in the container; (D3) '
    'partition_indices selects the trajectory with the strict test '
    'traj_len > index and updates index and trajectory counter together in '
    'the complementary branch; (D4) find_cluster_centers maps the argmin over '
    'distances[members] back through the same members array; (D5) '
    'partition_list slices with a running offset after the sum-of-lengths '
    'guard; plus no argument mutation (A4). Minimality of distances as numbers '
    'is not decided.')

INF = ('np.inf', "float('inf')", 'math.inf', 'np.Inf', 'np.infty', 'numpy.inf')


# ---------------------------------------------------------------------------
# helpers (role location, expansion through named helper calls, path conditions)

def _inside(node, anc):
    """`node` is `anc` or lies (syntactically) inside it."""
    return any(x is node for x in ast.walk(anc))


def _enclosing(mod, node, types, stop=None):
    n = mod.parent.get(node)
    while n is not None and n is not stop and not isinstance(n, types):
        n = mod.parent.get(n)
    return n if isinstance(n, types) else None


def _relaxed_pure(v, allow):
    """Purity as in sa.normal.is_pure, except that calls whose callee's last
    name component is in `allow` count as pure: the value-building helpers of
    the package at hand (partition_list, RaggedArray, ...) whose temporaries
    the rule must see through."""
    from ..normal import is_pure
    for n in ast.walk(v):
        if isinstance(n, (ast.Yield, ast.YieldFrom, ast.Await, ast.NamedExpr, ast.Lambda)):
            return False
        if isinstance(n, ast.Call):
            cn = call_name(n) or ''
            if cn and cn.split('.')[-1] in allow:
                continue
            if not is_pure(ast.Call(func=n.func, args=[], keywords=[])):
                return False
    return True


def _temp(fi, name_node, strict, allow):
    """FuncInfo.temp_value, with the relaxed purity above."""
    v = fi.temp_value(name_node, strict)
    if v is not None or not allow:
        return v
    if not isinstance(name_node, ast.Name) or not isinstance(name_node.ctx, ast.Load):
        return None
    try:
        defs = fi.defs_of_use(name_node)
    except Exception:
        return None
    if len(defs) != 1:
        return None
    site = next(iter(defs))
    if site in ('PARAM', 'UNBOUND') or not isinstance(site, (ast.Assign, ast.AnnAssign)):
        return None
    v = fi.def_value(site, name_node.id)
    if v is None or isinstance(v, ast.GeneratorExp) or not _relaxed_pure(v, allow):
        return None
    if fi._mutated_in_place(name_node.id):
        return None
    use = fi.stmt(name_node)
    for m in walk_expr(v):
        if not (isinstance(m, ast.Name) and isinstance(m.ctx, ast.Load)):
            continue
        if fi.rd.defs_at(site, m.id) != fi.rd.defs_at(use, m.id):
            return None
        for ms in (fi._mutated_in_place(m.id) if strict else []):
            if ms is use or ms is site:
                continue
            if fi.cfg.reachable(site, ms, avoiding=[use]) and fi.cfg.reachable(ms, use, avoiding=[site]):
                return None
    return v


def _rebuild(e, on_name):
    """Structural copy of an expression; `on_name(name_node)` supplies the
    replacement of every Name node."""
    if isinstance(e, ast.Name):
        return on_name(e)
    if not isinstance(e, ast.AST):
        return e
    if isinstance(e, (ast.expr_context, ast.operator, ast.unaryop, ast.boolop, ast.cmpop)):
        return e
    new = type(e)()
    for f in e._fields:
        val = getattr(e, f, None)
        if isinstance(val, list):
            setattr(new, f, [_rebuild(x, on_name) for x in val])
        elif isinstance(val, ast.AST):
            setattr(new, f, _rebuild(val, on_name))
        else:
            setattr(new, f, val)
    for a in ('lineno', 'col_offset', 'end_lineno', 'end_col_offset'):
        if hasattr(e, a):
            setattr(new, a, getattr(e, a))
    return new


def xp(fi, expr, allow=(), stop=(), strict=True, depth=8):
    """fi.expand that also sees through temporaries holding the result of the
    helper calls named in `allow`."""
    if expr is None:
        return None

    def on_name(e, d=depth):
        if d > 0 and e.id not in stop and isinstance(e.ctx, ast.Load):
            v = _temp(fi, e, strict, allow)
            if v is not None:
                return _rebuild(v, lambda x: on_name(x, d - 1))
        return ast.copy_location(ast.Name(id=e.id, ctx=e.ctx), e)
    return _rebuild(expr, on_name)


def xt(fi, expr, allow=(), stop=(), strict=True):
    """Canonical text of the expanded expression."""
    if expr is None:
        return 'None'
    return u(canon(xp(fi, expr, allow, stop, strict)))


def ct(node):
    return u(canon(node)) if node is not None else 'None'


def _closed(node, scope, allow=()):
    """Pure numpy/builtin function (plus the helper calls in `allow`) of the
    names in scope only: match._closed_over with the relaxed purity."""
    from ..match import _NEUTRAL
    if node is None:
        return False
    node = canon(node)
    if not _relaxed_pure(node, allow):
        return False
    bound = {t.id for x in ast.walk(node) if isinstance(x, ast.comprehension)
             for t in ast.walk(x.target) if isinstance(t, ast.Name)}
    return all(x.id in scope or x.id in _NEUTRAL or x.id in bound or x.id in allow
               for x in ast.walk(node) if isinstance(x, ast.Name))


def _three(ck, ok, node, scope, rule, mod, site, function, construct, detail_ok, detail_bad, allow=()):
    """ok -> discharged; else a pure function of the operands in `scope` (a
    different computation in a located role) -> VIOLATION; else incomplete."""
    if ok:
        ck.ok(rule, mod, site, construct, detail_ok)
        return True
    if node is not None and _closed(node, scope, allow):
        ck.bad(rule, mod, site, function, construct, detail_bad)
    else:
        ck.missing(rule, 'construct not recognised at %s: %s  (%s)' % (mod.loc(site), construct[:160], detail_bad[:160]))
    return False


def _bind(call, pnames):
    """Positional and keyword arguments of a call bound to parameter names."""
    if any(isinstance(a, ast.Starred) for a in call.args) or any(k.arg is None for k in call.keywords) \
            or len(call.args) > len(pnames):
        return None
    b = {pnames[i]: a for i, a in enumerate(call.args)}
    for k in call.keywords:
        if k.arg in b:
            return None
        b[k.arg] = k.value
    return b


def _is_call_to(node, tail):
    return isinstance(node, ast.Call) and (call_name(node) or '').split('.')[-1] == tail


def path_condition(fi, stmt, within, fresh=True):
    """The branch conditions under which `stmt` executes during one pass
    through `within` (a loop or the function): the Assume nodes of the CFG that
    belong to an `if` inside `within` and dominate `stmt`.  Insensitive to
    if/else vs. early exit (break/continue/return/raise) and to branch order.
    Returns a list of (test, polarity, if-statement); with `fresh`, None when
    an operand of such a test may be rebound between the test and `stmt` (the
    condition then does not speak about the values `stmt` sees)."""
    inside = {id(x) for x in ast.walk(within)}
    cfg = fi.cfg
    out = []
    for a in cfg.nodes:
        if not isinstance(a, Assume) or id(a.owner) not in inside or a.owner is within:
            continue
        if a.owner is stmt or not cfg.dominates(a, stmt):
            continue
        for nm in (names_loaded(a.test) if fresh else ()):
            for d in cfg.nodes:
                if isinstance(d, (str, Assume)) or d is stmt:
                    continue
                from ..cfg import stmt_defs
                if nm not in stmt_defs(d):
                    continue
                if cfg.reachable(a, d, avoiding=[a.owner]) and cfg.reachable(d, stmt, avoiding=[a.owner]):
                    return None
        out.append((a.test, a.polarity, a.owner))
    return out


def _atoms(pc):
    """Path condition as a flat conjunction of Cmp atoms (None: not a pure
    conjunction of comparisons)."""
    if pc is None:
        return None
    out = []
    for t, pol, _ in pc:
        c = conjuncts(t, pol)
        if c is None or not all(isinstance(x, Cmp) for x in c):
            return None
        out += c
    return out


def _updates(region, name, skip=()):
    """Assign/AugAssign statements inside `region` that rebind `name`."""
    out = []
    for s in walk_local(region):
        if s in skip:
            continue
        if isinstance(s, ast.Assign) and any(name in target_names(t) for t in s.targets):
            out.append(s)
        elif isinstance(s, (ast.AugAssign, ast.AnnAssign)) and name in target_names(s.target):
            out.append(s)
    return out


def _loop_shape(fi, loop):
    """(collection expr, index name or None, element texts) of a for loop
    `for e in X` / `for i, e in enumerate(X)` / `for i in range(len(X))`."""
    it, tg = loop.iter, loop.target
    if isinstance(it, ast.Call) and call_name(it) == 'enumerate' and len(it.args) == 1 and not it.keywords \
            and isinstance(tg, ast.Tuple) and len(tg.elts) == 2 and all(isinstance(e, ast.Name) for e in tg.elts):
        coll = xt(fi, it.args[0])
        return coll, tg.elts[0].id, {tg.elts[1].id, C('%s[%s]' % (coll, tg.elts[0].id))}
    if isinstance(it, ast.Call) and call_name(it) == 'range' and len(it.args) == 1 and isinstance(tg, ast.Name):
        m = match('len(_X)', xp(fi, it.args[0]))
        if m is None:
            m = match('_X.shape[0]', xp(fi, it.args[0]))
        if m is not None:
            coll = ct(m['_X'])
            return coll, tg.id, {C('%s[%s]' % (coll, tg.id))}
        return None
    if isinstance(tg, ast.Name):
        return xt(fi, it), None, {tg.id}
    return None


def _expr_helper_value(mod, call, caller_locals):
    """`call` calls a plain module-level function of `mod` whose body is
    (docstring +) `return <pure expression of its parameters>`: that expression
    with the parameters replaced by the (pure) arguments - what the call
    evaluates to.  None when the callee is anything else (several statements,
    decorators, star-arguments, defaults left unbound, free names the caller
    shadows, comprehension variables that would capture an argument)."""
    from ..match import _NEUTRAL
    from ..normal import is_pure
    if not (isinstance(call, ast.Call) and isinstance(call.func, ast.Name)):
        return None
    h = mod.functions.get(call.func.id)
    if h is None or not isinstance(h, ast.FunctionDef) or h.decorator_list or h.args.vararg or h.args.kwarg \
            or h.args.kwonlyargs or getattr(h.args, 'posonlyargs', None):
        return None
    body = [s for s in h.body if not isinstance(s, ast.Pass) and
            not (isinstance(s, ast.Expr) and isinstance(s.value, ast.Constant))]
    if len(body) != 1 or not isinstance(body[0], ast.Return) or body[0].value is None:
        return None
    val = body[0].value
    ps = params(h)
    b = _bind(call, ps)
    if b is None or set(b) != set(ps) or not is_pure(val) or not all(is_pure(a) for a in b.values()):
        return None
    bound = {t.id for x in ast.walk(val) if isinstance(x, ast.comprehension)
             for t in ast.walk(x.target) if isinstance(t, ast.Name)}
    if bound & set(ps):
        return None
    arg_names = {n for a in b.values() for n in names_loaded(a)}
    if bound & arg_names:
        return None
    for x in ast.walk(val):
        if isinstance(x, ast.Name) and x.id not in ps and x.id not in bound:
            if x.id in caller_locals or not (x.id in _NEUTRAL or x.id in mod.functions or x.id in ('hasattr', 'isinstance')):
                return None
    return _rebuild(val, lambda e: _rebuild(b[e.id], lambda y: ast.Name(id=y.id, ctx=y.ctx))
                    if e.id in b and isinstance(e.ctx, ast.Load) else ast.Name(id=e.id, ctx=e.ctx))


def through_expr_helpers(mod, fn, expr, depth=3):
    """`expr` with every call of a one-expression helper of the same module
    (see _expr_helper_value) replaced by the value it returns: a predicate or
    a small formula moved into a private function is seen through."""
    if expr is None or depth <= 0:
        return expr
    local = set(params(fn)) | {t for s in walk_local(fn) if isinstance(s, (ast.Assign, ast.AugAssign, ast.AnnAssign, ast.For))
                               for tg in (s.targets if isinstance(s, ast.Assign) else [s.target]) for t in target_names(tg)}

    class T(ast.NodeTransformer):
        def visit_Call(self, node):
            self.generic_visit(node)
            v = _expr_helper_value(mod, node, local)
            if v is None:
                return node
            return through_expr_helpers(mod, fn, v, depth - 1)
    import copy
    return T().visit(copy.deepcopy(expr))


def guard_atoms(mod, fn, fi, stmt, within):
    """The path condition of `stmt` (see path_condition) as a flat list of
    atoms - Cmp objects and ('expr', node, polarity) triples - after expansion
    of temporaries (`flag = <test>; if not flag:`) and of one-expression
    predicate helpers in every test.  None: an operand may be rebound between
    test and statement, or a test is a disjunction under its polarity."""
    pc = path_condition(fi, stmt, within)
    if pc is None:
        return None
    out = []
    for t, pol, _ in pc:
        e = canon(through_expr_helpers(mod, fn, xp(fi, t)))
        c = conjuncts(e, pol)
        if c is None:
            return None
        out += c
    return out


def atom_text(a):
    if isinstance(a, Cmp):
        return repr(a)
    return ('%s' if a[2] else 'not %s') % u(a[1])


def _returned_name(fi, fn, allow=(), rets=None):
    """Name of the local object every return statement (of `rets`, default:
    all) returns (also through np.array(x) / np.asarray(x) / list(x)); None if
    not uniform."""
    names = set()
    for r in (returns_of(fn) if rets is None else rets):
        if r.value is None:
            return None
        v = canon(r.value)
        for pat in ('_X.copy()', 'np.asarray(_X)', 'list(_X)', 'np.array(_X)'):
            m = match(pat, v)
            if m is not None and isinstance(m['_X'], ast.Name):
                v = m['_X']
                break
        if not isinstance(v, ast.Name):
            return None
        names.add(v.id)
    return names.pop() if len(names) == 1 else None


# ---------------------------------------------------------------------------
# D1

def _strip_where(v):
    """The mask behind an index form of it (np.where(m)[0], np.nonzero(m)[0],
    np.where(m), np.flatnonzero(m)): the same cells of a 1-d array."""
    for _ in range(3):
        if isinstance(v, ast.Subscript) and const_value(v.slice) == 0 and isinstance(v.value, ast.Call):
            v = v.value
        if isinstance(v, ast.Call) and call_name(v) in ('np.where', 'np.nonzero', 'np.flatnonzero') \
                and len(v.args) == 1 and not v.keywords:
            v = v.args[0]
            continue
        break
    return v


def _tolerance_atom(e, pair):
    """Is `e` a closeness predicate of exactly the two operands `pair`
    (np.isclose(a, b, ...), abs(a - b) < tol / <= tol)?  Returns the polarity
    of 'close' (True: e is true when the operands are close), or None.  Such a
    predicate is TRUE for equal finite operands and can be true or false for
    operands that differ, in either direction."""
    if isinstance(e, ast.Call) and call_name(e) in ('np.isclose', 'numpy.isclose', 'math.isclose') and len(e.args) >= 2:
        if {u(e.args[0]), u(e.args[1])} == set(pair):
            tol = [const_value(k.value, default='?') for k in e.keywords if k.arg in ('rtol', 'atol', 'rel_tol', 'abs_tol')]
            if len(e.args) == 2 and not (tol and all(t == 0 for t in tol)):
                return True
        return None
    if isinstance(e, ast.Compare) and len(e.ops) == 1:
        less = Cmp(e.left, type(e.ops[0]), e.comparators[0]).as_less()
        if less is None:
            return None
        small, _, big = less
        for side, pol in ((small, True), (big, False)):
            m = match('abs(_A - _B)', side) or match('np.abs(_A - _B)', side) or match('np.absolute(_A - _B)', side) \
                or match('np.fabs(_A - _B)', side)
            other = big if pol else small
            if m is not None and {u(m['_A']), u(m['_B'])} == set(pair) and not (names_loaded(other) & set(pair)):
                k = const_value(other, default='?')
                if k == '?' or (isinstance(k, (int, float)) and k > 0):
                    return pol
    return None


def _mask_truth(tree, pair, order, tol):
    """Value of the mask formula for operands (new, cur) = pair in the weak
    order `order` ('lt': new < cur, 'eq', 'gt') with the closeness predicates
    valued `tol`; raises KeyError on a component it cannot evaluate."""
    k = tree[0]
    if k == 'and':
        return _mask_truth(tree[1], pair, order, tol) and _mask_truth(tree[2], pair, order, tol)
    if k == 'or':
        return _mask_truth(tree[1], pair, order, tol) or _mask_truth(tree[2], pair, order, tol)
    if k == 'not':
        return not _mask_truth(tree[1], pair, order, tol)
    e = tree[1]
    if k == 'atom':
        c = e
        e = ast.Compare(left=c.lhs, ops=[c.op()], comparators=[c.rhs])
        a, b = u(c.lhs), u(c.rhs)
        if {a, b} == set(pair) and c.op in (ast.Lt, ast.LtE, ast.Gt, ast.GtE, ast.Eq, ast.NotEq):
            o = order if a == pair[0] else {'lt': 'gt', 'gt': 'lt', 'eq': 'eq'}[order]
            return {ast.Lt: o == 'lt', ast.LtE: o != 'gt', ast.Gt: o == 'gt', ast.GtE: o != 'lt',
                    ast.Eq: o == 'eq', ast.NotEq: o != 'eq'}[c.op]
    if isinstance(e, ast.Call) and call_name(e) in ('np.less', 'np.less_equal', 'np.greater', 'np.greater_equal') \
            and len(e.args) == 2 and not e.keywords:
        op = {'less': ast.Lt, 'less_equal': ast.LtE, 'greater': ast.Gt, 'greater_equal': ast.GtE}[call_name(e)[3:]]
        return _mask_truth(('atom', Cmp(e.args[0], op, e.args[1])), pair, order, tol)
    pol = _tolerance_atom(e, pair)
    if pol is None:
        raise KeyError(u(e))
    close = True if order == 'eq' else tol
    return close if pol else not close


def _d1_commit_mask(ck):
    """The running-minimum sweep located by ROLE when the plain idiom
    `M = new < cur; cur[M] = new[M]; lab[M] = i` was not found: a store into a
    returned array `cur`, inside a loop, under an index whose expansion is an
    elementwise formula containing an ordering test between `cur` and one
    other array `new`.  Necessary condition (minimal distance, exactly that
    distance): the cells committed are those with new < cur (or new <= cur) -
    decided by a truth table over the weak order of (new, cur); a closeness
    predicate of the same two operands (np.isclose, abs(new - cur) < tol) is
    free for unequal operands.  A formula that omits a strictly nearer
    candidate or admits a farther one for some valuation is a VIOLATION;
    components the table cannot evaluate leave the floor's INCOMPLETE."""
    from ..patterns import mask_atoms
    rule = 'C10.D1.commit.mask'
    F = 'assign_to_nearest_center'
    mod = ck.repo.mod(CU)
    fn = mod.func(F)
    fi = finfo(mod, fn)
    state = set()
    for r in returns_of(fn):
        rv = r.value
        if isinstance(rv, ast.Name) and fi.resolve(rv) is not None:
            rv = fi.resolve(rv)
        if rv is not None:
            state |= {x.id for x in (rv.elts if isinstance(rv, ast.Tuple) else [rv]) if isinstance(x, ast.Name)}
    loops = [l for l in walk_local(fn) if isinstance(l, (ast.For, ast.While))]
    seen = set()
    for st, t in subscript_stores(fn):
        if not (isinstance(t.value, ast.Name) and t.value.id in state and isinstance(st, ast.Assign)
                and any(_inside(st, l) for l in loops)):
            continue
        cur = t.value.id
        idx = _strip_where(xp(fi, t.slice, strict=False, stop=tuple(state)))
        tree = mask_atoms(idx)
        if tree[0] == 'opaque' and _strip_where(idx) is idx and not isinstance(idx, ast.Call):
            continue            # a scalar / name index: not a mask store
        others = set()
        stack = [tree]
        while stack:
            x = stack.pop()
            if x[0] in ('and', 'or'):
                stack += [x[1], x[2]]
            elif x[0] == 'not':
                stack.append(x[1])
            elif x[0] == 'atom':
                a, b = x[1].lhs, x[1].rhs
                if x[1].as_less() is not None and isinstance(a, ast.Name) and isinstance(b, ast.Name) and cur in (a.id, b.id) \
                        and a.id != b.id:
                    others.add(a.id if b.id == cur else b.id)
        if len(others) != 1:
            continue
        new = others.pop()
        key = (cur, new, ct(idx))
        if key in seen:
            continue
        seen.add(key)
        pair = (new, cur)
        try:
            table = {(o, tol): _mask_truth(tree, pair, o, tol) for o in ('lt', 'eq', 'gt') for tol in (True, False)}
        except KeyError as e:
            ck.missing(rule, '%s: commit mask `%s` of `%s` has a component the truth table cannot evaluate: %s' % (
                F, ct(idx)[:120], cur, str(e)[:80]))
            continue
        lost = [tol for tol in (True, False) if not table[('lt', tol)]]
        worse = [tol for tol in (True, False) if table[('gt', tol)]]
        if lost or worse:
            why = []
            if lost:
                why.append('a candidate that is strictly nearer (%s < %s) is NOT committed%s: the frame keeps a centre '
                           'that is not at minimal distance and reports a distance that is not the minimum' % (
                               new, cur, '' if len(lost) == 2 else ' when the closeness predicate says the two are close'))
            if worse:
                why.append('a candidate that is farther (%s > %s) IS committed%s' % (
                    new, cur, '' if len(worse) == 2 else ' for some value of the closeness predicate'))
            ck.bad(rule, mod, st, F, '%s[%s] = ...' % (cur, ct(idx)),
                   'the cells of the running minimum `%s` that take the candidate `%s` must be exactly those with '
                   '%s < %s (ties may go either way); found the mask `%s`: %s' % (cur, new, new, cur, ct(idx), '; '.join(why)))
        else:
            ck.ok(rule, mod, st, '%s[%s] = ...' % (cur, ct(idx)),
                  'mask commits exactly the strictly nearer candidates (ties: %s)' % (
                      'committed' if table[('eq', True)] else 'kept'))


def d1_metric_arg_order(ck):
    rule = 'C10.D1.metric-args'
    F = 'assign_to_nearest_center'
    mod = ck.repo.mod(CU)
    fn = mod.func(F)
    ck.analysed(mod, fn)
    fi = finfo(mod, fn)
    ps = params(fn)
    data, centers, metric = ps[0], ps[1], ps[2]
    n = 0
    loops_with_metric = []
    for c in calls_in(fn):
        if not (isinstance(c.func, ast.Name) and xt(fi, c.func) == metric):
            continue
        loop = _enclosing(mod, c, (ast.For,), stop=fn)
        if loop is None:
            continue        # a call outside any sweep: not the idiom this rule decides (floor)
        shape = _loop_shape(fi, loop)
        if shape is None or shape[0] not in (data, centers):
            continue
        coll, idx, elems = shape
        other = centers if coll == data else data
        n += 1
        loops_with_metric.append(loop)
        construct = 'for %s in %s: %s' % (u(loop.target), u(loop.iter), u(c))
        if c.keywords or len(c.args) != 2 or any(isinstance(a, ast.Starred) for a in c.args):
            ck.missing(rule, 'metric call with keyword/star arguments at %s: %s' % (mod.loc(c), u(c)))
            continue
        a0, a1 = xt(fi, c.args[0]), xt(fi, c.args[1])
        ok = a0 == other and a1 in elems
        scope = {data, centers} | {idx or ''} | {e for e in elems if e.isidentifier()}
        _three(ck, ok, ast.Tuple(elts=[xp(fi, c.args[0]), xp(fi, c.args[1])], ctx=ast.Load()), scope,
               rule, mod, c, F, construct,
               'metric(<collection %s>, <single %s>)' % (other, sorted(elems)[0]),
               'the metric takes (many items, one item): while iterating over `%s` the '
               'call must be %s(%s, %s); swapped arguments make md.rmsd-style metrics '
               'return distances to the wrong reference' % (coll, metric, other, sorted(elems, key=len)[0]))
        if ok and coll == data:
            _d1_exchanged_roles_guard(ck, mod, fn, fi, c, data, centers, metric)
    ck.floor(rule, n, 2, 'metric calls in assign_to_nearest_center')
    _d1_init(ck, mod, fn, fi, ps, loops_with_metric)


# attributes only an mdtraj.Trajectory-like object has (neither ndarray nor list/tuple)
_TRAJ_ATTRS = {'xyz', 'topology', 'top', 'n_atoms', 'n_residues', 'unitcell_vectors', 'unitcell_lengths', 'superpose'}
_TRAJ_TYPES = {'md.Trajectory', 'mdtraj.Trajectory', 'Trajectory', 'md.core.trajectory.Trajectory',
               'mdtraj.core.trajectory.Trajectory'}
_SIZE_PATS = ('len(_X)', '_X.shape[0]', '_X.shape', '_X.size', '_X.__len__()', 'np.size(_X)', 'np.shape(_X)[0]',
              '_X.n_frames')


def _kind_atom(a, name):
    """What a path-condition atom says about the KIND of object `name` holds:
    'traj'  - it is a trajectory-like object (duck test on a trajectory-only
              attribute, isinstance of the trajectory class only);
    'wide'  - a type test that also lets ndarrays / sequences through;
    'size'  - says nothing about the kind (pure length / shape comparison, or
              `name` does not occur);
    'unknown' - anything else."""
    def types_of(t):
        return [ct(e) for e in t.elts] if isinstance(t, (ast.Tuple, ast.List)) else [ct(t)]
    if isinstance(a, Cmp):
        sides = (a.lhs, a.rhs)
        for x, y in (sides, sides[::-1]):
            m = match('type(_X)', canon(x))
            if m is not None and ct(m['_X']) == name:
                if a.op in (ast.Is, ast.Eq):
                    return 'traj' if ct(y) in _TRAJ_TYPES else 'wide'
                return 'wide' if ct(y) in _TRAJ_TYPES else 'unknown'

        def size_only(e):
            """`name` occurs in e only as the operand of a length / shape reduction"""
            e = canon(e)
            for pat in _SIZE_PATS:
                m = match(pat, e)
                if m is not None and isinstance(m['_X'], ast.Name):
                    return True
            if isinstance(e, ast.Name):
                return e.id != name
            if isinstance(e, ast.Constant):
                return True
            if isinstance(e, ast.BinOp):
                return size_only(e.left) and size_only(e.right)
            if isinstance(e, ast.Call) and call_name(e) in ('int', 'max', 'min') and not e.keywords:
                return all(size_only(x) for x in e.args)
            return name not in names_loaded(e)
        return 'size' if size_only(a.lhs) and size_only(a.rhs) else 'unknown'
    _, e, pol = a
    if isinstance(e, ast.Call) and not e.keywords and len(e.args) == 2 and ct(e.args[0]) == name:
        cn = call_name(e)
        if cn == 'hasattr' and isinstance(const_value(e.args[1], default=None), str):
            if not pol:
                return 'wide'       # everything WITHOUT the attribute: arrays, lists
            return 'traj' if const_value(e.args[1]) in _TRAJ_ATTRS else 'unknown'
        if cn == 'isinstance':
            ts = types_of(e.args[1])
            if pol:
                return 'traj' if all(t in _TRAJ_TYPES for t in ts) else 'wide'
            return 'wide' if all(t in _TRAJ_TYPES for t in ts) else 'unknown'
    return 'unknown' if name in names_loaded(e) or not isinstance(e, ast.Constant) else 'size'


def _d1_exchanged_roles_guard(ck, mod, fn, fi, call, data, centers, metric):
    """The metric's contract is metric(<block of data>, <one centre>) (doc:
    `params=(trajectory, cluster_centers[i])`): d(frames, centre).  A sweep
    over the FRAMES that calls metric(<all centres>, <one frame>) evaluates the
    metric with the two roles exchanged: it minimises and reports d(centre,
    frame).  That is the distance asked for only for symmetric metrics, and it
    needs centres the metric accepts as a block; the pinned function therefore
    enters that sweep only for trajectory-like centres (duck test on `.xyz`:
    the RMSD family).  Necessary condition decided here: the path condition of
    the exchanged-role call restricts the centres to a trajectory-like object.
    A guard that also admits feature arrays / sequences (or no kind test at
    all) sends user metrics on feature data - which need not be symmetric -
    down the exchanged call."""
    rule = 'C10.D1.exchanged-roles'
    F = 'assign_to_nearest_center'
    s = fi.stmt(call)
    construct = 'guard of the frame-wise sweep calling %s(<all centres>, <one frame>)' % metric
    if assigns_to(fn, centers):
        ck.missing(rule, 'the centres parameter `%s` is rebound in %s' % (centers, F))
        return
    atoms = guard_atoms(mod, fn, fi, s, fn) if s is not None else None
    if atoms is None:
        ck.missing(rule, 'path condition of the exchanged-role metric call at %s is not a conjunction of tests' % mod.loc(call))
        return
    kinds = [(_kind_atom(a, centers), a) for a in atoms]
    cond = ' and '.join(atom_text(a) for a in atoms) or '<unconditional>'
    if any(k == 'traj' for k, _ in kinds):
        ck.ok(rule, mod, s, construct, 'reached only for trajectory-like centres: %s' % cond)
        return
    unk = [a for k, a in kinds if k == 'unknown']
    if unk:
        ck.missing(rule, 'guard of the exchanged-role metric call at %s not recognised as a test of the kind of `%s`: %s' % (
            mod.loc(call), centers, atom_text(unk[0])[:120]))
        return
    wide = [a for k, a in kinds if k == 'wide']
    ck.bad(rule, mod, s, F, construct,
           'the frame-wise sweep calls %s(%s, <frame>) - data and centre roles exchanged with respect to the contract '
           '%s(<data>, <one centre>) - so it minimises and reports d(centre, frame); that equals the required d(frame, centre) only '
           'for symmetric metrics and must stay restricted to trajectory-like centres (hasattr(%s, \'xyz\')). %s: feature arrays '
           '(and whatever else passes) with a non-symmetric user metric now get the wrong distances and possibly another centre' % (
               metric, centers, metric, centers,
               ('the test `%s` also admits non-trajectory centres' % atom_text(wide[0])) if wide else
               ('the path condition `%s` does not test the kind of `%s` at all' % (cond, centers))))


_ALIASING = ('np.asarray(_C)', 'np.asarray(_C, dtype=_T)', 'np.asarray(_C, _T)', 'np.asanyarray(_C)',
             'np.asanyarray(_C, dtype=_T)', 'np.ascontiguousarray(_C)', 'np.ascontiguousarray(_C, dtype=_T)',
             'np.atleast_1d(_C)', '_C.astype(_T, copy=False)', '_C.ravel()', '_C.reshape(__)', '_C.view()',
             'np.ravel(_C)', 'np.squeeze(_C)', '_C.squeeze()', '_C[:]', '_C[...]')


def _alias_source(fi, v, depth=8):
    """The expression whose OBJECT `v` may be: names with a single simple
    definition are followed, wrappers that hand their argument back when it
    already is a suitable ndarray (np.asarray & co, views) are stripped."""
    while depth > 0:
        depth -= 1
        if isinstance(v, ast.Name):
            r = fi.resolve(v, depth=1)
            if r is v:
                return v
            v = r
            continue
        c = canon(v)
        for pat in _ALIASING:
            m = match(pat, c)
            if m is not None:
                break
        else:
            return v
        # continue on the ORIGINAL node where possible (reaching definitions are keyed by node identity)
        inner = None
        if isinstance(v, ast.Call) and isinstance(v.func, ast.Attribute) and call_name(v) and call_name(v).startswith('np.') and v.args:
            inner = v.args[0]
        elif isinstance(v, ast.Call) and isinstance(v.func, ast.Attribute):
            inner = v.func.value
        elif isinstance(v, ast.Subscript):
            inner = v.value
        v = inner if inner is not None else m['_C']
    return v


_FLOAT64 = {'float', 'np.float64', 'np.double', 'np.float_', 'np.longdouble', 'np.float128', 'np.longfloat', 'numpy.float64',
            "'float'", "'float64'", "'f8'", "'d'", "'double'", "'<f8'", "'=f8'", "'longdouble'", "'g'", 'np.dtype(float)',
            "np.dtype('float64')", 'np.dtype(np.float64)', "np.dtype('f8')"}
_NARROW_FLOAT = {'np.float32', 'np.float16', 'np.single', 'np.half', 'numpy.float32', 'numpy.float16', "'float32'", "'float16'",
                 "'single'", "'half'", "'f4'", "'f2'", "'f'", "'e'", "'<f4'", "'=f4'", "'<f2'", "'=f2'", "np.dtype('float32')",
                 'np.dtype(np.float32)', "np.dtype('f4')", "np.dtype('float16')", 'np.dtype(np.float16)'}
_ALLOCATORS = {'np.zeros': 1, 'np.empty': 1, 'np.ones': 1, 'np.full': 2, 'np.zeros_like': 1, 'np.empty_like': 1,
               'np.ones_like': 1, 'np.full_like': 2, 'np.repeat': None}


def _alloc_dtype(v):
    """Element type of the array an (expanded) allocation expression creates:
    ('given', dtype node) - an explicit dtype; ('default', 'float64' | 'int' |
    None) - no dtype argument: what numpy chooses (None: inherited from a
    prototype / not known); None - `v` does not contain exactly one numpy
    allocator call."""
    calls = [c for c in ast.walk(v) if isinstance(c, ast.Call) and (call_name(c) or '').replace('numpy.', 'np.') in _ALLOCATORS]
    if len(calls) != 1:
        return None
    c = calls[0]
    cn = call_name(c).replace('numpy.', 'np.')
    dpos = _ALLOCATORS[cn]
    if any(isinstance(a, ast.Starred) for a in c.args) or any(k.arg is None for k in c.keywords):
        return None
    dt = None
    for k in c.keywords:
        if k.arg == 'dtype':
            dt = k.value
    if dt is None and dpos is not None and len(c.args) > dpos:
        dt = c.args[dpos]
    if dt is not None:
        return ('given', dt)
    if cn in ('np.zeros', 'np.empty', 'np.ones'):
        return ('default', 'float64')
    if cn in ('np.full', 'np.repeat'):
        fill = None
        if cn == 'np.full':
            fill = c.args[1] if len(c.args) > 1 else next((k.value for k in c.keywords if k.arg == 'fill_value'), None)
        else:
            fill = c.args[0] if c.args else None
        if fill is None:
            return ('default', None)
        if ct(fill) in [C(i) for i in INF] or isinstance(const_value(fill, default=None), float):
            return ('default', 'float64')
        cv = const_value(fill, default=None)
        if isinstance(cv, int) and not isinstance(cv, bool):
            return ('default', 'int')
        return ('default', None)
    return ('default', None)        # *_like without dtype: the prototype's element type


def _d1_distance_dtype(ck, mod, fi, F, d0, name, v, metric):
    """Representation of the running state: the array that receives the
    metric's values, is compared with the next centre's values and is handed
    back as "the distance" holds them in (at least) double precision.  The
    metric is caller supplied and may compute in float64 (libdist euclidean /
    manhattan, any callable on float64 features): a narrower buffer rounds
    every stored distance (the reported distance is not the distance the
    metric computed) and compares later centres against the rounded minimum
    (two centres within the rounding resolve to the earlier, possibly
    farther, one)."""
    rule = 'C10.D1.init.dtype'
    construct = 'element type of the distance array `%s`' % name
    got = _alloc_dtype(v)
    if got is None:
        ck.missing(rule, 'allocator call of the distance array `%s` not recognised: %s' % (name, u(v)[:120]))
        return
    kind, dt = got
    if kind == 'default':
        if dt == 'float64':
            ck.ok(rule, mod, d0, construct, 'numpy default: float64')
        elif dt == 'int':
            ck.bad(rule, mod, d0, F, construct, '`%s` allocates integer storage for the distances: every stored distance is truncated' % u(v)[:120])
        else:
            ck.missing(rule, 'element type of the distance array `%s` is inherited, not stated: %s' % (name, u(v)[:120]))
        return
    txt = ct(xp(fi, dt))
    if txt in _FLOAT64:
        ck.ok(rule, mod, d0, construct, 'double precision (%s)' % txt)
    elif txt in _NARROW_FLOAT or txt in _WIDE_INT or (txt in _NOT_INDEX and txt not in _FLOAT64):
        ck.bad(rule, mod, d0, F, construct,
               'the array that stores, compares and reports the values returned by the caller-supplied metric `%s` is allocated with '
               'dtype %s: a metric that computes in double precision (libdist euclidean/manhattan, any callable on float64 features) '
               'has every distance rounded when it is stored - the reported distance is no longer the distance the metric computed for '
               'the assigned (frame, centre) pair - and later centres are compared with the rounded running minimum (centres closer '
               'than the rounding resolve to the earlier, possibly farther, one); the buffer must be float64 (dtype=float)' % (metric, txt))
    else:
        ck.missing(rule, 'dtype of the distance array `%s` not recognised: %s' % (name, txt[:80]))


def _d1_label_dtype(ck, mod, fn, fi, F, lname, rets):
    """The label array (first component of the result) stores centre indices
    0..n_centres-1 for ANY number of centres: where it is allocated by a numpy
    allocator, its element type is an index-wide integer."""
    rule = 'C10.D1.labels.dtype'
    construct = 'element type of the label array `%s`' % lname
    sites = set()
    for r in rets:
        sites |= {d for d in fi.rd.defs_at(r, lname) if d not in ('PARAM', 'UNBOUND')}
    for d in sorted(sites, key=lambda x: getattr(x, 'lineno', 0)):
        raw = fi.def_value(d, lname) if isinstance(d, (ast.Assign, ast.AnnAssign)) else None
        if raw is None:
            continue
        v = xp(fi, raw)
        got = _alloc_dtype(v)
        if got is None:
            continue        # not built by an allocator (argmin result, list, ...): the commit obligations speak about it
        kind, dt = got
        if kind == 'default':
            if dt == 'int':
                ck.ok(rule, mod, d, construct, 'numpy default integer')
            elif dt == 'float64':
                ck.bad(rule, mod, d, F, construct, '`%s` allocates float64 storage (no dtype) for the centre labels: the function returns '
                       'float values where centre indices are expected' % u(v)[:120])
            else:
                ck.missing(rule, 'element type of the label array `%s` is inherited, not stated: %s' % (lname, u(v)[:120]))
            continue
        txt = ct(xp(fi, dt))
        if txt in _WIDE_INT:
            ck.ok(rule, mod, d, construct, 'index-wide integer (%s)' % txt)
        elif txt in _NOT_INDEX or txt in _NARROW_FLOAT or txt in _FLOAT64:
            ck.bad(rule, mod, d, F, construct, 'the label array is allocated with dtype %s, which cannot hold the index of every centre '
                   '(any number of centres is admitted: narrow integers wrap, floats are not indices)' % txt)
        else:
            ck.missing(rule, 'dtype of the label array `%s` not recognised: %s' % (lname, txt[:80]))


def _d1_init(ck, mod, fn, fi, ps, loops):
    """The array returned as second component (the distances) is a PRIVATE
    array of this function, and a sweep that reads it while writing it (the
    running minimum `dist < distances`) finds +inf in every entry when it
    starts.  Sweeps are located by role: the outermost loops that store into
    that array; the initial value is what reaches the head of such a loop."""
    rule = 'C10.D1.init'
    F = 'assign_to_nearest_center'
    metric = ps[2]
    name = 'distances'
    for r in returns_of(fn):
        v = r.value
        if isinstance(v, ast.Tuple) and len(v.elts) == 2 and isinstance(v.elts[1], ast.Name):
            name = v.elts[1].id
    want = 'running-minimum distances must start at +inf for every frame'
    construct = '%s starts at np.inf' % name
    cfg = fi.cfg
    fors = [l for l in walk_local(fn) if isinstance(l, ast.For)]
    sweeps = [l for l in fors if subscript_stores(l, name) and not any(o is not l and _inside(l, o) for o in fors)]
    for l in loops:
        if not any(_inside(l, w) for w in sweeps):
            ck.missing(rule, 'the sweep at %s calls the metric but does not store into the returned distance array `%s`' % (mod.loc(l), name))
    if not sweeps:
        ck.missing(rule, 'loops storing into the returned distance array `%s`' % name)
        return
    # --- every way OUT of the function hands back the pair the sweeps filled, after a sweep: an exit the
    #     commit / metric-argument obligations never looked at (a fast path with its own result) is not decided
    from ..cfg import ENTRY
    pairs = set()
    for r in returns_of(fn):
        v = r.value
        if not (isinstance(v, ast.Tuple) and len(v.elts) == 2 and all(isinstance(e, ast.Name) for e in v.elts)):
            ck.missing('C10.D1.exits', 'the exit at %s does not return the (labels, distances) arrays filled by the sweeps: %s' % (
                mod.loc(r), u(r)[:120]))
            continue
        pairs.add((v.elts[0].id, v.elts[1].id))
        if cfg.reachable(ENTRY, r, avoiding=sweeps):
            ck.missing('C10.D1.exits', 'the exit at %s can be reached without passing through a sweep that fills `%s`: %s' % (
                mod.loc(r), name, u(r)[:120]))
    if len(pairs) > 1:
        ck.missing('C10.D1.exits', 'the exits of %s return different pairs of arrays: %s' % (F, sorted(pairs)))
    by_site = {}
    for l in sweeps:
        ds = fi.rd.defs_at(l, name)
        outer = [d for d in ds if d in ('PARAM', 'UNBOUND') or not any(_inside(d, w) for w in fors)]
        if len(outer) != len(ds) or any(d in ('PARAM', 'UNBOUND') or not isinstance(d, ast.Assign) or
                                        fi.def_value(d, name) is None for d in ds):
            ck.missing(rule, 'single allocation of the distance array `%s` before the sweeps' % name)
            return
        # the sweep READS the array (anything but being the base of a subscript store): a running minimum
        reads = any(isinstance(x, ast.Name) and x.id == name and isinstance(x.ctx, ast.Load) and
                    not (isinstance(mod.parent.get(x), ast.Subscript) and mod.parent.get(x).value is x and
                         isinstance(mod.parent.get(x).ctx, ast.Store))
                    for x in ast.walk(l))
        for d in ds:
            e = by_site.setdefault(id(d), [d, [], False])
            e[1].append(l)
            e[2] = e[2] or reads
    # --- what the exits hand back is the array the sweeps filled (not a converted / rebound successor of it), and the
    #     label array that goes with it can hold every centre index
    rets2 = [r for r in returns_of(fn) if isinstance(r.value, ast.Tuple) and len(r.value.elts) == 2 and
             all(isinstance(e, ast.Name) for e in r.value.elts)]
    for r in rets2:
        if r.value.elts[1].id != name:
            continue
        later = [d for d in fi.rd.defs_at(r, name) if id(d) not in by_site]
        if later:
            ck.missing('C10.D1.exits', 'the distance array `%s` returned at %s is rebound after the sweeps filled it: %s' % (
                name, mod.loc(r), u(later[0])[:100] if isinstance(later[0], ast.AST) else later[0]))
    lnames = {r.value.elts[0].id for r in rets2}
    if len(lnames) == 1:
        _d1_label_dtype(ck, mod, fn, fi, F, next(iter(lnames)), rets2)
    full = []
    for inf in INF:
        full += ['np.full(_N, %s)' % inf, 'np.full(_N, %s, dtype=_T)' % inf, 'np.full(_N, %s, _T)' % inf,
                 'np.full(shape=_N, fill_value=%s)' % inf, 'np.full(shape=_N, fill_value=%s, dtype=_T)' % inf,
                 'np.full(_N, fill_value=%s)' % inf, 'np.full(_N, fill_value=%s, dtype=_T)' % inf,
                 'np.ones(_N) * %s' % inf, '%s * np.ones(_N)' % inf, 'np.zeros(_N) + %s' % inf,
                 '%s + np.zeros(_N)' % inf, 'np.repeat(%s, _N)' % inf, 'np.full_like(_N, %s, dtype=_T)' % inf,
                 'np.ones(_N, dtype=_T) * %s' % inf, '%s * np.ones(_N, dtype=_T)' % inf]
    allocs = ['np.empty(_N)', 'np.empty(_N, dtype=_T)', 'np.empty(_N, _T)', 'np.zeros(_N)',
              'np.zeros(_N, dtype=_T)', 'np.ones(_N)', 'np.ones(_N, dtype=_T)', 'np.empty_like(_N)',
              'np.empty_like(_N, dtype=_T)', 'np.zeros_like(_N, dtype=_T)', 'np.empty(shape=_N, dtype=_T)']
    for d0, reached, need_inf in sorted(by_site.values(), key=lambda e: getattr(e[0], 'lineno', 0)):
        raw = fi.def_value(d0, name)
        # --- private: not (possibly) the very object a call of the caller-supplied metric returned
        src = _alias_source(fi, raw)
        if isinstance(src, ast.Call) and isinstance(src.func, ast.Name) and xt(fi, src.func) == metric:
            ck.bad(rule, mod, d0, F, '%s is a private array' % name,
                   'the distance array that the sweep updates in place (`%s[...] = ...`) and that is returned must be a '
                   'freshly allocated array: `%s` is (for a metric returning a float64 ndarray) the very object the '
                   'caller-supplied metric returned - a reused out= buffer is overwritten by the next metric call '
                   '(running minimum compared with itself), a view of a precomputed matrix is written into' % (name, u(raw)[:120]))
            continue
        v = xp(fi, raw)
        if classify(v, full)[0] == 'match':
            ck.ok(rule, mod, d0, construct, 'running minimum starts at +inf')
            _d1_distance_dtype(ck, mod, fi, F, d0, name, v, metric)
            continue
        if classify(v, allocs)[0] == 'match':
            _d1_distance_dtype(ck, mod, fi, F, d0, name, v, metric)
            if not need_inf:
                ck.ok(rule, mod, d0, '%s freshly allocated' % name,
                      'fresh array; the sweep only writes it (one entry per frame), nothing is read before it is written')
                continue
            # a whole-array fill that dominates every sweep it reaches: x.fill(v) / x[:] = v / x[...] = v
            fills = []
            for c in calls_in(fn):
                if isinstance(c.func, ast.Attribute) and c.func.attr == 'fill' and isinstance(c.func.value, ast.Name) \
                        and c.func.value.id == name and len(c.args) == 1:
                    fills.append((fi.stmt(c), c.args[0]))
            for s, t in subscript_stores(fn, name):
                sl = t.slice
                whole = (isinstance(sl, ast.Slice) and sl.lower is None and sl.upper is None and sl.step is None) or \
                    (isinstance(sl, ast.Constant) and sl.value is Ellipsis)
                if whole and isinstance(s, ast.Assign):
                    fills.append((s, s.value))
            fills = [(s, val) for s, val in fills if s is not None and not any(_inside(s, l) for l in fors)
                     and all(cfg.dominates(s, l) for l in reached) and d0 in fi.rd.defs_at(s, name)]
            if fills:
                s, val = fills[-1]
                ok = xt(fi, val) in [C(i) for i in INF]
                _three(ck, ok, xp(fi, val), set(ps), rule, mod, s, F, construct,
                       'running minimum starts at +inf', want + ' (filled with %s)' % u(val))
                continue
            ck.bad(rule, mod, d0, F, construct, want + ': `%s` is never filled before the first sweep' % u(d0))
            continue
        if any(isinstance(c.func, ast.Name) and c.func.id == metric for c in ast.walk(raw) if isinstance(c, ast.Call)):
            # a private COPY of a metric result (running minimum seeded with the distances to one centre): another algorithm
            ck.missing(rule, 'the distance array `%s` starts as a copy of a metric result, not at +inf: %s' % (name, u(raw)[:120]))
        elif need_inf:
            ck.decide(classify(v, full, scope=set(ps)), rule, mod, d0, F, construct, 'running minimum starts at +inf', want)
        else:
            ck.missing(rule, 'allocation of the distance array `%s` not recognised: %s' % (name, u(raw)[:120]))


def _namedtuple_fields(mod, cls):
    c = mod.classes.get(cls)
    if c is None:
        return None
    for b in c.bases:
        if isinstance(b, ast.Call) and (call_name(b) or '').split('.')[-1] == 'namedtuple' and len(b.args) >= 2:
            f = b.args[1]
            if isinstance(f, (ast.List, ast.Tuple)) and all(isinstance(e, ast.Constant) for e in f.elts):
                return [e.value for e in f.elts]
            if isinstance(f, ast.Constant) and isinstance(f.value, str):
                return f.value.replace(',', ' ').split()
    return None


def d1_predict(ck):
    rule = 'C10.D1.predict'
    F = 'MolecularClusterMixin.predict'
    mod = ck.repo.mod(CU)
    fn = mod.func(F)
    ck.analysed(mod, fn)
    fi = finfo(mod, fn)
    X = params(fn)[1]
    cs = [c for c in calls_in(fn) if _is_call_to(c, 'assign_to_nearest_center')]
    if len(cs) != 1:
        ck.missing(rule, 'assign_to_nearest_center call in predict')
        return
    c = cs[0]
    ps = params(mod.func('assign_to_nearest_center'))
    bind = _bind(c, ps)
    if bind is None or any(p not in bind for p in ps[:3]):
        ck.missing(rule, 'arguments of the assign_to_nearest_center call in predict: %s' % u(c)[:120])
        return
    # the fitted centres: self.centers_ or what that property returns
    ctrs = {'self.centers_'}
    prop = mod.functions.get('MolecularClusterMixin.centers_')
    if prop is not None and len(returns_of(prop)) == 1 and returns_of(prop)[0].value is not None and \
            params(prop) == ['self'] and len([x for x in prop.body if not isinstance(x, (ast.Expr, ast.Pass))]) == 1:
        ctrs.add(ct(returns_of(prop)[0].value))
    got = [xt(fi, bind[p]) for p in ps[:3]]
    ok = got[0] == X and got[1] in ctrs and got[2] == 'self.metric'
    _three(ck, ok, ast.Tuple(elts=[xp(fi, bind[p]) for p in ps[:3]], ctx=ast.Load()), {'self', X},
           rule, mod, c, F, u(c),
           'predict assigns the new data to the fitted centres with the fitted metric',
           'predict must call assign_to_nearest_center(X, self.centers_, self.metric)')
    # the returned result is built from the pair that call returned and the fitted centres
    s = fi.stmt(c)
    pair = None
    if isinstance(s, ast.Assign) and s.value is c and len(s.targets) == 1:
        t = s.targets[0]
        if isinstance(t, ast.Tuple) and len(t.elts) == 2 and all(isinstance(e, ast.Name) for e in t.elts):
            pair = ({t.elts[0].id}, {t.elts[1].id})
        elif isinstance(t, ast.Name):
            pair = ({'%s[0]' % t.id}, {'%s[1]' % t.id})
    fields = _namedtuple_fields(mod, 'ClusterResult')
    rets = returns_of(fn)
    if pair is None or fields is None or not rets:
        ck.missing(rule, 'unpacking of the (assignments, distances) pair / ClusterResult fields in predict')
        return
    allow = ('ClusterResult', 'find_cluster_centers')
    for r in rets:
        x = xp(fi, r.value, allow=allow, stop=tuple(n for p in pair for n in p if n.isidentifier()))
        if not _is_call_to(x, 'ClusterResult'):
            ck.missing(rule, 'value returned by predict is not a ClusterResult(...) call: %s' % u(x)[:120])
            continue
        kws = _bind(x, fields)
        if kws is None:
            ck.missing(rule, 'arguments of ClusterResult(...) in predict')
            continue
        a, d, ctr = ct(kws.get('assignments')), ct(kws.get('distances')), ct(kws.get('centers'))
        ok = a in pair[0] and d in pair[1] and ctr in ctrs
        names = {'self', X} | {n.split('[')[0] for p in pair for n in p}
        _three(ck, ok, ast.Tuple(elts=[kws.get(k) or ast.Constant(value=None) for k in ('assignments', 'distances', 'centers')], ctx=ast.Load()),
               names, rule, mod, r, F, u(x)[:160],
               'result carries the predicted labels/distances and the fitted centres',
               'predict result fields do not match the values it computed')
        # the centre indices of the result address frames of X: they are found per label from the
        # labels/distances pair just computed for X
        ci = kws.get('center_indices')
        if ci is None:
            ck.missing(rule + '.centers', 'center_indices field of the ClusterResult returned by predict')
        elif _is_call_to(ci, 'find_cluster_centers'):
            fps = params(mod.func('find_cluster_centers'))
            b = _bind(ci, fps)
            if b is not None and set(b) == set(fps[:2]):
                ok = ct(b[fps[0]]) in pair[0] and ct(b[fps[1]]) in pair[1]
                _three(ck, ok, ast.Tuple(elts=[b[fps[0]], b[fps[1]]], ctx=ast.Load()), names,
                       rule + '.centers', mod, r, F, u(ci),
                       'centre indices are found from the same labels/distances pair',
                       'find_cluster_centers must receive (assignments, distances) as returned by assign_to_nearest_center, in that order')
            else:
                ck.missing(rule + '.centers', 'arguments of the find_cluster_centers call in predict: %s' % u(ci)[:120])
        else:
            # data dependence: a value that is a function of the fitted estimator alone (neither X nor
            # the predicted pair flows into it) cannot address member frames of X for every X
            _three(ck, False, ci, {'self'}, rule + '.centers', mod, r, F, 'center_indices=%s' % ct(ci),
                   '', 'the centre indices of a prediction must be found from the predicted labels/distances '
                   '(find_cluster_centers(<assignments>, <distances>) of the pair assign_to_nearest_center returned for X): '
                   '`%s` does not depend on X or on the prediction, so it addresses frames of the FITTED data (stale '
                   'indices: not members of their label in X, possibly out of range)' % ct(ci))


# ---------------------------------------------------------------------------
# D2

_D2_ALLOW = ('partition_list', 'partition_indices', 'RaggedArray', 'ClusterResult')


def _only_raises(node):
    body = [s for s in node.body if not isinstance(s, (ast.Expr, ast.Pass))]
    return not node.orelse and len(body) == 1 and isinstance(body[0], ast.Raise)


def _value_on(fi, fn, node, taken, allow):
    """The (expanded) value the function returns when the branch `taken` of
    the if-statement `node` is executed: either the return inside that branch,
    or the single return after the if with the names the branch assigns
    replaced by what it assigns to them."""
    B = node.body if taken else node.orelse
    other = node.orelse if taken else node.body
    rets_in = [x for s in B for x in ast.walk(s) if isinstance(x, ast.Return)]
    if len(rets_in) == 1:
        return xp(fi, rets_in[0].value, allow)
    if rets_in:
        return None
    outside = [r for r in returns_of(fn) if not _inside(r, node) and fi.cfg.reachable(node, r)]
    if len(outside) != 1 or outside[0].value is None:
        return None
    r = outside[0]
    failed = []

    def on_name(e):
        if not isinstance(e.ctx, ast.Load):
            return ast.Name(id=e.id, ctx=e.ctx)
        defs = fi.rd.defs_at(r, e.id)
        sites = [d for d in defs if d not in ('PARAM', 'UNBOUND')]
        in_b = [d for d in sites if any(_inside(d, s) for s in B)]
        in_o = [d for d in sites if any(_inside(d, s) for s in other)]
        if not in_b and not in_o:
            return xp(fi, e, allow)
        if 'UNBOUND' in defs and not in_b:
            failed.append(e.id)
            return ast.Name(id=e.id, ctx=e.ctx)
        pre = [d for d in defs if d not in in_b and d not in in_o]
        pick = in_b if in_b else pre
        if len(pick) != 1 or pick[0] in ('PARAM', 'UNBOUND'):
            if len(pick) == 1 and pick[0] == 'PARAM':
                return ast.Name(id=e.id, ctx=e.ctx)
            failed.append(e.id)
            return ast.Name(id=e.id, ctx=e.ctx)
        v = fi.def_value(pick[0], e.id)
        if v is None or not _relaxed_pure(v, allow):
            failed.append(e.id)
            return ast.Name(id=e.id, ctx=e.ctx)
        return xp(fi, v, allow)
    val = _rebuild(r.value, on_name)
    return None if failed else val


def _split_ifexp(val):
    """A value containing conditional expressions that all test the same
    thing -> (test, value if true, value if false)."""
    tests = [n for n in ast.walk(val) if isinstance(n, ast.IfExp)]
    if not tests or len({ct(t.test) for t in tests}) != 1:
        return None

    class Pick(ast.NodeTransformer):
        def __init__(self, which):
            self.which = which

        def visit_IfExp(self, n):
            return self.visit(n.body if self.which else n.orelse)
    import copy
    return tests[0].test, Pick(True).visit(copy.deepcopy(val)), Pick(False).visit(copy.deepcopy(val))


_VALUE_KEEPING = _ALIASING + ('_C.copy()', 'np.copy(_C)', 'list(_C)', 'tuple(_C)', 'np.array(_C)', 'np.array(_C, dtype=_T)',
                              '_C.tolist()', '_C.astype(_T)', 'copy.copy(_C)', 'copy.deepcopy(_C)', 'np.asarray(_C).copy()',
                              '_C.flatten()')


def _value_core(e, depth=8):
    """`e` stripped of wrappers that keep every element value (views, copies,
    container conversions): what is passed through."""
    e = canon(e)
    while depth > 0:
        depth -= 1
        for pat in _VALUE_KEEPING:
            m = match(pat, e)
            if m is not None:
                e = m['_C']
                break
        else:
            return e
    return e


def d2_partition(ck):
    rule = 'C10.D2.partition'
    F = 'ClusterResult.partition'
    mod = ck.repo.mod(CU)
    fn = mod.func(F)
    ck.analysed(mod, fn)
    fi = finfo(mod, fn)
    L = params(fn)[1]
    ifs = [n for n in walk_local(fn) if isinstance(n, ast.If) and not _only_raises(n)]
    node = None
    extra_exits = []
    if len(ifs) > 1:
        # the square/ragged decision is the `if` BOTH arms of which determine the returned value; every other `if`
        # may only be the guard of an additional exit (a fast path: its body is a return, nothing is assigned) -
        # those exits are decided one by one below
        from ..cfg import ENTRY
        main = [n for n in ifs if _value_on(fi, fn, n, True, _D2_ALLOW) is not None and _value_on(fi, fn, n, False, _D2_ALLOW) is not None]
        others = [n for n in ifs if not any(n is m for m in main)]

        def exit_guard(n):
            body = [x for x in n.body if not isinstance(x, (ast.Expr, ast.Pass))]
            return not n.orelse and len(body) == 1 and isinstance(body[0], ast.Return) and body[0].value is not None
        if len(main) == 1 and all(exit_guard(n) for n in others) and not any(_inside(n, main[0]) for n in others):
            extra_exits = [r for r in returns_of(fn) if not _inside(r, main[0]) and fi.cfg.reachable(ENTRY, r, avoiding=[main[0]])]
            ifs = main
    if len(ifs) == 1:
        node = ifs[0]
        site = node
        test = node.test
        sq, rg = _value_on(fi, fn, node, True, _D2_ALLOW), _value_on(fi, fn, node, False, _D2_ALLOW)
        t = xp(fi, test)
    elif not ifs and len(returns_of(fn)) == 1 and returns_of(fn)[0].value is not None:
        site = returns_of(fn)[0]
        sp = _split_ifexp(xp(fi, site.value, _D2_ALLOW))
        if sp is None:
            ck.missing(rule, 'square/ragged branch in partition')
            return
        t, sq, rg = sp
    else:
        ck.missing(rule, 'square/ragged branch in partition')
        return
    if sq is None or rg is None:
        ck.missing(rule, 'both branches must return a ClusterResult')
        return
    # a predicate moved into a one-expression helper of the module is seen through
    t = canon(through_expr_helpers(mod, fn, t))
    while isinstance(t, ast.UnaryOp) and isinstance(t.op, ast.Not):
        t = t.operand
        sq, rg = rg, sq
    # --- the decision: rectangular iff all lengths are equal
    forms = ['all((%s[0] == _X for _X in %s))' % (L, L), 'all((_X == %s[0] for _X in %s))' % (L, L),
             'all([%s[0] == _X for _X in %s])' % (L, L), 'all([_X == %s[0] for _X in %s])' % (L, L),
             'all((%s[-1] == _X for _X in %s))' % (L, L), 'all((_X == %s[-1] for _X in %s))' % (L, L),
             'len(set(%s)) <= 1' % L, 'len(set(%s)) < 2' % L]
    rebound = bool(assigns_to(fn, L))
    bare = [c for c in ast.walk(t) if isinstance(c, ast.Compare) and
            any(isinstance(x, ast.Name) and x.id == L for x in [c.left] + list(c.comparators))]
    if bare and not rebound:
        ck.bad(rule + '.test', mod, site, F, ct(t),
               'the rectangular/ragged decision must be all(lengths[0] == l for l in lengths): `%s` compares the '
               'parameter `%s` itself, which is elementwise only for an ndarray; for a list/tuple of lengths the '
               'comparison is a plain False/True and equal-length data are sent down the ragged branch' % (u(bare[0]), L))
    else:
        ck.decide(classify(t, forms, near=2), rule + '.test', mod, site, F, ct(t),
                  'rectangular output iff all lengths are equal',
                  'the rectangular/ragged decision must be all(lengths[0] == l for l in lengths)')
    # --- both results are ClusterResult(...) with the same fields
    fields = _namedtuple_fields(mod, 'ClusterResult')
    if fields is None or not (_is_call_to(sq, 'ClusterResult') and _is_call_to(rg, 'ClusterResult')):
        ck.missing(rule, 'both branches must return a ClusterResult')
        return
    ks, kr = _bind(sq, fields), _bind(rg, fields)
    if ks is None or kr is None:
        ck.missing(rule, 'arguments of the ClusterResult(...) calls in partition')
        return
    ck.check(set(ks) == set(kr) == set(fields), rule + '.fields', mod, site, F,
             'fields %s / %s' % (sorted(ks), sorted(kr)), 'same four fields in both branches',
             'the two branches build different field sets')
    scope = {'self', L}
    for f in ('center_indices', 'centers'):
        if f in ks and f in kr:
            ck.check(ct(ks[f]) == ct(kr[f]), rule + '.siblings', mod, site, F,
                     '%s: %s / %s' % (f, ct(ks[f]), ct(kr[f])),
                     'identical in both branches', 'field `%s` differs between the rectangular and ragged branch' % f)
    pi_params = params(ck.repo.mod(RA).func('partition_indices'))

    def indices_field(ci, at):
        """center_indices of a result: partition_indices(self.center_indices, lengths).  Positively wrong: that call
        with other operands, or a value-keeping pass-through (the attribute itself, a copy / view / list of it, a
        constant): the FLAT indices (or another field) are handed on where (trajectory, frame) pairs are due."""
        ok = False
        if _is_call_to(ci, 'partition_indices'):
            b = _bind(ci, pi_params)
            ok = b is not None and len(b) == 2 and ct(b.get(pi_params[0])) == 'self.center_indices' and ct(b.get(pi_params[1])) == L
        core = _value_core(ci) if ci is not None else None
        flat = core is not None and (isinstance(core, ast.Constant) or
                                     (isinstance(core, ast.Attribute) and ct(core.value) == 'self'))
        detail = 'center_indices must be partition_indices(self.center_indices, lengths)'
        if flat and not ok:
            detail += (': `%s` passes %s through, so the partitioned result carries flat integers instead of the (trajectory, frame) '
                       'pairs that address the same frames' % (ct(ci), ct(core)))
        _three(ck, ok, ci if (_is_call_to(ci, 'partition_indices') or flat) else None, scope | {'ra'}, rule + '.indices', mod, at, F,
               'center_indices=%s' % ct(ci) if at is not site else ct(ci),
               'centre indices converted with the same lengths', detail, allow=_D2_ALLOW)

    def centers_field(ctr, at):
        # positively wrong: another attribute of self / a constant; anything else (a copy, a view) is not decided
        ctr_wrong = (isinstance(ctr, ast.Attribute) and ct(ctr) != 'self.centers' and ct(ctr.value) == 'self') or isinstance(ctr, ast.Constant)
        _three(ck, ct(ctr) == 'self.centers', ctr if ctr_wrong else None, scope, rule + '.centers', mod, at, F,
               ct(ctr), 'centres passed through', 'centres must be passed through unchanged')

    indices_field(ks.get('center_indices'), site)
    centers_field(ks.get('centers'), site)
    pl_params = params(ck.repo.mod(RA).func('partition_list'))
    ra_params = [p for p in params(ck.repo.mod(RA).func('RaggedArray.__init__')) if p != 'self']
    helpers = {'ra'}
    def square_shape(a):
        """np.array(partition_list(...)) & equivalent spellings -> the partition_list call"""
        pl = None
        if isinstance(a, ast.Call) and call_name(a) in ('np.array', 'np.asarray', 'numpy.array', 'numpy.asarray') \
                and len(a.args) == 1 and not a.keywords:
            pl = a.args[0]
        elif isinstance(a, ast.Call) and isinstance(a.func, ast.Attribute) and a.func.attr == 'copy' and not a.args:
            pl = a.func.value       # front-end spelling of np.array(<name>)
        return pl if _is_call_to(pl, 'partition_list') else None

    for f in ('assignments', 'distances'):
        a, b = ks.get(f), kr.get(f)
        ok_sq = False
        pl = square_shape(a)
        if pl is not None:
            bb = _bind(pl, pl_params)
            ok_sq = bb is not None and len(bb) == 2 and ct(bb.get(pl_params[0])) == 'self.%s' % f and \
                ct(bb.get(pl_params[1])) == L
        ok_rg = False
        undecided = False
        if _is_call_to(b, 'RaggedArray'):
            bb = _bind(b, ra_params)
            if bb is not None and 'array' in bb and 'lengths' in bb:
                ok_rg = ct(bb['array']) == 'self.%s' % f and ct(bb['lengths']) == L
                extra = {k: v for k, v in bb.items() if k not in ('array', 'lengths')}
                if any(const_value(v) is not True for v in extra.values()):
                    undecided = True      # copy=False / error_checking=False: aliasing/validation contract, not decided here
        # a violation only for a RECOGNISED container with wrong operands, or the sibling's container; another
        # way of stacking the pieces (np.vstack, ...) is not decided here
        a_dec = a if (square_shape(a) is not None or _is_call_to(a, 'RaggedArray')) else None
        b_dec = b if (square_shape(b) is not None or _is_call_to(b, 'RaggedArray')) else None
        _three(ck, ok_sq, a_dec, scope | helpers, rule + '.square', mod, site, F, '%s=%s' % (f, ct(a)),
               'rectangular branch: np.array(partition_list(self.%s, lengths))' % f,
               'rectangular branch must split self.%s by lengths' % f, allow=_D2_ALLOW)
        if undecided and ok_rg:
            ck.missing(rule + '.ragged', 'RaggedArray(...) called with non-default copy/error_checking: %s' % ct(b))
        else:
            _three(ck, ok_rg, b_dec, scope | helpers, rule + '.ragged', mod, site, F, '%s=%s' % (f, ct(b)),
                   'ragged branch: RaggedArray(self.%s, lengths=lengths)' % f,
                   'ragged branch must wrap self.%s with lengths=lengths' % f, allow=_D2_ALLOW)

    # --- every additional way out (fast path) is an exit of the same contract: a ClusterResult whose centre indices
    #     are converted, whose centres are passed through and whose data fields are one of the two accepted containers
    #     of the same sources; a field the rule cannot relate to the result formula is not decided (never HOLDS)
    for r in extra_exits:
        val = xp(fi, r.value, _D2_ALLOW)
        if not _is_call_to(val, 'ClusterResult'):
            ck.missing(rule + '.exits', 'the additional exit at %s does not return a ClusterResult(...): %s' % (mod.loc(r), u(val)[:120]))
            continue
        ke = _bind(val, fields)
        if ke is None or set(ke) != set(fields):
            ck.missing(rule + '.exits', 'fields of the ClusterResult returned by the additional exit at %s' % mod.loc(r))
            continue
        pc = guard_atoms(mod, fn, fi, r, fn)
        cond = ' and '.join(atom_text(a) for a in pc) if pc else '<condition not understood>'
        indices_field(ke.get('center_indices'), r)
        centers_field(ke.get('centers'), r)
        for f in ('assignments', 'distances'):
            a = ke.get(f)
            if ct(a) == ct(ks.get(f)) or ct(a) == ct(kr.get(f)):
                # the container of one main branch: which one is due depends on the guard, which this rule does not relate
                # to the all-lengths-equal decision
                ck.missing(rule + '.exits', 'additional exit at %s (when %s) builds `%s` as one main branch does; its guard is not '
                           'related to the rectangular/ragged decision' % (mod.loc(r), cond[:100], f))
                continue
            pl = square_shape(a)
            if pl is not None or _is_call_to(a, 'RaggedArray'):
                _three(ck, False, a, scope | helpers, rule + '.exits', mod, r, F, '%s=%s' % (f, ct(a)), '',
                       'the additional exit (when %s) must split self.%s by lengths like the main branches' % (cond[:100], f), allow=_D2_ALLOW)
                continue
            ck.missing(rule + '.exits', 'additional exit at %s (when %s): `%s=%s` is not related to the result formula of the main '
                       'branches' % (mod.loc(r), cond[:100], f, ct(a)[:100]))


# ---------------------------------------------------------------------------
# D3

def _d3_helper_walk(ck, rule, mod, fn, fi, o, ps):
    """The walk over the lengths extracted into a per-index helper of the same
    module: `for <index> in <indices>: ... <h>(<index>, <lengths>) ...` where
    <h> holds the single loop over its lengths parameter.  Returns (helper,
    its FuncInfo, lengths loop, index parameter, lengths parameter, call) or
    None after reporting what is missing."""
    calls = [c for c in calls_in(o) if isinstance(c.func, ast.Name) and c.func.id in mod.functions
             and mod.functions[c.func.id] is not fn]
    if len(calls) != 1:
        ck.missing(rule, 'nested loops over indices and trajectory lengths')
        return None
    call = calls[0]
    h = mod.functions[call.func.id]
    b = _bind(call, params(h))
    if b is None or h.args.vararg or h.args.kwarg or h.decorator_list or \
            any(isinstance(x, (ast.Yield, ast.YieldFrom)) for x in ast.walk(h)):
        ck.missing(rule, 'binding of the call %s to the helper %s' % (u(call)[:80], h.name))
        return None
    pi = [p for p, a in b.items() if isinstance(a, ast.Name) and a.id == o.target.id and fi.defs_of_use(a) == {o}]
    pl = [p for p, a in b.items() if xt(fi, a) == ps[1]]
    hfi = finfo(mod, h)
    hfors = [l for l in walk_local(h) if isinstance(l, ast.For)]
    if len(pi) != 1 or len(pl) != 1 or len(hfors) != 1:
        ck.missing(rule, 'per-index helper %s(<index>, <lengths>) with one loop over the lengths (call: %s)' % (h.name, u(call)[:80]))
        return None
    return h, hfi, hfors[0], pi[0], pl[0], call


def _monotone_step(s, name):
    """Is statement s `name += <positive int>` / `name = name + <positive int>`?"""
    if isinstance(s, ast.AugAssign) and isinstance(s.target, ast.Name) and s.target.id == name and isinstance(s.op, ast.Add):
        k = const_value(s.value)
        return type(k) is int and k > 0
    if isinstance(s, ast.Assign) and len(s.targets) == 1 and isinstance(s.targets[0], ast.Name) and s.targets[0].id == name:
        m = match('_T + _K', s.value) or match('_K + _T', s.value)
        if m is not None and isinstance(m['_T'], ast.Name) and m['_T'].id == name:
            k = const_value(m['_K'])
            return type(k) is int and k > 0
    return False


def _d3_carried_walk(ck, rule, mod, fn, fi, o, F):
    """Walk state carried from one flat index to the next.  Necessary condition
    of the flat index -> (trajectory, frame) conversion for ARBITRARY (unsorted)
    index lists: the trajectory component emitted for one index must not depend
    on the indices seen before.  Located by role: the pair appended inside the
    loop over the indices; its first component is a counter `T`.  When every
    rebinding of `T` inside the index loop is a positive increment and `T` is
    only initialised before the loop, the emitted trajectory components are
    non-decreasing in loop order whatever the indices are - wrong for any index
    that addresses an earlier trajectory than its predecessor.  Returns True
    when the construct was decided here."""
    apps = [c for c in calls_in(o) if isinstance(c.func, ast.Attribute) and c.func.attr == 'append'
            and isinstance(c.func.value, ast.Name) and len(c.args) == 1 and not c.keywords]
    if len(apps) != 1:
        return False
    app = apps[0]
    if _returned_name(fi, fn) != app.func.value.id:
        return False
    pair = app.args[0] if isinstance(app.args[0], ast.Tuple) else xp(fi, app.args[0])
    if not (isinstance(pair, ast.Tuple) and len(pair.elts) == 2 and isinstance(pair.elts[0], ast.Name)):
        return False
    T = pair.elts[0].id
    if T in target_names(o.target) or T in params(fn):
        return False
    inside = _updates(o, T)
    allu = _updates(fn, T)
    outside = [s for s in allu if not any(s is x for x in inside)]
    binders = [n for n in walk_local(fn) if isinstance(n, (ast.For, ast.With, ast.comprehension))
               and T in target_names(getattr(n, 'target', None) or ast.Tuple(elts=[], ctx=ast.Store()))]
    if binders or not inside or not outside:
        return False
    if not all(_monotone_step(s, T) for s in inside):
        return False
    # every initialisation outside the loop happens before it (never re-entered between two indices)
    if any(fi.cfg.reachable(o, s) for s in outside):
        return False
    ck.bad(rule + '.reset', mod, o, F, '%s; %s' % ('; '.join(u(s) for s in outside), '; '.join(u(s) for s in inside)),
           'the trajectory counter `%s` of the emitted (trajectory, frame) pair is initialised once before the loop '
           'over the flat indices and only ever incremented inside it: the walk over the lengths is carried over '
           'from the previous index instead of restarting, so an index addressing an earlier trajectory than its '
           'predecessor (flat centre indices are not sorted) gets a later trajectory and a wrong/negative frame' % T)
    return True


def d3_partition_indices(ck):
    rule = 'C10.D3.partition-indices'
    F = 'partition_indices'
    mod = ck.repo.mod(RA)
    fn = mod.func(F)
    ck.analysed(mod, fn)
    fi = finfo(mod, fn)
    ps = params(fn)
    fors = [l for l in walk_local(fn) if isinstance(l, ast.For)]
    nest = [(o, i) for o in fors for i in fors if i is not o and _inside(i, o)]
    # W* : the function holding the walk over the lengths; `per` is the region executed once per flat
    # index (the body of the outer loop, or the whole per-index helper), `head` its entry in the CFG
    hcall = None
    if len(nest) == 1:
        o, inner = nest[0]
        wfn, wfi, per, head, lens = fn, fi, o, o, ps[1]
    elif len(fors) == 1:
        o = fors[0]
    else:
        ck.missing(rule, 'nested loops over indices and trajectory lengths')
        return
    so = _loop_shape(fi, o)
    if so is None or so[0] != ps[0] or so[1] is not None or not isinstance(o.target, ast.Name):
        ck.missing(rule, 'loop `for <index> in %s` (found for %s in %s)' % (ps[0], u(o.target), u(o.iter)))
        return
    idx = o.target.id
    if len(nest) != 1:
        if _d3_carried_walk(ck, rule, mod, fn, fi, o, F):
            return
        hw = _d3_helper_walk(ck, rule, mod, fn, fi, o, ps)
        if hw is None:
            return
        from ..cfg import ENTRY
        wfn, wfi, inner, idx, lens, hcall = hw
        ck.analysed(mod, wfn)
        per, head = wfn, ENTRY
    cfg = wfi.cfg
    si = _loop_shape(wfi, inner)
    if si is None or si[0] != lens:
        ck.missing(rule, 'loops `for <index> in %s: for <len> in %s` (found for %s in %s: for %s in %s)' % (
            ps[0], ps[1], u(o.target), u(o.iter), u(inner.target), u(inner.iter)))
        return
    t_enum, tl_forms = si[1], si[2]
    tl_names = {n for f in tl_forms for n in names_loaded(ast.parse(f).body[0].value)}
    ck.ok(rule, mod, o, 'for %s in %s: for %s in %s' % (o.target.id, u(o.iter), u(inner.target), u(inner.iter)),
          'each flat index is walked through the lengths in order')
    # --- the emit: <out>.append((<trajectory>, <frame>)) inside the lengths loop; with a per-index helper:
    #     `return (<trajectory>, <frame>)` inside the lengths loop, the caller appends what the helper returned
    apps = [c for c in calls_in(inner if hcall is None else o) if isinstance(c.func, ast.Attribute) and c.func.attr == 'append'
            and isinstance(c.func.value, ast.Name) and len(c.args) == 1 and not c.keywords]
    if len(apps) != 1:
        ck.missing(rule, 'single <out>.append((trajectory, frame)) inside the lengths loop')
        return
    app = apps[0]
    app_s = fi.stmt(app)
    if hcall is None:
        emit_s = app_s
        pair = app.args[0] if isinstance(app.args[0], ast.Tuple) else xp(fi, app.args[0])
    else:
        got = app.args[0]
        gname = got.id if isinstance(got, ast.Name) else None
        if isinstance(got, ast.Name):
            got = fi.resolve(got)
        if got is not hcall:
            ck.missing(rule, 'the value appended in the loop over `%s` is not what %s(...) returned: %s' % (ps[0], wfn.name, u(app_s)[:120]))
            return
        vals = [r for r in returns_of(wfn) if r.value is not None and const_value(r.value, default=0) is not None]
        if len(vals) != 1 or not _inside(vals[0], inner):
            ck.missing(rule, 'single `return (trajectory, frame)` inside the lengths loop of %s' % wfn.name)
            return
        emit_s = vals[0]
        pair = emit_s.value if isinstance(emit_s.value, ast.Tuple) else xp(wfi, emit_s.value)
        # the helper answers None when the walk runs off the end: the caller must append only a real pair
        at = _atoms(path_condition(fi, app_s, o))
        guard_ok = at is not None and len(at) == 1 and at[0].op is ast.IsNot and gname is not None and \
            u(at[0].lhs) == gname and const_value(at[0].rhs, default=0) is None
        if not guard_ok:
            ck.missing(rule, 'the caller must append the pair returned by %s exactly when it is not None: %s' % (
                wfn.name, ' and '.join(repr(c) for c in (at or [])) or '<unconditional / unrecognised>'))
            return
    if not (isinstance(pair, ast.Tuple) and len(pair.elts) == 2 and all(isinstance(e, ast.Name) for e in pair.elts)):
        ck.missing(rule, 'appended value is not a (trajectory counter, frame) pair of names: %s' % u(pair)[:120])
        return
    T, cur = pair.elts[0].id, pair.elts[1].id

    def is_index(name):
        """the per-index variable or a per-index working copy of it"""
        if name == idx:
            return True
        cp = [s for s in _updates(per, name) if not _inside(s, inner)]
        return len(cp) == 1 and isinstance(cp[0], ast.Assign) and wfi.def_value(cp[0], name) is not None and \
            xt(wfi, wfi.def_value(cp[0], name)) in (idx, 'int(%s)' % idx) and not cfg.reachable(head, inner, avoiding=[cp[0]])
    if not is_index(cur):
        if is_index(T):
            ck.bad(rule + '.emit', mod, emit_s, F, u(emit_s),
                   'the pair must be (trajectory, frame): the (reduced) flat index `%s` is stored as the trajectory component' % T)
            return
        ck.missing(rule, 'frame component `%s` of the appended pair is neither the loop variable `%s` nor a per-index copy of it' % (cur, idx))
        return
    # --- the boundary test: condition under which the pair is emitted
    at = _atoms(path_condition(wfi, emit_s, inner))
    if at is None:
        ck.missing(rule + '.boundary', 'condition guarding the append is not a conjunction of comparisons')
        return
    cond = ' and '.join(repr(c) for c in at) or '<unconditional>'
    emit = None
    if len(at) == 1:
        c = at[0]
        less = c.as_less()
        sides = (xt(wfi, c.lhs), xt(wfi, c.rhs))
        if less is not None and xt(wfi, less[0]) == cur and xt(wfi, less[2]) in tl_forms:
            emit = c
            ck.check(less[1], rule + '.boundary', mod, emit_s, F, cond,
                     'frame belongs to this trajectory iff index < traj_len (strict)',
                     'the trajectory owning a flat index is the first with traj_len > index (strict): '
                     'with >= the last frame+1 is attributed to the wrong trajectory / first frame of '
                     'the next trajectory is reported as frame len of the previous one')
        elif set(sides) <= ({cur, T} | tl_forms):
            ck.bad(rule + '.boundary', mod, emit_s, F, cond,
                   'the pair must be emitted for the first trajectory with %s < traj_len (strict); found the test `%s`' % (cur, cond))
        else:
            ck.missing(rule + '.boundary', 'boundary test not recognised: %s' % cond)
    elif not at:
        ck.bad(rule + '.boundary', mod, emit_s, F, cond,
               'the pair is appended unconditionally: it must be emitted only for the first trajectory with index < traj_len')
    else:
        ck.missing(rule + '.boundary', 'boundary test not recognised: %s' % cond)
    # emitted once per index: after the append the lengths loop is left
    ret_name = app.func.value.id
    once = isinstance(emit_s, ast.Return) or not cfg.reachable(emit_s, inner, avoiding=[o])
    if hcall is not None:
        once = once and not fi.cfg.reachable(app_s, app_s, avoiding=[o])
    ck.check(once, rule + '.emit', mod, emit_s, F,
             '%s; then leave the lengths loop' % u(emit_s),
             'emit (trajectory, frame) once and stop', 'must append (trj_index, index) and break: the walk over the '
             'lengths continues after the pair was emitted')
    if _returned_name(fi, fn) != ret_name:
        ck.missing(rule + '.emit', 'the list receiving the pairs (`%s`) is not what the function returns' % ret_name)
    else:
        init = assigns_to(fn, ret_name)
        if len(init) == 1 and isinstance(init[0], ast.Assign) and ct(init[0].value) in ('[]', 'list()'):
            ck.check(not _inside(init[0], o), rule + '.emit', mod, init[0], F, u(init[0]),
                     'one result list for all indices', 'the result list is re-created for every index: only the last pair survives')
        else:
            ck.missing(rule + '.emit', 'initialisation of the result list `%s`' % ret_name)
    if emit is None:
        return
    ekey, epol = canon_atom(emit)

    def complementary(s):
        a = _atoms(path_condition(wfi, s, inner, fresh=False))
        if a is None:
            return None
        return len(a) == 1 and canon_atom(a[0]) == (ekey, not epol)
    # --- the advance: index -= traj_len and trj_index += 1, both exactly when the test fails
    decs = _updates(inner, cur)
    tl_one = sorted(tl_forms, key=len)[0]
    adv_construct = '; '.join(u(s) for s in decs + (_updates(inner, T) if T != t_enum else []))
    verdicts = []
    if len(decs) == 1:
        s = decs[0]
        if isinstance(s, ast.AugAssign):
            good = isinstance(s.op, ast.Sub) and xt(wfi, s.value) in tl_forms
            val = ast.BinOp(left=ast.Name(id=cur, ctx=ast.Load()), op=s.op, right=xp(wfi, s.value))
        else:
            val = xp(wfi, wfi.def_value(s, cur), stop=(cur,)) if wfi.def_value(s, cur) is not None else None
            good = val is not None and ct(val) in [C('%s - %s' % (cur, f)) for f in tl_forms]
        comp = complementary(s)
        if good and comp:
            verdicts.append('ok')
        elif comp is None or (not good and not _closed(val, {cur, T} | tl_names)):
            verdicts.append('far')
        else:
            verdicts.append('bad')
    else:
        verdicts.append('bad')      # the running index is never / several times reduced inside the located walk
    if T == t_enum:
        others = [s for s in _updates(per, T)]
        verdicts.append('ok' if not others else 'bad')
    else:
        incs = _updates(inner, T)
        if len(incs) == 1:
            s = incs[0]
            if isinstance(s, ast.AugAssign):
                good = isinstance(s.op, ast.Add) and const_value(s.value) == 1
                val = ast.BinOp(left=ast.Name(id=T, ctx=ast.Load()), op=s.op, right=xp(wfi, s.value))
            else:
                val = xp(wfi, wfi.def_value(s, T), stop=(T,)) if wfi.def_value(s, T) is not None else None
                good = val is not None and ct(val) in (C('%s + 1' % T), C('1 + %s' % T))
            comp = complementary(s)
            if good and comp:
                verdicts.append('ok')
            elif comp is None or (not good and not _closed(val, {cur, T} | tl_names)):
                verdicts.append('far')
            else:
                verdicts.append('bad')
        else:
            verdicts.append('bad')
    if 'bad' in verdicts:
        ck.bad(rule + '.advance', mod, inner, F, adv_construct,
               'the complementary branch must subtract traj_len from the index AND advance the trajectory counter '
               '(exactly when the boundary test fails: %s -= %s and %s += 1 together)' % (cur, tl_one, T))
    elif 'far' in verdicts:
        ck.missing(rule + '.advance', 'update of `%s` / `%s` in the lengths loop not recognised: %s' % (cur, T, adv_construct))
    else:
        ck.ok(rule + '.advance', mod, inner, adv_construct,
              'skip a whole trajectory: index -= traj_len and trj_index += 1 together')
    # --- the trajectory counter restarts for each index
    if T == t_enum:
        ck.ok(rule + '.reset', mod, inner, '%s is the enumerate/range index of the lengths loop' % T,
              'trajectory counter restarts for each index')
    else:
        resets = [s for s in _updates(per, T) if not _inside(s, inner) and isinstance(s, ast.Assign)
                  and wfi.def_value(s, T) is not None]
        zero = [s for s in resets if const_value(wfi.def_value(s, T)) == 0 and
                type(const_value(wfi.def_value(s, T))) is int and not cfg.reachable(head, inner, avoiding=[s])]
        ck.check(len(zero) >= 1 and len(zero) == len(resets) and len(_updates(per, T)) == len(resets) + len(_updates(inner, T)),
                 rule + '.reset', mod, o, F, '%s = 0 per index' % T,
                 'trajectory counter restarts for each index', 'trajectory counter must be reset to 0 for every flat index')


# ---------------------------------------------------------------------------
# D4

def _members_cond(m):
    """The boolean mask C of an index-list expression np.where(C)[0] & co."""
    for pat in ('np.where(_C)[0]', 'np.nonzero(_C)[0]', '_C.nonzero()[0]', 'np.argwhere(_C).flatten()',
                'np.argwhere(_C).ravel()', 'np.argwhere(_C)[:, 0]', 'np.where(_C)[0].flatten()'):
        b = match(pat, m)
        if b is not None:
            return b['_C']
    return None


_WIDE_INT = {'int', 'np.intp', 'np.int64', 'np.int_', 'np.uint64', 'np.uintp', 'np.int32', 'np.uint32', 'np.longlong',
             "'int'", "'int64'", "'intp'", "'uint64'", "'i8'", "'u8'", "'int32'", "'uint32'", "'i4'", "'u4'",
             'np.dtype(int)', "np.dtype('int64')", 'numpy.intp', 'numpy.int64'}
_NOT_INDEX = {'float', 'bool', 'np.float64', 'np.float32', 'np.float16', 'np.double', 'np.single', 'np.bool_', 'np.int8',
              'np.int16', 'np.uint8', 'np.uint16', 'np.short', 'np.byte', 'np.ubyte', "'float'", "'float32'", "'float64'",
              "'int8'", "'int16'", "'uint8'", "'uint16'", "'i1'", "'i2'", "'u1'", "'u2'", "'f4'", "'f8'", "'bool'", 'complex'}
_LIKE = {'np.zeros_like': 1, 'np.empty_like': 1, 'np.ones_like': 1, 'np.full_like': 2}
_ALLOC = {'np.zeros': 1, 'np.empty': 1, 'np.ones': 1, 'np.full': 2}


def _d4_index_dtype(ck, rule, mod, fn, fi, F, out, st, A, D):
    """dtype provenance of the array that receives the frame indices (finding
    find-centers-label-dtype): frame indices range over 0..n_frames-1 whatever
    the labels are, so the storage they are written to must be an index-wide
    integer type chosen independently of the label (and distance) arrays.
    `np.zeros_like(<labels>)` makes the element type of the LABELS the element
    type of the FRAME INDICES: uint8 labels wrap the index modulo 256, int8/
    int16 labels overflow, float labels return float 'indices'."""
    sites = [s for s in fi.rd.defs_at(st, out) if s not in ('PARAM', 'UNBOUND')]
    if not sites or len(sites) != len(fi.rd.defs_at(st, out)):
        ck.missing(rule, 'allocation of the index array `%s` of %s' % (out, F))
        return
    for site in sites:
        v = fi.def_value(site, out) if isinstance(site, (ast.Assign, ast.AnnAssign)) else None
        if v is None:
            ck.missing(rule, 'allocation of the index array `%s` not understood: %s' % (out, u(site)[:100]))
            continue
        role = 'allocation of the frame-index array returned by %s' % F
        if isinstance(v, ast.List) and not v.elts or (isinstance(v, ast.Call) and call_name(v) == 'list' and not v.args):
            ck.ok(rule, mod, site, u(site), 'python list of integer frame indices')
            continue
        cn = call_name(v) if isinstance(v, ast.Call) else None
        if cn not in _LIKE and cn not in _ALLOC:
            ck.missing(rule, 'allocation of the index array `%s` not recognised: %s' % (out, u(site)[:100]))
            continue
        dpos = _LIKE.get(cn) or _ALLOC.get(cn)
        dt = None
        for k in v.keywords:
            if k.arg == 'dtype':
                dt = k.value
        if dt is None and len(v.args) > dpos:
            dt = v.args[dpos]
        if dt is not None:
            dte = xp(fi, dt)
            txt = ct(dte)
            if {A, D} & set(names_loaded(dte)):
                ck.bad(rule, mod, site, F, role, 'the element type `%s` of the frame-index array is taken from the input arrays: frame indices '
                       'range over 0..n_frames-1 independently of the label / distance dtype' % txt)
            elif txt in _WIDE_INT:
                ck.ok(rule, mod, site, u(site), 'index-wide integer storage for the frame indices')
            elif txt in _NOT_INDEX:
                ck.bad(rule, mod, site, F, role, 'the frame-index array is allocated with dtype %s, which cannot hold every frame index' % txt)
            else:
                ck.missing(rule, 'dtype of the index array not recognised: %s' % txt)
            continue
        if cn in _LIKE:
            proto = xp(fi, v.args[0]) if v.args else None
            if proto is not None and ({A, D} & set(names_loaded(proto))):
                src = A if A in names_loaded(proto) else D
                ck.bad(rule, mod, site, F, role,
                       '`%s` (prototype: %s) gives the frame indices the element type of `%s`: a compact label dtype (uint8 for <= 255 states) '
                       'silently wraps frame indices >= 256 (a frame of another label is returned), int8/int16 overflow, float labels '
                       'return float indices; allocate with an explicit index dtype (dtype=int)' % (u(v), ct(proto), src))
            else:
                ck.missing(rule, 'prototype of the index array not traced to a parameter: %s' % u(v)[:100])
            continue
        if cn == 'np.full' and len(v.args) > 1 and isinstance(const_value(v.args[1]), int) and not isinstance(const_value(v.args[1]), bool):
            ck.ok(rule, mod, site, u(site), 'np.full with an integer fill value: default integer storage')
            continue
        ck.bad(rule, mod, site, F, role, '`%s` allocates float64 storage (no dtype): the function returns float values where frame indices '
               'are expected (not usable as indices)' % u(v))


def _label_set_forms(A):
    """Accepted spellings of "the distinct labels that occur in A"."""
    return {C(f % {'A': A}) for f in (
        'np.unique(%(A)s)', 'sorted(set(%(A)s))', 'np.unique(np.asarray(%(A)s))', 'sorted(np.unique(%(A)s))',
        'set(%(A)s)', 'list(set(%(A)s))', 'np.unique(%(A)s.ravel())', 'np.unique(np.ravel(%(A)s))',
        'np.unique(%(A)s.flatten())', 'list(np.unique(%(A)s))', 'np.unique(%(A)s).tolist()', 'set(%(A)s.tolist())',
        'sorted(set(%(A)s.tolist()))', 'frozenset(%(A)s)')}


_EXTREME_CALLS = {'len', 'int', 'max', 'min', 'np.max', 'np.min', 'np.amax', 'np.amin', 'np.nanmax', 'np.nanmin', 'np.size',
                  'np.shape', 'np.asarray', 'np.alen', 'np.ptp', 'abs'}
_EXTREME_METHODS = {'max', 'min', 'ptp', '__len__'}


def _extremes_only(e, operands):
    """`e` is built from the operands by length / shape / extreme-value
    reductions, integer constants and arithmetic only.  Such a value is the
    same for any two label arrays of equal length, maximum and minimum -
    which can hold different numbers of distinct labels - so it cannot be the
    number of labels present."""
    seen = False
    for x in ast.walk(e):
        if isinstance(x, ast.Name):
            if x.id in operands:
                seen = True
            elif x.id not in ('np', 'numpy', 'len', 'int', 'max', 'min', 'abs'):
                return False
        elif isinstance(x, ast.Call):
            cn = call_name(x) or ''
            if x.keywords and any(k.arg not in ('axis',) for k in x.keywords):
                return False
            if cn.replace('numpy.', 'np.') in _EXTREME_CALLS:
                continue
            if isinstance(x.func, ast.Attribute) and x.func.attr in _EXTREME_METHODS and not x.args:
                continue
            return False
        elif isinstance(x, ast.Attribute):
            if x.attr not in ({'shape', 'size'} | _EXTREME_METHODS) and not (isinstance(x.value, ast.Name) and x.value.id in ('np', 'numpy')):
                return False
        elif isinstance(x, ast.Constant):
            if not isinstance(x.value, int) or isinstance(x.value, bool):
                return False
        elif isinstance(x, ast.Subscript):
            # only <...>.shape[<const>]
            if not (isinstance(x.value, ast.Attribute) and x.value.attr == 'shape') and \
                    not (isinstance(x.value, ast.Call) and (call_name(x.value) or '') in ('np.shape', 'numpy.shape')):
                return False
        elif not isinstance(x, (ast.BinOp, ast.UnaryOp, ast.operator, ast.unaryop, ast.expr_context, ast.Tuple, ast.keyword)):
            return False
    return seen


def _d4_result_size(ck, rule, mod, fn, fi, F, out, A, D, rets=None):
    """One entry per label PRESENT: the array the function returns is
    allocated once, with as many entries as there are distinct labels in the
    assignments (`len(np.unique(assignments))` & equivalent) - the callers
    (predict, ClusterResult.partition, the apps) line the result up with the
    sorted distinct labels.  A size that is a function of the length / the
    extreme values of the inputs only (`assignments.max() + 1`,
    `len(assignments)`) is a different number whenever a label below the
    maximum does not occur (predict on new data that visits only some of the
    fitted clusters): the surplus entries keep the fill value - frame 0, which
    is not a member of those labels."""
    rets = returns_of(fn) if rets is None else rets
    sites = set()
    for r in rets:
        ds = fi.rd.defs_at(r, out)
        if len(ds) != 1:
            ck.missing(rule, 'single allocation of the returned index array `%s` reaching %s' % (out, mod.loc(r)))
            return
        sites |= set(ds)
    if len(sites) != 1:
        ck.missing(rule, 'single allocation of the returned index array `%s`' % out)
        return
    site = next(iter(sites))
    v = fi.def_value(site, out) if isinstance(site, (ast.Assign, ast.AnnAssign)) else None
    if v is None:
        ck.missing(rule, 'allocation of the returned index array `%s` not understood' % out)
        return
    if (isinstance(v, ast.List) and not v.elts) or (isinstance(v, ast.Call) and call_name(v) == 'list' and not v.args and not v.keywords):
        return          # a python list that grows by one append per label: decided by the emit / labels obligations
    cn = (call_name(v) or '').replace('numpy.', 'np.') if isinstance(v, ast.Call) else None
    shape = None
    if cn in _ALLOC:
        shape = v.args[0] if v.args else next((k.value for k in v.keywords if k.arg == 'shape'), None)
    elif cn in _LIKE:
        proto = v.args[0] if v.args else next((k.value for k in v.keywords if k.arg in ('a', 'prototype')), None)
        if proto is not None and not any(k.arg == 'shape' for k in v.keywords):
            shape = ast.Call(func=ast.Name(id='len', ctx=ast.Load()), args=[proto], keywords=[])
    if shape is None:
        ck.missing(rule, 'allocation of the returned index array `%s` not recognised: %s' % (out, u(site)[:100]))
        return
    N = canon(xp(fi, shape))
    while True:
        if isinstance(N, ast.Tuple) and len(N.elts) == 1:
            N = N.elts[0]
            continue
        m = match('int(_X)', N)
        if m is not None:
            N = m['_X']
            continue
        break
    accepted = _label_set_forms(A)
    # the collection a loop of the function iterates also counts: whether THAT is the set of labels present is
    # the business of the .labels obligation
    for l in walk_local(fn):
        if isinstance(l, ast.For):
            sh = _loop_shape(fi, l)
            if sh is not None and A in names_loaded(ast.parse(sh[0], mode='eval')):
                accepted.add(sh[0])
    U = None
    for pat in ('len(_U)', '_U.shape[0]', '_U.size', '_U.shape', 'np.size(_U)', '_U.__len__()', 'np.shape(_U)[0]', 'np.shape(_U)'):
        m = match(pat, N)
        if m is not None:
            U = m['_U']
            break
    construct = 'size of the returned index array: %s' % ct(N)
    if U is not None and ct(U) in accepted:
        ck.ok(rule, mod, site, construct, 'one entry per label present')
        return
    if _extremes_only(N, {A, D}):
        ck.bad(rule, mod, site, F, 'allocation of the frame-index array returned by %s: one entry per label present' % F,
               'the result must hold one frame index per label that OCCURS in `%s` (len(np.unique(%s))): `%s` has `%s` entries, a '
               'function of the length / extreme values of the inputs only, which differs from the number of labels present whenever '
               'some label below the maximum does not occur (prediction / reassignment of data that visits only some clusters, labels not '
               'starting at 0); the surplus entries keep the fill value (frame 0, not a member of those labels) and the result no longer '
               'lines up with np.unique(%s)' % (A, A, u(v)[:100], ct(N), A))
        return
    ck.missing(rule, 'size of the returned index array `%s` not recognised as the number of labels present: %s' % (out, ct(N)[:120]))


_INVARIANT_CALLS = _EXTREME_CALLS | {'np.arange', 'range', 'list', 'tuple', 'np.zeros', 'np.ones', 'np.empty', 'np.full', 'np.array',
                                     'np.unique', 'set', 'sorted', 'np.sort', 'np.bincount', 'np.sum', 'sum', 'np.intp', 'np.int64'}
_INVARIANT_METHODS = _EXTREME_METHODS | {'sum', 'mean', 'astype', 'tolist'}


def _order_blind(e, operands):
    """`e` depends on the operands (the per-frame label / distance arrays) only
    through quantities that are the same for every reordering of the frames:
    length, shape, extreme values, the set / sorted sequence / histogram of the
    values - combined by arithmetic, allocation (`np.arange`, `np.zeros`, ...)
    and integer constants.  Its value is the same for `A` and for `A[perm]`."""
    for x in ast.walk(e):
        if isinstance(x, ast.Name):
            if x.id not in operands and x.id not in ('np', 'numpy', 'len', 'int', 'max', 'min', 'abs', 'range', 'list',
                                                     'tuple', 'set', 'sorted', 'sum'):
                return False
        elif isinstance(x, ast.Call):
            cn = (call_name(x) or '').replace('numpy.', 'np.')
            if any(k.arg not in ('axis', 'dtype') for k in x.keywords):
                return False
            if cn in _INVARIANT_CALLS:
                continue
            if isinstance(x.func, ast.Attribute) and x.func.attr in _INVARIANT_METHODS:
                continue
            return False
        elif isinstance(x, ast.Attribute):
            if x.attr not in ({'shape', 'size', 'dtype', 'ndim'} | _INVARIANT_METHODS) and \
                    not (isinstance(x.value, ast.Name) and x.value.id in ('np', 'numpy')):
                return False
        elif isinstance(x, ast.Constant):
            if not isinstance(x.value, (int, str)) and x.value is not None:
                return False
        elif isinstance(x, ast.Subscript):
            if not (isinstance(x.value, ast.Attribute) and x.value.attr == 'shape') and \
                    not (isinstance(x.value, ast.Call) and (call_name(x.value) or '') in ('np.shape', 'numpy.shape')):
                return False
        elif not isinstance(x, (ast.BinOp, ast.UnaryOp, ast.operator, ast.unaryop, ast.expr_context, ast.Tuple, ast.List, ast.keyword)):
            return False
    # a bare operand (not under a reduction) is the array itself: order matters
    bare = _bare_operands(e, operands)
    return not bare


def _bare_operands(e, operands):
    """Occurrences of an operand name that are not the direct argument /
    receiver of an order-blind reduction."""
    out = []

    def visit(x, covered):
        if isinstance(x, ast.Name):
            if x.id in operands and not covered:
                out.append(x)
            return
        if isinstance(x, ast.Call):
            cn = (call_name(x) or '').replace('numpy.', 'np.')
            red = cn in _INVARIANT_CALLS and cn not in ('np.array', 'list', 'tuple', 'np.arange', 'range', 'np.zeros', 'np.ones',
                                                         'np.empty', 'np.full', 'int', 'abs', 'np.asarray', 'np.intp', 'np.int64')
            if isinstance(x.func, ast.Attribute) and not (cn in _INVARIANT_CALLS):
                meth_red = x.func.attr in (_INVARIANT_METHODS - {'astype', 'tolist'})
                visit(x.func.value, meth_red)
            for a in x.args:
                visit(a, red)
            for k in x.keywords:
                visit(k.value, False)
            return
        if isinstance(x, ast.Attribute):
            visit(x.value, x.attr in ('shape', 'size', 'dtype', 'ndim'))
            return
        for c in ast.iter_child_nodes(x):
            visit(c, False)
    visit(e, False)
    return out


def _count_term(e, A, D, labelsets):
    """A length expression as a function of the abstract input (n frames, k
    distinct labels, m distances): returns f(n, k, m) or None."""
    e = canon(e)
    if isinstance(e, ast.Constant) and isinstance(e.value, int) and not isinstance(e.value, bool):
        return lambda n, k, m, v=e.value: v
    m_ = match('int(_X)', e)
    if m_ is not None:
        return _count_term(m_['_X'], A, D, labelsets)
    for pat in ('len(_U)', '_U.shape[0]', '_U.size', '_U.__len__()', 'np.size(_U)', 'np.shape(_U)[0]'):
        mm = match(pat, e)
        if mm is not None:
            t = ct(mm['_U'])
            if t in (A, C('%s.ravel()' % A), C('np.asarray(%s)' % A), C('%s.flatten()' % A)):
                return lambda n, k, m: n
            if t in (D, C('np.asarray(%s)' % D)):
                return lambda n, k, m: m
            if t in labelsets:
                return lambda n, k, m: k
            return None
    if isinstance(e, ast.BinOp) and isinstance(e.op, (ast.Add, ast.Sub, ast.Mult)):
        l, r = _count_term(e.left, A, D, labelsets), _count_term(e.right, A, D, labelsets)
        if l is None or r is None:
            return None
        op = {ast.Add: lambda a, b: a + b, ast.Sub: lambda a, b: a - b, ast.Mult: lambda a, b: a * b}[type(e.op)]
        return lambda n, k, m: op(l(n, k, m), r(n, k, m))
    return None


_REL = {ast.Eq: lambda a, b: a == b, ast.NotEq: lambda a, b: a != b, ast.Lt: lambda a, b: a < b,
        ast.LtE: lambda a, b: a <= b, ast.Gt: lambda a, b: a > b, ast.GtE: lambda a, b: a >= b}


def _abstract_inputs(atoms, A, D):
    """Exhaustive evaluation of a path condition over the FINITE abstract
    domain (n = number of frames, k = number of distinct labels, m = number of
    distances; 0 <= k <= n small, k == 0 iff n == 0): the list of abstract
    inputs (n, k, m) under which the path is taken, plus the atoms that are
    `n == k` tests.  None when an atom is not a comparison of such counts (or
    mentions a constant beyond the enumerated range)."""
    labelsets = _label_set_forms(A)
    preds, eq_nk, big = [], False, 0
    for a in atoms:
        if isinstance(a, Cmp):
            l, r = _count_term(a.lhs, A, D, labelsets), _count_term(a.rhs, A, D, labelsets)
            if l is None or r is None or a.op not in _REL:
                return None
            preds.append(lambda n, k, m, l=l, r=r, op=_REL[a.op]: op(l(n, k, m), r(n, k, m)))
            if a.op is ast.Eq and {(l(5, 3, 7), l(4, 2, 9)), (r(5, 3, 7), r(4, 2, 9))} == {(5, 4), (3, 2)}:
                eq_nk = True
            for side in (a.lhs, a.rhs):
                for c in ast.walk(side):
                    if isinstance(c, ast.Constant) and isinstance(c.value, int):
                        big = max(big, abs(c.value))
        else:
            t = _count_term(a[1], A, D, labelsets)
            if t is None:
                return None
            preds.append(lambda n, k, m, t=t, pol=a[2]: (t(n, k, m) != 0) == pol)
    if big > 12:
        return None
    top = max(5, big + 3)
    sat = [(n, k, m) for n in range(top + 1) for k in (range(1, n + 1) if n else (0,)) for m in range(top + 1)
           if all(p(n, k, m) for p in preds)]
    return sat, eq_nk


def _d4_exits(ck, rule, mod, fn, fi, F, A, D, early):
    """Every way OUT of find_cluster_centers is the result of the per-label
    search.  An exit that does not come after the per-label loop (a fast path)
    must still return, at position j, a member frame of the j-th distinct
    label with the smallest distance.  Decided for the class of exits whose
    value is ORDER-BLIND (depends on the labels / distances only through
    length, extremes, set of values: `np.arange(len(assignments))`,
    `np.zeros(1, int)`, ...) on a path whose condition is order-blind too
    (comparisons of the number of frames / of distinct labels): if the path
    admits an input with two or more frames, exchanging two frames that carry
    different labels (or, with a single label, moving the closest frame) leaves
    condition and returned value unchanged but changes the set of correct
    answers - the value is wrong for one of the two inputs.  `argsort` of the
    labels is accepted under `#labels == #frames` (every frame alone in its
    label: entry j is the frame carrying the j-th smallest label).  Any other
    exit is not decided (incomplete), never accepted silently."""
    for r in early:
        if r.value is None:
            ck.bad(rule, mod, r, F, 'exit of %s before the per-label search' % F,
                   'the function returns None at %s instead of the array of per-label frame indices' % mod.loc(r))
            continue
        V = canon(xp(fi, r.value))
        atoms = guard_atoms(mod, fn, fi, r, fn)
        cond = ' and '.join(atom_text(a) for a in (atoms or [])) or '<unconditional>'
        construct = 'exit of %s before the per-label search' % F
        dom = _abstract_inputs(atoms, A, D) if atoms is not None else None
        if dom is None:
            ck.missing(rule, 'exit at %s (`%s` when %s): path condition is not a comparison of frame / label counts' % (
                mod.loc(r), u(r)[:80], cond[:160] if atoms is not None else '<not a conjunction>'))
            continue
        sat, eq_nk = dom
        if not sat:
            ck.ok(rule, mod, r, construct + ': ' + u(r)[:100], 'path condition `%s` is unsatisfiable for count values: dead exit' % cond)
            continue
        W = V
        for wrap in ('np.asarray(_X)', 'np.asarray(_X, dtype=_T)', '_X.astype(_T)', 'np.array(_X)', '_X.copy()'):
            mm = match(wrap, W)
            if mm is not None:
                W = mm['_X']
        sorts = match('_X.argsort()', W) or match('_X.argsort(kind=_K)', W) or match('np.argsort(_X, kind=_K)', W)
        if sorts is not None and ct(sorts['_X']) in (A, C('np.asarray(%s)' % A)):
            if eq_nk:
                ck.ok(rule, mod, r, construct + ': ' + u(r)[:100],
                      'every frame is alone in its label (%s): entry j is the frame carrying the j-th smallest label' % cond)
            else:
                ck.missing(rule, 'exit at %s returns argsort of the labels on a path (%s) that does not state #labels == #frames' % (mod.loc(r), cond))
            continue
        if _order_blind(V, {A, D}):
            wit = [s for s in sat if s[0] >= 2]
            if wit:
                n, k, m = wit[0]
                ck.bad(rule, mod, r, F, construct,
                       'the exit `%s` taken when `%s` returns a value that depends on `%s` / `%s` only through order-blind quantities '
                       '(lengths, extremes, set of values): it is the same for every reordering of the frames, and so is the condition. '
                       'The path admits e.g. %d frames with %d distinct label(s); entry j of the result must be a member frame of the '
                       'j-th smallest label (with smallest distance), which changes when two frames carrying different labels are '
                       'exchanged (labels [2, 0, 1]: the correct result is argsort = [1, 2, 0], not [0, 1, 2]) - the value is wrong for '
                       'one of the two orderings. The per-label search (members[argmin(distances[members])]) must not be bypassed' % (
                           u(r)[:100], cond[:200], A, D, n, k))
            else:
                ck.missing(rule, 'exit at %s for inputs with at most one frame (%s) is not verified: %s' % (mod.loc(r), cond, u(r)[:80]))
            continue
        ck.missing(rule, 'exit at %s (`%s` when %s) is not related to the per-label search by any accepted form' % (
            mod.loc(r), u(r)[:80], cond[:160]))


def d4_find_centers(ck):
    rule = 'C10.D4.find-centers'
    F = 'find_cluster_centers'
    mod = ck.repo.mod(CU)
    fn = mod.func(F)
    ck.analysed(mod, fn)
    fi = finfo(mod, fn)
    A, D = params(fn)[:2]
    fors = [l for l in walk_local(fn) if isinstance(l, ast.For)]
    # the exits that come after (or out of) a loop return the result of the per-label search; exits that no loop
    # reaches are fast paths, decided on their own by _d4_exits
    rets = returns_of(fn)
    main = [r for r in rets if any(fi.cfg.reachable(l, r) for l in fors)]
    early = [r for r in rets if not any(r is x for x in main)]
    if fors and main and early:
        _d4_exits(ck, rule + '.exits', mod, fn, fi, F, A, D, early)
    else:
        main = rets
    out = _returned_name(fi, fn, rets=main)
    if out is not None:
        _d4_result_size(ck, rule + '.one-per-label', mod, fn, fi, F, out, A, D, main)
    if not fors:
        ck.missing(rule, 'per-label loop')
        return
    if out is None:
        ck.missing(rule, 'the array of frame indices that find_cluster_centers returns')
        return
    # --- the emit: <out>[<pos>] = V  /  <out>.append(V)  inside the per-label loop
    emits = []
    for s, t in subscript_stores(fn, out):
        if isinstance(s, ast.Assign) and len(s.targets) == 1 and any(_inside(s, l) for l in fors):
            emits.append((s, t.slice, s.value))
    for c in calls_in(fn):
        if isinstance(c.func, ast.Attribute) and c.func.attr == 'append' and ct(c.func.value) == out \
                and len(c.args) == 1 and any(_inside(c, l) for l in fors):
            emits.append((fi.stmt(c), None, c.args[0]))
    if len(emits) != 1:
        ck.missing(rule, 'single store of the per-label frame index into `%s` inside the per-label loop (found %d)' % (out, len(emits)))
        return
    st, pos, val = emits[0]
    _d4_index_dtype(ck, rule + '.index-dtype', mod, fn, fi, F, out, st, A, D)
    loop = _enclosing(mod, st, (ast.For,), stop=fn)
    shape = _loop_shape(fi, loop)
    if shape is None:
        ck.missing(rule, 'shape of the per-label loop: for %s in %s' % (u(loop.target), u(loop.iter)))
        return
    _, pidx, labs = shape
    labs_n = {l for l in labs if l.isidentifier()}
    lab_show = sorted(labs, key=len)[0]
    # labels come from np.unique(assignments)
    it = loop.iter
    if isinstance(it, ast.Call) and call_name(it) == 'enumerate' and it.args:
        it = it.args[0]
    elif isinstance(it, ast.Call) and call_name(it) == 'range':
        m = match('len(_X)', xp(fi, it.args[0])) or match('_X.shape[0]', xp(fi, it.args[0]))
        it = m['_X'] if m else it
    labels = xp(fi, it)
    ck.decide(classify(labels, ['np.unique(%s)' % A, 'sorted(set(%s))' % A, 'np.unique(np.asarray(%s))' % A,
                                'sorted(np.unique(%s))' % A], near=2),
              rule + '.labels', mod, loop, F, ct(labels),
              'one centre per label present', 'labels must come from np.unique(assignments)')
    if pos is not None:
        _three(ck, pidx is not None and xt(fi, pos) == pidx, xp(fi, pos), labs_n | {pidx or ''}, rule + '.store', mod, st, F, u(st),
               'stored at the position of the label', 'the frame index must be stored at the enumerate position of its label')
    else:
        ck.ok(rule + '.store', mod, st, u(st), 'appended in label order')
    # --- the value: members[argmin(distances[members])]
    V = canon(xp(fi, val, strict=False))
    for wrap in ('int(_V)',):
        m = match(wrap, V)
        if m is not None:
            V = m['_V']
    scope = {A, D} | labs_n
    eq_ok = lambda cnd: cnd is not None and isinstance(cnd, ast.Compare) and len(cnd.ops) == 1 and \
        isinstance(cnd.ops[0], ast.Eq) and {ct(cnd.left), ct(cnd.comparators[0])} in [{A, l} for l in labs]
    construct = u(st)
    m = match('_M[_D[_K].argmin()]', V) or match('_M[_D[_K].argsort()[0]]', V)
    if m is not None and ct(m['_D']) == D:
        M, K = m['_M'], m['_K']
        cnd = _members_cond(M)
        if cnd is None:
            ck.decide(classify(M, ['np.where(%s == %s)[0]' % (A, lab_show)], near=2), rule + '.members', mod, st, F, ct(M),
                      'members of the label', 'members must be np.where(assignments == %s)[0]' % lab_show)
        else:
            _three(ck, eq_ok(cnd), cnd, scope, rule + '.members', mod, st, F, ct(M),
                   'members of the label', 'members must be np.where(assignments == %s)[0]' % lab_show)
        w = match('_W[0]', M)
        same = ct(K) == ct(M) or (cnd is not None and ct(K) == ct(cnd)) or \
            (w is not None and isinstance(w['_W'], ast.Call) and ct(K) == ct(w['_W']))     # d[np.where(m)] == d[np.where(m)[0]] in 1-D
        _three(ck, same, K, scope, rule + '.index-space', mod, st, F, construct,
               'argmin over distances[members] mapped back through the same members',
               'the position returned by argmin is relative to the member subset: it must be '
               'np.argmin(distances[<members>]) mapped back as <members>[...] through the SAME index set; found %s' % ct(V))
        return
    m = match('np.where(_C, _D, _F).argmin()', V)
    if m is not None and ct(m['_D']) == D:
        # alternative idiom: argmin over the full array with non-members masked
        ok = ct(m['_F']) in [C(i) for i in INF] and eq_ok(m['_C'])
        _three(ck, ok, ast.Tuple(elts=[m['_C'], m['_F']], ctx=ast.Load()), scope, rule + '.index-space', mod, st, F, construct,
               'non-members are masked with +inf before the global argmin',
               'when the argmin runs over the whole array, frames of other labels must be masked with +inf: masking with a '
               'finite value (e.g. np.max(distances)) lets a NON-member win whenever the best member is as far as that value')
        return
    m = match('_D[_K].argmin()', V)
    if m is not None and ct(m['_D']) == D and _closed(m['_K'], scope):
        ck.bad(rule + '.index-space', mod, st, F, construct,
               'no `members[argmin(distances[members])]` mapping found: a subset-relative argmin '
               'would be stored as a frame index (%s)' % ct(V))
        return
    ck.decide(classify(V, ['_M[%s[_M].argmin()]' % D], near=2), rule + '.index-space', mod, st, F, construct,
              'argmin over distances[members] mapped back through the same members',
              'the stored frame index must be <members>[np.argmin(distances[<members>])] with <members> = '
              'np.where(assignments == %s)[0]; found %s' % (lab_show, ct(V)))


# ---------------------------------------------------------------------------
# Failure exits: no `raise` on a path that admissible inputs take
#
# The property promises a RESULT for every input inside the quantifier (a
# fitted estimator and any X for predict; labels and distances of one length
# for find_cluster_centers).  A validation guard may therefore raise only under
# a condition that no admissible input satisfies.  Every `raise` (and `assert`)
# of the function is enumerated with its path condition (CFG Assume nodes,
# temporaries and one-expression predicate helpers expanded, De Morgan pushed
# inwards) and each atom is classified by a per-function oracle:
#   'never'  - false for every admissible input (the path is a rejection of
#              inadmissible input: fine, whatever else the path tests),
#   'always' - true for every admissible input,
#   'some'   - a conjunction of atoms that one admissible input satisfies,
#   None     - not understood.
# one 'never' atom -> discharged; only 'always'/'some' atoms on a straight-line
# path (not inside a loop / try / with) -> VIOLATION; anything else ->
# incomplete (for `assert`: silent - an extra assertion the rule cannot read
# is not a construct of the property).

def _dnf(test, polarity, cap=16):
    """A boolean test under a polarity as a disjunction of conjunctions of
    atoms (Cmp / ('expr', node, polarity)); None when it does not decompose
    or grows beyond `cap` alternatives."""
    if isinstance(test, ast.UnaryOp) and isinstance(test.op, ast.Not):
        return _dnf(test.operand, not polarity, cap)
    if isinstance(test, ast.BoolOp):
        parts = [_dnf(v, polarity, cap) for v in test.values]
        if any(p is None for p in parts):
            return None
        if isinstance(test.op, ast.And) == polarity:
            alts = [[]]
            for p in parts:
                alts = [a + b for a in alts for b in p]
                if len(alts) > cap:
                    return None
            return alts
        alts = [a for p in parts for a in p]
        return alts if len(alts) <= cap else None
    c = conjuncts(test, polarity)
    return None if c is None else [c]


def _failure_sites(mod, fn, fi):
    """[(stmt, alternatives or None, straight)] for every raise / assert of
    `fn`: the condition under which the statement FAILS, as a disjunction of
    conjunctions of atoms."""
    out = []
    for s in walk_local(fn):
        if not isinstance(s, (ast.Raise, ast.Assert)):
            continue
        if isinstance(s, ast.Raise) and s.exc is None:
            continue                                   # re-raise inside a handler: the original failure is the site
        pc = path_condition(fi, s, fn)
        tests = None if pc is None else [(t, pol) for t, pol, _ in pc]
        if tests is not None and isinstance(s, ast.Assert):
            tests.append((s.test, False))
        alts = None
        if tests is not None:
            alts = [[]]
            for t, pol in tests:
                d = _dnf(canon(through_expr_helpers(mod, fn, xp(fi, t))), pol)
                if d is None or len(alts) * len(d) > 16:
                    alts = None
                    break
                alts = [a + b for a in alts for b in d]
        straight = _enclosing(mod, s, (ast.For, ast.While, ast.Try, ast.With, ast.AsyncFor, ast.AsyncWith), stop=fn) is None
        out.append((s, alts, straight))
    return out


def _decide_failure(ck, rule, mod, F, s, alts, straight, verdict_of, admissible):
    """`verdict_of(atoms)` -> ('never', '') : no admissible input satisfies the
    conjunction / ('all', why): one admissible input satisfies all of it /
    (None, '').  The statement fails when ANY alternative holds."""
    kind = 'raise' if isinstance(s, ast.Raise) else 'assert'
    text = lambda atoms: ' and '.join(atom_text(a) for a in atoms) or '<unconditional>'
    construct = 'failure exit of %s' % F
    vs = [verdict_of(a) for a in alts] if alts is not None else []
    cond = ' or '.join(text(a) for a in alts) if alts is not None else '<not decomposable>'
    hit = [(a, v[1]) for a, v in zip(alts or [], vs) if v[0] == 'all']
    if alts is not None and all(v[0] == 'never' for v in vs):
        ck.ok(rule, mod, s, '%s: %s when %s' % (construct, kind, cond), 'rejects only input outside the quantifier (%s)' % admissible)
    elif hit and straight:
        ck.bad(rule, mod, s, F, construct,
               'the %s at %s fails when `%s`: %s. The property promises a result for every such input (%s); a validation guard may '
               'fail only under a condition no admissible input satisfies' % (kind, mod.loc(s), text(hit[0][0])[:200], hit[0][1], admissible))
    elif kind == 'raise':
        ck.missing(rule, 'failure exit at %s (`%s` when %s): cannot show that no admissible input (%s) takes it' % (
            mod.loc(s), u(s)[:80], cond[:160], admissible))


def _self_attrs_read(node, selfname):
    return {x.attr for x in ast.walk(node) if isinstance(x, ast.Attribute) and isinstance(x.value, ast.Name)
            and x.value.id == selfname and isinstance(x.ctx, ast.Load)}


def d1_predict_failures(ck):
    """predict: the attributes of `self` the result path READS (arguments of
    the assign_to_nearest_center call and of the returned ClusterResult, closed
    under the properties of the class that compute them: centers_ -> result_)
    are what a fitted estimator has.  A guard `not hasattr(self, <such attr>)`
    rejects unfitted estimators only.  A guard that fails when such an
    attribute IS present leaves no input for which predict returns: with the
    attribute the guard fails, without it the result path raises
    AttributeError."""
    rule = 'C10.D1.predict.raises'
    F = 'MolecularClusterMixin.predict'
    mod = ck.repo.mod(CU)
    fn = mod.func(F)
    fi = finfo(mod, fn)
    ps = params(fn)
    if not ps:
        return
    me = ps[0]
    cls = F.rsplit('.', 1)[0]
    sites = _failure_sites(mod, fn, fi)
    if not sites:
        return
    need = set()
    for c in calls_in(fn):
        if _is_call_to(c, 'assign_to_nearest_center') or _is_call_to(c, 'ClusterResult'):
            need |= _self_attrs_read(xp(fi, c), me)
    for _ in range(4):
        more = set()
        for a in need:
            prop = mod.functions.get('%s.%s' % (cls, a))
            if prop is not None and params(prop):
                more |= _self_attrs_read(prop, params(prop)[0])
        if more <= need:
            break
        need |= more
    if not need:
        ck.missing(rule, 'attributes of the fitted estimator read by the result path of predict')
        return

    def kind_of(a):
        """+1: holds iff a needed attribute is present; -1: iff it is absent; 0: unknown."""
        if isinstance(a, Cmp):
            for pat in ('getattr(%s, _S, None)' % me,):
                for side, other in ((a.lhs, a.rhs), (a.rhs, a.lhs)):
                    m = match(pat, side)
                    if m is not None and const_value(m['_S']) in need and isinstance(other, ast.Constant) and other.value is None:
                        if a.op in (ast.Is, ast.Eq):
                            return -1
                        if a.op in (ast.IsNot, ast.NotEq):
                            return +1
            return 0
        m = match('hasattr(%s, _S)' % me, a[1])
        if m is not None and const_value(m['_S']) in need:
            return +1 if a[2] else -1
        return 0
    adm = 'an estimator that has been fit: it has `%s`' % '`, `'.join('%s.%s' % (me, x) for x in sorted(need))
    why = ('it holds for every estimator that has the attribute(s) the result path reads, and without them the '
           'result path raises AttributeError - predict returns for NO estimator')

    def verdict_of(atoms):
        ks = [kind_of(x) for x in atoms]
        if any(k < 0 for k in ks):
            return 'never', ''
        if all(k > 0 for k in ks):                     # also: no atom at all (unconditional)
            return 'all', why
        return None, ''
    for s, alts, straight in sites:
        _decide_failure(ck, rule, mod, F, s, alts, straight, verdict_of, adm)


def d4_find_centers_failures(ck):
    """find_cluster_centers: labels and distances are per-frame arrays of one
    length n >= 1.  The path condition of a failure is evaluated over the
    finite abstract domain of _abstract_inputs (n frames, k labels, m
    distances); it must admit no input with n == m."""
    rule = 'C10.D4.find-centers.raises'
    F = 'find_cluster_centers'
    mod = ck.repo.mod(CU)
    fn = mod.func(F)
    fi = finfo(mod, fn)
    A, D = params(fn)[:2]
    adm = 'len(%s) == len(%s) >= 1' % (A, D)

    def lengths(a):
        # per-frame arrays are one-dimensional: X.shape == Y.shape iff len(X) == len(Y)
        if isinstance(a, Cmp) and a.op in (ast.Eq, ast.NotEq):
            ms = [match('_U.shape', x) or match('np.shape(_U)', x) for x in (a.lhs, a.rhs)]
            if all(m is not None for m in ms):
                return Cmp(*[ast.Call(func=ast.Name(id='len', ctx=ast.Load()), args=[m['_U']], keywords=[]) for m in ms][:1]
                           + [a.op] + [ast.Call(func=ast.Name(id='len', ctx=ast.Load()), args=[ms[1]['_U']], keywords=[])])
        return a

    def verdict_of(atoms):
        atoms = [lengths(x) for x in atoms]
        counts = [x for x in atoms if _abstract_inputs([x], A, D) is not None]
        dom = _abstract_inputs(counts, A, D)
        if dom is None:
            return None, ''
        good = sorted((t for t in dom[0] if t[0] == t[2] and t[0] >= 1), key=lambda t: (t[0] < 2, t))
        if counts and not good:
            return 'never', ''
        if len(counts) == len(atoms) and good:
            return 'all', ('it holds e.g. for %d frame(s) with %d distinct label(s) and %d distance(s), a well-formed '
                           'labels/distances pair' % good[0])
        return None, ''
    for s, alts, straight in _failure_sites(mod, fn, fi):
        _decide_failure(ck, rule, mod, F, s, alts, straight, verdict_of, adm)


# ---------------------------------------------------------------------------
# D5

def d5_partition_list(ck):
    rule = 'C10.D5.partition-list'
    F = 'partition_list'
    mod = ck.repo.mod(RA)
    fn = mod.func(F)
    ck.analysed(mod, fn)
    fi = finfo(mod, fn)
    cfg = fi.cfg
    lst, lens = params(fn)[:2]
    # --- the guard: raise iff sum(lengths) != len(list)
    sums = {C('np.sum(%s)' % lens), 'sum(%s)' % lens, C('np.sum(np.asarray(%s))' % lens), C('int(np.sum(%s))' % lens)}
    lns = {'len(%s)' % lst}
    raises = [r for r in walk_local(fn) if isinstance(r, ast.Raise)]
    good, wrong, unknown = [], [], []
    for r in raises:
        pc = path_condition(fi, r, fn)
        at = _atoms(pc)
        if at is None:
            unknown.append(r)
            continue
        for c in at:
            sides = [xt(fi, c.lhs), xt(fi, c.rhs)]
            if (sides[0] in sums and sides[1] in lns) or (sides[1] in sums and sides[0] in lns):
                (good if c.op is ast.NotEq and len(at) == 1 else wrong).append((r, c, pc))
    rets = returns_of(fn)
    if good:
        r, c, pc = good[0]
        owner = pc[0][2]
        ck.check(all(cfg.dominates(owner, x) for x in rets), rule + '.guard', mod, owner, F, repr(c),
                 'sum of lengths must equal the data length, else raise',
                 'the sum-of-lengths guard does not precede every return')
    elif wrong:
        r, c, pc = wrong[0]
        ck.bad(rule + '.guard', mod, pc[0][2], F, ' and '.join(repr(x) for x in _atoms(pc)),
               'partition_list must reject lengths whose sum differs from len(list): it must raise exactly when sum(lengths) != len(list)')
    elif unknown or raises:
        ck.missing(rule + '.guard', 'condition of the raise in partition_list not recognised')
    else:
        ck.bad(rule + '.guard', mod, fn, F, 'sum(lengths) != len(list)',
               'partition_list must reject lengths whose sum differs from len(list): no guard raises')
    # --- the slicing loop
    out = _returned_name(fi, fn)
    cands = []
    for l in [x for x in walk_local(fn) if isinstance(x, ast.For)]:
        for c in calls_in(l):
            if isinstance(c.func, ast.Attribute) and c.func.attr == 'append' and len(c.args) == 1 and \
                    _enclosing(mod, c, (ast.For,), stop=fn) is l:
                cands.append((l, c))
    if len(cands) != 1 or out is None or ct(cands[0][1].func.value) != out:
        ck.missing(rule, 'slicing loop')
        return
    loop, app = cands[0]
    app_s = fi.stmt(app)
    body = '; '.join(u(s) for s in loop.body)
    shape = _loop_shape(fi, loop)
    piece = xp(fi, app.args[0], strict=False)
    if shape is None or not (isinstance(piece, ast.Subscript) and isinstance(piece.slice, ast.Slice)):
        ck.missing(rule + '.offsets', 'append of %s[start:stop] in a loop over the lengths: %s' % (lst, body[:160]))
        return
    coll, kidx, lk = shape
    if coll != lens:
        ck.missing(rule + '.offsets', 'the slicing loop does not run over `%s`: for %s in %s' % (lens, u(loop.target), u(loop.iter)))
        return
    # the raw lower bound names the running offset
    raw = app.args[0]
    if isinstance(raw, ast.Name):
        raw = fi.resolve(raw)
    lo = raw.slice.lower.id if isinstance(raw, ast.Subscript) and isinstance(raw.slice, ast.Slice) and \
        isinstance(raw.slice.lower, ast.Name) else None
    if lo is None:
        ck.missing(rule + '.offsets', 'lower bound of the slice is not a running-offset variable: %s' % u(raw)[:120])
        return
    scope = {lo, lens, lst} | {kidx or ''} | {x for x in lk if x.isidentifier()}
    early = [s for s in _updates(loop, lo) if cfg.dominates(s, app_s)]
    if early:
        ck.bad(rule + '.offsets', mod, loop, F, body,
               'the running offset `%s` is advanced (%s) BEFORE the piece is appended: every piece is sliced with the '
               'offset of the next one' % (lo, u(early[0])))
        return
    stops = [C('%s + %s' % (lo, x)) for x in lk] + [C('%s + %s' % (x, lo)) for x in lk]
    hi = xp(fi, raw.slice.upper, stop=(lo,), strict=False) if raw.slice.upper is not None else None
    ok_piece = ct(piece.value) == lst and raw.slice.step is None and hi is not None and ct(hi) in stops
    if ct(piece.value) != lst:
        dec, dscope = piece.value, {lst, lens}          # slices of something else
    elif raw.slice.step is not None or hi is None:
        dec, dscope = ast.Constant(value=0), scope      # a step / an open upper bound
    else:
        dec, dscope = hi, scope - {lst}                 # the upper bound as a function of offset and lengths
    ok = _three(ck, ok_piece, dec, dscope,
                rule + '.offsets', mod, loop, F, body,
                'piece k is list[start:start + lengths[k]]',
                'pieces must be list[start:stop] with stop = start + lengths[k], start = stop afterwards, start = 0 initially')
    if not ok:
        return
    advs = _updates(loop, lo)
    inits = [s for s in assigns_to(fn, lo) if not _inside(s, loop)]
    ok_adv = False
    val = None
    if len(advs) == 1:
        s = advs[0]
        if isinstance(s, ast.AugAssign):
            val = ast.BinOp(left=ast.Name(id=lo, ctx=ast.Load()), op=s.op, right=xp(fi, s.value))
        elif fi.def_value(s, lo) is not None:
            val = xp(fi, fi.def_value(s, lo), stop=(lo,), strict=False)
        ok_adv = val is not None and ct(val) in stops and cfg.dominates(app_s, s) and cfg.postdominates(s, app_s) \
            and _inside(s, loop)
    if len(advs) == 1 and val is not None and ct(val) in stops and not ok_adv:
        ck.bad(rule + '.offsets', mod, loop, F, body,
               'the running offset must advance by lengths[k] exactly once per piece, AFTER the piece was appended')
        return
    _three(ck, ok_adv, val if len(advs) == 1 else ast.Constant(value=0), scope, rule + '.offsets', mod, loop, F, body,
           'stop = start + len_k; append(list[start:stop]); start = stop',
           'pieces must be list[start:stop] with stop = start + lengths[k], start = stop afterwards, start = 0 initially')
    ok_init = len(inits) == 1 and isinstance(inits[0], ast.Assign) and fi.def_value(inits[0], lo) is not None and \
        const_value(fi.def_value(inits[0], lo)) == 0 and cfg.dominates(inits[0], loop)
    _three(ck, ok_init, fi.def_value(inits[0], lo) if len(inits) == 1 and isinstance(inits[0], ast.Assign) else None, scope,
           rule + '.offsets', mod, inits[0] if inits else loop, F, '%s initialised before the loop' % lo,
           'start initialised to 0', 'the running offset must start at 0')


# ---------------------------------------------------------------------------
# D7: batch reassignment never produces an empty batch
#
# compute_batches keeps an OPEN batch (the last element of the list it
# returns) and, per trajectory, either extends it or opens a new one.  If the
# list starts with an open EMPTY batch, the first trajectory must be accepted
# by it whatever its length: otherwise the empty batch stays in the result and
# batch_reassign loads zero files for it (IndexError in load_as_concatenated).
# The caller only rejects batch_size < max(lengths), so `length == batch_size`
# is admissible.  Decided by evaluating the accept-test under the abstraction
# "the open batch is empty" (sum/len of it = 0, its truth value = False):
# three-valued; the test must come out True.

def _d7_eval(e, cur, scope):
    """(value, residual_closed): value True/False/None of the test when every
    expression in `cur` (texts of `<list>[-1]`) denotes an empty list."""
    def zero(x):
        if isinstance(x, ast.Call) and call_name(x) in ('sum', 'len', 'np.sum') and len(x.args) == 1 and ct(x.args[0]) in cur:
            return True
        m = match('_X.sum()', x)
        return m is not None and ct(m['_X']) in cur

    def ev(x):
        if isinstance(x, ast.BoolOp):
            vals = [ev(v) for v in x.values]
            if isinstance(x.op, ast.Or):
                return True if any(v is True for v in vals) else (False if all(v is False for v in vals) else None)
            return False if any(v is False for v in vals) else (True if all(v is True for v in vals) else None)
        if isinstance(x, ast.UnaryOp) and isinstance(x.op, ast.Not):
            v = ev(x.operand)
            return None if v is None else (not v)
        if ct(x) in cur:
            return False
        if isinstance(x, ast.Compare) and len(x.ops) == 1:
            l, r, op = x.left, x.comparators[0], x.ops[0]
            lz, rz = zero(l), zero(r)
            lk, rk = (0 if lz else const_value(l)), (0 if rz else const_value(r))
            if isinstance(lk, int) and isinstance(rk, int) and (lz or rz):
                return {ast.Eq: lk == rk, ast.NotEq: lk != rk, ast.Lt: lk < rk, ast.LtE: lk <= rk,
                        ast.Gt: lk > rk, ast.GtE: lk >= rk}.get(type(op))
        return None
    return ev(e)


def d7_batches(ck):
    rule = 'C10.D7.batches.no-empty-batch'
    F = 'compute_batches'
    mod = ck.repo.mod(CU)
    fn = mod.functions.get(F)
    if fn is None:
        ck.missing(rule, 'function %s in %s' % (F, CU))
        return
    ck.analysed(mod, fn)
    fi = finfo(mod, fn)
    ps = params(fn)
    if len(ps) < 2:
        ck.missing(rule, 'parameters (lengths, batch_size) of %s' % F)
        return
    lens, B = ps[:2]
    out = _returned_name(fi, fn)
    if out is None:
        ck.missing(rule, 'the list of batches %s returns (a filtered / rebuilt result is not analysed)' % F)
        return

    def init_of(name):
        ds = [s for s in assigns_to(fn, name) if isinstance(s, ast.Assign) and fi.def_value(s, name) is not None]
        return ds

    def starts_empty_batch(name):
        """True: initialised to [[]] (one open empty batch); False: initialised to []; None: anything else."""
        ds = init_of(name)
        if len(ds) != 1:
            return None
        v = fi.def_value(ds[0], name)
        if isinstance(v, ast.List) and len(v.elts) == 1 and isinstance(v.elts[0], ast.List) and not v.elts[0].elts:
            return True
        if isinstance(v, ast.List) and not v.elts:
            return False
        return None

    def appends(region, recv_text):
        return [c for c in calls_in(region) if isinstance(c.func, ast.Attribute) and c.func.attr in ('append', 'extend')
                and ct(c.func.value) == recv_text and len(c.args) == 1]

    se = starts_empty_batch(out)
    if se is None:
        ck.missing(rule, 'initialisation of the batch list `%s`' % out)
        return
    loops = [l for l in walk_local(fn) if isinstance(l, ast.For) and _loop_shape(fi, l) is not None and _loop_shape(fi, l)[0] == lens]
    if len(loops) != 1:
        ck.missing(rule, 'the loop over `%s` in %s (found %d)' % (lens, F, len(loops)))
        return
    loop = loops[0]
    cur_out = C('%s[-1]' % out)
    # the branch: one arm extends the open batch, the other opens a new one
    cand = []
    for s in walk_local(loop):
        if isinstance(s, ast.If):
            ext_b = bool(appends(ast.Module(body=s.body, type_ignores=[]), cur_out))
            new_b = bool(appends(ast.Module(body=s.body, type_ignores=[]), out))
            ext_o = bool(appends(ast.Module(body=s.orelse, type_ignores=[]), cur_out))
            new_o = bool(appends(ast.Module(body=s.orelse, type_ignores=[]), out))
            if ext_b and new_o and not new_b and not ext_o:
                cand.append((s, True))
            elif ext_o and new_b and not new_o and not ext_b:
                cand.append((s, False))
    if len(cand) != 1:
        ck.missing(rule, 'the branch `extend the open batch / open a new batch` in the loop of %s (found %d)' % (F, len(cand)))
        return
    branch, pol = cand[0]
    # a new batch is opened non-empty
    arm_new = branch.orelse if pol else branch.body
    for c in appends(ast.Module(body=arm_new, type_ignores=[]), out):
        a = c.args[0]
        if isinstance(a, ast.List) and not a.elts:
            se = True if se is False else se
    if se is False:
        ck.ok(rule, mod, branch, 'batch list `%s` starts empty; every batch is opened with its first trajectory' % out,
              'no empty batch can be emitted')
        return
    # lists kept in lock step with the returned one (e.g. the per-batch sizes)
    cur = {cur_out}
    lock = {out}
    names = {t for st in walk_local(fn) if isinstance(st, ast.Assign) for t in target_names(st.targets[0])}
    for nm in sorted(names - {out}):
        if starts_empty_batch(nm) is True:
            tx = C('%s[-1]' % nm)
            arm_ext = branch.body if pol else branch.orelse
            if appends(ast.Module(body=arm_ext, type_ignores=[]), tx) and appends(ast.Module(body=arm_new, type_ignores=[]), nm):
                cur.add(tx)
                lock.add(nm)
    test = xp(fi, branch.test, stop=tuple(lock), strict=False)
    val = _d7_eval(canon(test), cur, None)
    accept = val if pol else (None if val is None else (not val))
    # mitigation in the consumer: empty batches are skipped
    cons = mod.functions.get('batch_reassign')
    if cons is not None:
        for l in walk_local(cons):
            if isinstance(l, ast.For) and l.body and isinstance(l.body[0], ast.If) and \
                    any(isinstance(x, ast.Continue) for x in l.body[0].body) and \
                    set(target_names(l.target)) & set(names_loaded(l.body[0].test)):
                ck.ok(rule, mod, l.body[0], 'batch_reassign skips a batch on `%s`' % u(l.body[0].test), 'empty batches are not loaded')
                return
    construct = 'first trajectory: accept-test of the open (empty) batch'
    if accept is True:
        ck.ok(rule, mod, branch, construct + ': ' + u(branch.test), 'an empty open batch accepts the next trajectory whatever its length: no empty batch is emitted')
        return
    shape = _loop_shape(fi, loop)
    scope = {B, lens} | {x for x in shape[2] if x.isidentifier()} | {shape[1] or ''} | {x.id for c in cur for x in ast.walk(ast.parse(c, mode='eval')) if isinstance(x, ast.Name)}
    _three(ck, False, test, scope, rule, mod, branch, F, construct,
           '', 'the batch list starts with an open EMPTY batch (`%s = [[]]`) and the test `%s` can reject the first trajectory while that batch is '
           'still empty (e.g. lengths[0] == batch_size, which batch_reassign admits: it only rejects batch_size < max(lengths)): a new batch is '
           'opened and the empty one stays in the result -> batch_reassign loads zero files for it (IndexError). An empty open batch '
           'must accept the next trajectory unconditionally' % (out, u(branch.test)))


# D7 (order): batch_reassign concatenates the per-batch results in batch order
# (`assignments.extend(partition_list(...))` once per batch) and returns them as
# "row k = trajectory k".  That is right iff reading the batches one after the
# other gives 0, 1, 2, ...: compute_batches visits the trajectories in order, so
# each trajectory index must go to the END of that reading - into the LAST
# batch (`<out>[-1].append(i)`) or into a new batch appended after it
# (`<out>.append([i])`).  An index appended to a batch reached by iterating
# over the batch list (first fit, best fit) or to a fixed earlier batch lands
# in front of indices already emitted: the rows of the reassignment are
# permuted although every single frame is still assigned correctly.

def _elem_source(target, it, name):
    """The sub-expression of the iterable `it` whose elements the loop
    variable `name` takes (through zip / enumerate positions)."""
    if isinstance(target, ast.Name):
        return it if target.id == name else None
    if isinstance(target, (ast.Tuple, ast.List)) and isinstance(it, ast.Call) and not it.keywords:
        cn = call_name(it)
        if cn == 'zip' and len(it.args) == len(target.elts):
            for t, a in zip(target.elts, it.args):
                if name in target_names(t):
                    return _elem_source(t, a, name)
        if cn == 'enumerate' and len(it.args) == 1 and len(target.elts) == 2 and name in target_names(target.elts[1]):
            return _elem_source(target.elts[1], it.args[0], name)
    return None


def _whole_of(e):
    """Strip wrappers that iterate over ALL elements of their argument."""
    while True:
        if isinstance(e, ast.Call) and call_name(e) in ('reversed', 'list', 'iter', 'tuple') and len(e.args) == 1 and not e.keywords:
            e = e.args[0]
        elif isinstance(e, ast.Subscript) and isinstance(e.slice, ast.Slice) and e.slice.lower is None and e.slice.upper is None:
            e = e.value
        else:
            return e


def _consumer_concatenates_in_batch_order(mod):
    """batch_reassign loops over what compute_batches returned and extends /
    appends to its results once per batch (no placement by trajectory index)."""
    cons = mod.functions.get('batch_reassign')
    if cons is None:
        return False
    cfi = finfo(mod, cons)
    for l in walk_local(cons):
        if not isinstance(l, ast.For):
            continue
        sh = _loop_shape(cfi, l)
        if sh is None:
            continue
        src = xp(cfi, l.iter.args[0] if isinstance(l.iter, ast.Call) and call_name(l.iter) == 'enumerate' and l.iter.args else l.iter,
                 allow=('compute_batches',))
        if not _is_call_to(src, 'compute_batches'):
            continue
        grows = [c for c in calls_in(l) if isinstance(c.func, ast.Attribute) and c.func.attr in ('extend', 'append')
                 and isinstance(c.func.value, ast.Name)]
        places = [s for s in walk_local(l) if isinstance(s, ast.Assign) and any(isinstance(t, ast.Subscript) for t in s.targets)]
        if grows and not places:
            return True
    return False


def d7_batch_order(ck):
    rule = 'C10.D7.batches.in-order'
    F = 'compute_batches'
    mod = ck.repo.mod(CU)
    fn = mod.functions.get(F)
    if fn is None:
        ck.missing(rule, 'function %s in %s' % (F, CU))
        return
    fi = finfo(mod, fn)
    ps = params(fn)
    if len(ps) < 2:
        ck.missing(rule, 'parameters (lengths, batch_size) of %s' % F)
        return
    lens = ps[0]
    out = _returned_name(fi, fn)
    if out is None:
        ck.missing(rule, 'the list of batches %s returns' % F)
        return
    loops = [l for l in walk_local(fn) if isinstance(l, ast.For) and _loop_shape(fi, l) is not None and _loop_shape(fi, l)[0] == lens]
    if len(loops) != 1:
        ck.missing(rule, 'the loop over `%s` in %s (found %d)' % (lens, F, len(loops)))
        return
    loop = loops[0]
    idx = _loop_shape(fi, loop)[1]
    if idx is None:
        ck.missing(rule, 'the position of the trajectory in `%s` (enumerate / range index of the loop)' % lens)
        return
    if _updates(loop, idx):
        ck.missing(rule, 'the trajectory index `%s` is rebound inside the loop' % idx)
        return
    last = {C('%s[-1]' % out), C('%s[len(%s) - 1]' % (out, out))}
    # other structural changes of the batch list (insert / reverse / sort / item stores) are not analysed
    for c in calls_in(fn):
        if isinstance(c.func, ast.Attribute) and ct(c.func.value) == out and c.func.attr != 'append':
            ck.missing(rule, 'the batch list `%s` is changed by .%s(...) at %s' % (out, c.func.attr, mod.loc(c)))
            return
    if subscript_stores(fn, out):
        ck.missing(rule, 'the batch list `%s` is changed by an item store' % out)
        return
    opens = [c for c in calls_in(loop) if isinstance(c.func, ast.Attribute) and c.func.attr == 'append' and ct(c.func.value) == out]
    n = 0
    verdicts = []
    for c in calls_in(loop):
        if not (isinstance(c.func, ast.Attribute) and c.func.attr in ('append', 'extend', 'insert') and c.args and not c.keywords):
            continue
        X = xp(fi, c.args[-1])
        if idx not in names_loaded(X):
            continue
        R = c.func.value
        s = fi.stmt(c)
        single = isinstance(X, ast.List) and len(X.elts) == 1 and ct(X.elts[0]) == idx
        if c.func.attr == 'append' and ct(R) == out:
            n += 1
            if single:
                ck.ok(rule, mod, s, u(s), 'a new batch is opened after the last one with the current trajectory')
            else:
                verdicts.append(('far', s, 'value appended to the batch list is not `[%s]`' % idx))
            continue
        elem = (c.func.attr == 'append' and ct(X) == idx) or (c.func.attr == 'extend' and single)
        if not elem:
            verdicts.append(('far', s, 'emit of the trajectory index not recognised'))
            continue
        n += 1
        if xt(fi, R) in last:
            ck.ok(rule, mod, s, u(s), 'the trajectory index goes to the end of the last batch')
            continue
        why = None
        if isinstance(R, ast.Subscript) and ct(R.value) == out and isinstance(const_value(R.slice, default=None), int) \
                and const_value(R.slice) != -1:
            why = '`%s` is a fixed batch, not the last one' % ct(R)
            inner = None
        elif isinstance(R, ast.Name):
            ds = fi.defs_of_use(R)
            inner = next(iter(ds)) if len(ds) == 1 else None
            if isinstance(inner, ast.For) and _inside(inner, loop) and inner is not loop:
                src = _elem_source(inner.target, inner.iter, R.id)
                if src is not None and xt(fi, _whole_of(src)) == out:
                    why = '`%s` ranges over ALL batches of `%s` (for %s in %s)' % (R.id, out, u(inner.target), u(inner.iter))
        if why is None:
            verdicts.append(('far', s, 'receiver `%s` of the trajectory index is neither `%s[-1]` nor an element of `%s`' % (ct(R), out, out)))
            continue
        # a condition that speaks about the position of the batch could single out the last one: not decided
        pc = path_condition(fi, s, inner if inner is not None else loop, fresh=False)
        pos_names = {out}
        if inner is not None and isinstance(inner.iter, ast.Call) and call_name(inner.iter) in ('enumerate', 'range'):
            pos_names |= set(target_names(inner.target)) - {R.id}
        mentioned = {nm for t, _, _ in (pc or []) for nm in names_loaded(xp(fi, t, strict=False))}
        if pc is None or (mentioned & pos_names) or not opens:
            verdicts.append(('far', s, why + ', under a condition the rule cannot decide'))
        else:
            verdicts.append(('bad', s, why))
    if n == 0 and not verdicts:
        ck.missing(rule, 'no append of the trajectory index `%s` to a batch found in %s' % (idx, F))
        return
    bad = [v for v in verdicts if v[0] == 'bad']
    if bad and not _consumer_concatenates_in_batch_order(mod):
        ck.missing(rule, 'batch_reassign does not visibly concatenate the per-batch results in batch order; %s' % bad[0][2])
        return
    for kind, s, why in verdicts:
        if kind == 'bad':
            ck.bad(rule, mod, s, F, 'trajectory index appended to a batch other than the last one: %s' % u(s),
                   'batches must be contiguous runs of trajectory indices in input order (the index goes to `%s[-1]` or opens a new batch '
                   'at the end): %s, so a later (short) trajectory can be packed into an earlier batch; batch_reassign concatenates the '
                   'per-batch results in batch order, so the rows of the returned assignments/distances are then permuted relative to '
                   'the input trajectories (row k is no longer trajectory k)' % (out, why))
        else:
            ck.missing(rule, '%s at %s: %s' % (why, mod.loc(s), u(s)[:100]))


def _loop_variable_rebinds(ck):
    """Role-based form of the documented suppression `index -= traj_len` of
    partition_indices (sa/patterns.py SUPPRESS, keyed by source text): if the
    ONLY stores the effects analysis attributes to the flat-index parameter
    are augmented assignments to a bare name that is the loop variable of a
    `for <name> in <that parameter>` loop (or a plain copy of it made inside
    that loop), they rebind the name - the elements of a flat list of integer
    indices are immutable ints - whatever the variable or the subtracted
    operand is called."""
    from ..patterns import shared
    _, ea = shared(ck.repo)
    mod = ck.repo.mod(RA)
    fn = mod.func('partition_indices')
    fi = finfo(mod, fn)
    p = params(fn)[0]
    recs = [r for r in ea.store_records(RA, 'partition_indices') if p in r.get('params', ())]
    if not recs:
        return {}

    def copies(region, name):
        out = {name}
        for s in walk_local(region):
            if isinstance(s, ast.Assign) and len(s.targets) == 1 and isinstance(s.targets[0], ast.Name) \
                    and ct(s.value) in (name, 'int(%s)' % name):
                out.add(s.targets[0].id)
        return out

    names = set()
    for l in walk_local(fn):
        if isinstance(l, ast.For) and isinstance(l.target, ast.Name) and xt(fi, l.iter) == p:
            names |= copies(l, l.target.id)

    def only_rebinds(qual, par, names, depth=3):
        """Every store the effects analysis attributes to parameter `par` of `qual` is `name op= v` on a
        bare name holding one element (one of `names`), or hands such a name to a function of the same
        module for whose parameter the same holds (the walk extracted into a per-index helper)."""
        for r in [r for r in ea.store_records(RA, qual) if par in r.get('params', ())]:
            node = r.get('node')
            if r.get('kind') == 'augassign-inplace' and isinstance(node, ast.AugAssign) and \
                    isinstance(node.target, ast.Name) and node.target.id in names:
                continue
            if r.get('kind') == 'callee-mutates' and depth > 0 and r.get('target') in names:
                try:
                    head, rest = (r.get('via') or '').split(' mutates ', 1)
                    rel2, qual2 = head.split('::', 1)
                    p2 = rest.split(' at ', 1)[0]
                except ValueError:
                    return False
                callee = mod.functions.get(qual2)
                if rel2 == RA and callee is not None and p2 in params(callee) and \
                        only_rebinds(qual2, p2, copies(callee, p2), depth - 1):
                    continue
            return False
        return True
    if only_rebinds('partition_indices', p, names):
        return {(RA, 'partition_indices'): {p: 'elements of a flat list of integer indices are immutable ints: `x op= v` '
                                               'on the loop variable over `%s` (or a copy of it) rebinds the name' % p}}
    return {}


def _dispatch_sites(fn):
    """Call through a function-valued local: a statement list holding
    `if c: ...; f = h1  [elif ...]  else: ...; f = h2` immediately followed by
    the single use of `f`, the statement `f(args)` / `x = f(args)` - yields
    (block, position of the if, f, [(arm statement list, helper name)])."""
    def arms_of(s):
        out = []
        while True:
            out.append(s.body)
            if len(s.orelse) == 1 and isinstance(s.orelse[0], ast.If):
                s = s.orelse[0]
                continue
            if not s.orelse:
                return None
            out.append(s.orelse)
            return out
    for node in ast.walk(fn):
        for field in ('body', 'orelse', 'finalbody'):
            blk = getattr(node, field, None)
            if not isinstance(blk, list):
                continue
            for k in range(len(blk) - 1):
                s, c = blk[k], blk[k + 1]
                if not isinstance(s, ast.If):
                    continue
                call = c.value if isinstance(c, (ast.Expr, ast.Assign)) else None
                if not (isinstance(call, ast.Call) and isinstance(call.func, ast.Name)):
                    continue
                f = call.func.id
                arms = arms_of(s)
                if arms is None:
                    continue
                hs = []
                for a in arms:
                    last = a[-1] if a else None
                    if isinstance(last, ast.Assign) and len(last.targets) == 1 and isinstance(last.targets[0], ast.Name) \
                            and last.targets[0].id == f and isinstance(last.value, ast.Name):
                        hs.append((a, last.value.id))
                uses = [n for n in ast.walk(fn) if isinstance(n, ast.Name) and n.id == f]
                if len(hs) == len(arms) and len(uses) == len(arms) + 1:
                    yield blk, k, f, hs


def _devirtualise_dispatch(repo, rel, qual):
    """Front-end style normalisation (behaviour preserving, no verdict): a
    call through a local that every arm of the preceding if/else binds to a
    private module-level helper absent from the reference snapshot is moved
    into the arms as a direct call (the test is evaluated first, then the
    arguments, exactly as before; the local has no other use), and the helpers
    are then inlined by sa/inline.py under its own faithfulness conditions.
    If the result has the reference's normal form the reference spelling is
    analysed.  What was done is recorded in repo.inlined (evidence)."""
    import copy
    import os
    from .. import inline, normal, rename
    from ..core import Module, _all_functions, _canon_tree
    try:
        mod = repo.mod(rel)
        fn = mod.functions.get(qual)
        if fn is None or not list(_dispatch_sites(fn)):
            return
        ref_path = os.path.join(rename.REFERENCE, rel)
        if not os.path.exists(ref_path):
            return
        with open(ref_path, encoding='utf-8') as fh:
            rsrc = fh.read()
        rtree = _canon_tree(ast.parse(rsrc))
        hf, hm = inline.new_private_helpers(mod.tree, rtree)
        where = [(f, holder, i) for (q, _), (f, holder, i) in _all_functions(mod.tree) if f is fn]
        if len(where) != 1:
            return
        _, holder, idx = where[0]
        clone = copy.deepcopy(fn)
        used = set()
        for blk, k, f, hs in list(_dispatch_sites(clone)):
            if not all(h in hf for _, h in hs):
                continue
            c = blk[k + 1]
            if any(isinstance(n, ast.Name) and n.id == f for a in c.value.args for n in ast.walk(a)):
                continue
            for arm, h in hs:
                d = copy.deepcopy(c)
                d.value.func = ast.copy_location(ast.Name(id=h, ctx=ast.Load()), d.value.func)
                arm[-1] = d
                used.add(h)
            del blk[k + 1]
        if not used:
            return
        inl = inline.Inliner({h: hf[h] for h in used}, {}, cls=None)
        if not inl.run(clone):
            return
        ast.fix_missing_locations(clone)
        new = clone
        rfn = dict(_all_functions(rtree)).get((qual, 0))
        if rfn is not None:
            sigs = repo._ref_signatures()
            try:
                if normal.nf_key(clone, sigs) == normal.nf_key(rfn[0], sigs):
                    rfn[0].decorator_list = clone.decorator_list
                    new = rfn[0]
                    repo.equivalent.setdefault(rel, []).append(qual)
            except Exception:
                pass
        holder[idx] = new
        ast.fix_missing_locations(mod.tree)
        cur = Module(rel, mod.src, mod.tree, mod.kind)
        repo.modules[rel] = cur
        repo.inlined.setdefault(rel, {})[qual] = sorted(set(inl.done) | used)
        if new is clone:
            try:
                rename.normalise_module(cur, Module(rel, rsrc, rtree, mod.kind), repo._ref_signatures())
            except Exception:
                pass
    except Exception as e:       # never let a normalisation break the check
        repo.errors.append((rel + ' (dispatch devirtualisation %s)' % qual, repr(e)))


def _enclosing_simple_stmt(fn, node):
    for st in walk_local(fn):
        if isinstance(st, (ast.Assign, ast.AnnAssign, ast.AugAssign, ast.Expr, ast.Return)) and any(x is node for x in ast.walk(st)):
            return st
    return None


def _centres_each(st, name):
    """st centres every element of the sequence `name`: `for c in name: c.center_coordinates()` (unconditionally,
    first level of the body) or `[c.center_coordinates() for c in name]`."""
    def centring(call, var):
        return (isinstance(call, ast.Call) and isinstance(call.func, ast.Attribute) and call.func.attr == 'center_coordinates'
                and isinstance(call.func.value, ast.Name) and call.func.value.id == var)
    if isinstance(st, ast.For) and isinstance(st.iter, ast.Name) and st.iter.id == name and isinstance(st.target, ast.Name) and not st.orelse:
        for b in st.body:
            if isinstance(b, ast.Expr) and centring(b.value, st.target.id):
                return True
            if any(isinstance(x, (ast.Break, ast.Continue, ast.Return, ast.Raise)) for x in ast.walk(b)):
                return False
        return False
    if isinstance(st, (ast.Expr, ast.Assign)) and isinstance(st.value, (ast.ListComp, ast.GeneratorExp)) and isinstance(st.value, ast.ListComp):
        lc = st.value
        if len(lc.generators) == 1 and not lc.generators[0].ifs and isinstance(lc.generators[0].iter, ast.Name) \
                and lc.generators[0].iter.id == name and isinstance(lc.generators[0].target, ast.Name):
            return centring(lc.elt, lc.generators[0].target.id)
    return False


def d8_precentered(ck):
    """`batch_reassign` measures every frame against the centres with `md.rmsd(..., precentered=True)`: the call
    skips the centring of BOTH structures, so the distance is the minimal RMSD only if each centre was centred on
    every path that reaches the consumer.  Must-pass-through: in each caller of the consumer, a statement that
    centres every element of the centre sequence dominates the call, with no rebinding of the sequence between."""
    rule = 'C10.D8.reassign.precentered'
    mod = ck.repo.mod(CU)
    consumers = []
    for name, fn in mod.functions.items():
        for c in calls_in(fn):
            if not any(kw.arg == 'precentered' and const_value(kw.value) is True for kw in c.keywords):
                continue
            # the call that receives the partial: its sequence-of-references argument must be a parameter
            for outer in calls_in(fn):
                if any(x is c for a in list(outer.args) + [k.value for k in outer.keywords] for x in ast.walk(a)) and outer is not c:
                    ps = params(fn)
                    refs = [a.id for a in outer.args if isinstance(a, ast.Name) and a.id in ps]
                    cand = [r for r in refs if 'cent' in r or 'ref' in r]
                    if len(cand) == 1:
                        consumers.append((name, fn, cand[0], ps.index(cand[0])))
    if not consumers:
        ck.ok(rule, mod, None, 'no precentered=True consumer', 'no caller obligation: RMSD centres its operands itself')
        return
    sites = 0
    for cname, cfn, cpar, cpos in consumers:
        ck.analysed(mod, cfn)
        short = cname.split('.')[-1]
        for name, fn in mod.functions.items():
            if fn is cfn:
                continue
            for c in calls_in(fn):
                if call_name(c) != short:
                    continue
                arg = c.args[cpos] if cpos < len(c.args) else next((k.value for k in c.keywords if k.arg == cpar), None)
                if not isinstance(arg, ast.Name):
                    ck.missing(rule, 'the centres handed to %s in %s as a plain name' % (short, name))
                    continue
                fi = finfo(mod, fn)
                site = _enclosing_simple_stmt(fn, c)
                if site is None:
                    ck.missing(rule, 'the statement of the call of %s in %s' % (short, name))
                    continue
                sites += 1
                if arg.id in params(cfn) and fn is cfn:
                    continue
                good = [st for st in walk_local(fn) if _centres_each(st, arg.id) and fi.cfg.dominates(st, site)
                        and fi.rd.defs_at(st, arg.id) == fi.rd.defs_at(site, arg.id)]
                if good:
                    ck.ok(rule, mod, good[0], u(good[0])[:80], 'every centre is centred on every path to %s (precentered=True)' % short)
                    continue
                anyc = [x for x in ast.walk(fn) if isinstance(x, ast.Attribute) and x.attr == 'center_coordinates']
                other_calls = [x for x in calls_in(fn) if call_name(x) not in (short, None) and any(isinstance(a, ast.Name) and a.id == arg.id for a in x.args)]
                if anyc or not other_calls:
                    ck.bad(rule, mod, site, name, '%s(.. %s ..) with precentered=True' % (short, arg.id),
                           'no statement centring EVERY element of `%s` dominates the call of %s: on some path (e.g. centres given as a '
                           'list) the RMSD is taken with precentered=True against uncentred centres and is not the minimal distance' % (arg.id, short))
                else:
                    ck.missing(rule, 'centring of `%s` before %s in %s (delegated to a call that is not analysed)' % (arg.id, short, name))
    ck.floor(rule, sites, 1, 'call of the precentered consumer')


def check(ck):
    _devirtualise_dispatch(ck.repo, CU, 'assign_to_nearest_center')
    cu = ck.repo.mod(CU)
    n = check_running_min_commit(ck, 'C10.D1.commit', cu, 'assign_to_nearest_center',
                                 False, 'enumerate-index')
    if n == 0:
        _d1_commit_mask(ck)
    ck.floor('C10.D1.commit', n, 1, 'running-minimum commit')
    d2_argmin_branch(ck)
    d1_metric_arg_order(ck)
    d1_predict(ck)
    d1_predict_failures(ck)
    d2_partition(ck)
    d3_partition_indices(ck)
    d4_find_centers(ck)
    d4_find_centers_failures(ck)
    d5_partition_list(ck)
    d7_batches(ck)
    d7_batch_order(ck)
    d8_precentered(ck)
    check_no_arg_mutation(ck, 'C10.D6.inputs-unmodified', [
        (CU, 'assign_to_nearest_center'), (CU, 'find_cluster_centers'),
        (CU, 'ClusterResult.partition'), (RA, 'partition_indices'),
        (RA, 'partition_list'), (CU, 'MolecularClusterMixin.predict')],
        extra_exempt=_loop_variable_rebinds(ck))
    return EXPLANATION

"""C15 Storage round-trip: key padding, stride-consistent lengths, offsets of
parallel loading, dtype agreement.

The constructs are located by ROLE (the call that creates the HDF5 node, the
buffer that is wrapped by the returned RaggedArray, the store into that
buffer, the pool map of the worker, the tuple that is returned ...), compared
after expansion of temporaries (`xexpand`, an extension of FuncInfo.expand that
also sees through `str.zfill/rjust` and `functools.partial`) and after
keyword/positional normalisation of the library calls involved (`KW`).  Content
comparisons are three-valued (match.classify / ck.decide): an accepted form
discharges the obligation, a different pure function of the same operands is a
VIOLATION, anything the rule cannot see through is ANALYSIS-INCOMPLETE."""
import ast
import copy

from ..core import (AnalysisIncomplete, call_name, const_value, kwarg,
                    names_loaded, params, target_names, u, walk_expr,
                    walk_local)
from ..patterns import (Cmp, assigns_to, calls_in, check_empty_allocs,
                        check_warn_calls, conjuncts, finfo, returns_of,
                        subscript_stores)
from ..match import C, canon, classify, match
from ..cfg import Assume

RA = 'enspara/ra/ra.py'
LO = 'enspara/util/load.py'
IO = 'enspara/mpi/io.py'

EXPLANATION = (
    'Static decision of the structural necessary conditions of the storage '
    'round trip: (D1) HDF5 row keys are zero-padded to a width of at least '
    'the number of digits of the row count, one width for all keys, so '
    'lexicographic = numeric order for every row count; (D2) wherever a '
    'stride reaches the data, the lengths returned with it are ceil(n/stride) '
    '(ra.load, sound_trajectory, the striped h5/npy loaders); (D3) ra.load '
    'fills a zero-initialised buffer with checked running offsets over the '
    'SAME key sequence that produced the lengths, and a caller-supplied key '
    'list is never reordered; load_as_concatenated sizes the shared buffer, '
    'computes exclusive-prefix-sum offsets and returns lengths from one '
    'definition, each worker writes only arr[pos:pos+len(xyz)], results are '
    'collected in submission order and the total is checked; (D4) the stored '
    'atom type is the flat data\'s dtype and loaded dtypes are checked equal; '
    '(D6) ra.save takes the element type from the flat data and the values '
    'from the row view (array[i]): every RaggedArray method that writes one '
    'of the two re-derives the other on every normal path to its exit. '
    'Added after the bug hunt: (D1) the row handed to the HDF5 node is a freshly allocated copy '
    '(np.ascontiguousarray): PyTables writes a caller\'s non-contiguous view whose byte strides sum to zero as raw '
    'memory; (D2) the row view the constructor builds for loaded rows of equal length keeps the element dimensions '
    '(rule family C05.D7 run for ra.load). '
    'Added in the fifth wave (survivors of generic mutants): (D3.accepts) for every class of well-formed input '
    '(a finite abstract domain: how the options are passed, 1-3 rows, 1-D / n-D rows, rank r of n) the paths of '
    'ra.load, load_as_concatenated, shared_array_like_trj and the striped loaders that remain after removing the '
    'branches the class makes false reach a normal exit and read no tracked local before it is bound - a '
    'validation guard must not reject rows / files that agree; (D3.parallel.options) the option list zipped for '
    'the workers is the caller\'s list / **kwargs per file / empty dicts according to how the options were passed, '
    'and lengths=None is sounded; (D3.striped.source / .payload) a rank that owns rows returns ra.load of its stripe '
    'of the keys, the root broadcasts what it read; (D3.guarded-access) an attribute / key is used in the branch '
    'where its hasattr / membership guard holds. '
    'Bit-identity of values, PyTables node order and scheduling are trusted/'
    'not decided.')


# ---------------------------------------------------------------------------
# helpers (candidates for promotion to sa/cfg.py / sa/match.py)

_EXTRA_PURE_METHODS = {'zfill', 'rjust', 'rank', 'size'}     # str padding; mpi.rank()/mpi.size()
_EXTRA_PURE_FUNCS = {'partial', 'reduce'}
_COMPS = (ast.ListComp, ast.SetComp, ast.GeneratorExp, ast.DictComp)


def _pure(v):
    """normal.is_pure, plus string padding methods and functools.partial."""
    from ..normal import PURE_FUNCS, PURE_METHODS, IMPURE_NP
    for n in ast.walk(v):
        if isinstance(n, (ast.Yield, ast.YieldFrom, ast.Await, ast.NamedExpr, ast.Lambda)):
            return False
        if isinstance(n, ast.Call):
            cn = call_name(n) or ''
            if isinstance(n.func, ast.Name):
                if n.func.id not in PURE_FUNCS and n.func.id not in _EXTRA_PURE_FUNCS:
                    return False
            elif isinstance(n.func, ast.Attribute):
                if cn.startswith(('np.', 'numpy.', 'scipy.', 'math.')):
                    if cn in IMPURE_NP or '.random.' in cn:
                        return False
                elif n.func.attr in PURE_METHODS or n.func.attr in _EXTRA_PURE_METHODS:
                    pass
                else:
                    return False
            else:
                return False
    return True


def _temp(fi, name_node, need_pure=True):
    """FuncInfo.temp_value with the extended purity: the defining expression
    of a Name use that is a temporary (one reaching definition, pure value,
    object never mutated in place, operands unchanged between definition and
    use), else None.  With need_pure=False the value may contain calls the
    analysis does not know (a read of the HDF5 file, say): the caller only
    wants to know WHICH expression the name stands for, evaluated once at the
    definition site."""
    if not isinstance(name_node, ast.Name) or not isinstance(name_node.ctx, ast.Load):
        return None
    if name_node not in fi.stmt_of:
        name_node = orig(fi, name_node)       # a copy (split_alternatives): back to the node of the function
        if name_node is None:
            return None
    try:
        defs = fi.defs_of_use(name_node)
    except Exception:
        return None
    if len(defs) != 1:
        return None
    site = next(iter(defs))
    if site in ('PARAM', 'UNBOUND') or not isinstance(site, (ast.Assign, ast.AnnAssign)):
        return None
    v = fi.def_value(site, name_node.id)
    if v is None or isinstance(v, ast.GeneratorExp) or (need_pure and not _pure(v)):
        return None
    if fi._mutated_in_place(name_node.id):
        return _append_loop_comp(fi, name_node, site, v)
    use = fi.stmt(name_node)
    for m in walk_expr(v):
        if not (isinstance(m, ast.Name) and isinstance(m.ctx, ast.Load)):
            continue
        if fi.rd.defs_at(site, m.id) != fi.rd.defs_at(use, m.id):
            return None
        for ms in fi._mutated_in_place(m.id):
            if ms is use or ms is site:
                continue
            if fi.cfg.reachable(site, ms, avoiding=[use]) and fi.cfg.reachable(ms, use, avoiding=[site]):
                return None
    return v


def _append_loop_comp(fi, name_node, site, init):
    """The list comprehension a list built by ONE append loop is equal to:

        x = []                              x = [E for t in it if c1 if c2]
        for t in it:
            if c0: continue        <->      (c1 = not c0)
            if c2:
                x.append(E)

    Conditions (all decided on the CFG / def-use chains, nothing textual): the
    single reaching definition of the use is the empty list; the only in-place
    mutation of the object in the whole function is that one `append`; the
    loop body consists of nothing but `if c: continue` guard clauses and the
    (possibly if-nested, else-less) append; the loop has no `else`, sits in the
    same enclosing loops as the initialisation, is dominated by it and
    dominates the use, which lies outside the loop; E, the conditions and the
    iterable do not read x; their free names have the same reaching
    definitions (and no in-place mutation in between) at the loop and at the
    use.  Returns a new ListComp built from the ORIGINAL nodes, else None."""
    x = name_node.id
    empty = (isinstance(init, ast.List) and not init.elts) or \
        (isinstance(init, ast.Call) and call_name(init) == 'list' and not init.args and not init.keywords)
    if not empty:
        return None
    muts = fi._mutated_in_place(x)
    if len(muts) != 1:
        return None
    app = muts[0]
    if not (isinstance(app, ast.Expr) and isinstance(app.value, ast.Call) and isinstance(app.value.func, ast.Attribute) and
            app.value.func.attr == 'append' and isinstance(app.value.func.value, ast.Name) and app.value.func.value.id == x and
            len(app.value.args) == 1 and not app.value.keywords and not isinstance(app.value.args[0], ast.Starred)):
        return None
    par = fi.mod.parent
    conds = []
    node = app
    p = par.get(node)
    while isinstance(p, ast.If):
        if p.orelse or p.body != [node]:
            return None
        conds.insert(0, p.test)
        node, p = p, par.get(p)
    loop = p
    if not isinstance(loop, ast.For) or loop.orelse or not loop.body or loop.body[-1] is not node:
        return None
    pre = []
    for s in loop.body[:-1]:
        if isinstance(s, ast.If) and not s.orelse and len(s.body) == 1 and isinstance(s.body[0], ast.Continue):
            pre.append(norm_test(ast.copy_location(ast.UnaryOp(op=ast.Not(), operand=s.test), s.test)))
        elif isinstance(s, ast.Pass) or (isinstance(s, ast.Expr) and isinstance(s.value, ast.Constant)):
            continue
        else:
            return None
    conds = pre + conds

    def loops_around(n):
        out = []
        n = par.get(n)
        while n is not None and not isinstance(n, (ast.FunctionDef, ast.AsyncFunctionDef)):
            if isinstance(n, (ast.For, ast.While)):
                out.append(n)
            n = par.get(n)
        return out
    use = fi.stmt(name_node)
    if loops_around(loop) != loops_around(site) or loop in loops_around(use) or use is loop:
        return None
    if not (fi.cfg.dominates(site, loop) and fi.cfg.dominates(loop, use)):
        return None
    E = app.value.args[0]
    bound = set(target_names(loop.target))
    for part in [E, loop.iter] + conds:
        if x in names_loaded(part):
            return None
    for part in [loop.iter] + conds + [E]:
        for m in walk_expr(part):
            if not (isinstance(m, ast.Name) and isinstance(m.ctx, ast.Load)) or m.id in bound:
                continue
            if fi.rd.defs_at(loop, m.id) != fi.rd.defs_at(use, m.id):
                return None
            for ms in fi._mutated_in_place(m.id):
                if fi.cfg.reachable(loop, ms, avoiding=[use]) and fi.cfg.reachable(ms, use, avoiding=[loop]):
                    return None
    comp = ast.ListComp(elt=E, generators=[ast.comprehension(target=loop.target, iter=loop.iter, ifs=conds, is_async=0)])
    return ast.copy_location(comp, loop)


# functions the rules of this file name in their patterns: calls to them are roles, never inlined
_ANCHOR_FUNCS = {'_tonumpyarray', 'sound_trajectory', 'shared_array_like_trj', '_load_to_position', '_init'}


def _single_return_expr(h):
    """The expression of a helper whose body is (a docstring and) one
    `return <expr>`; None for anything else (decorated, star-args, nested
    scopes inside the expression)."""
    if not isinstance(h, ast.FunctionDef) or h.decorator_list or h.args.vararg or h.args.kwarg or h.args.posonlyargs:
        return None
    body = [s for s in h.body if not (isinstance(s, ast.Expr) and isinstance(s.value, ast.Constant))]
    if len(body) != 1 or not isinstance(body[0], ast.Return) or body[0].value is None:
        return None
    e = body[0].value
    if any(isinstance(n, _COMPS + (ast.Lambda,)) for n in ast.walk(e)) or not _pure(e):
        return None
    return e


def inline_pure_calls(fi, tree, depth=3):
    """Expression-level inlining: a call `h(a, b)` of a module-level function
    of the same module whose body is one `return <pure expression of its
    parameters and module globals>` is replaced by that expression with the
    arguments substituted (a value, not an effect: duplicating an argument
    changes nothing for the comparison).  Refused when the callee name or a
    global the expression reads is rebound inside the caller, for star
    arguments, unknown keywords and missing arguments.  The front end inlines
    such helpers at statement level only - not inside comprehensions."""
    mod = fi.mod
    local = getattr(fi, '_c15_stores', None)
    if local is None:
        local = {n.id for n in ast.walk(fi.fn) if isinstance(n, ast.Name) and isinstance(n.ctx, (ast.Store, ast.Del))} | set(params(fi.fn))
        fi._c15_stores = local

    class R(ast.NodeTransformer):
        def visit_Call(self, node):
            self.generic_visit(node)
            f = node.func
            if not (isinstance(f, ast.Name) and f.id not in local and f.id in mod.functions) or f.id in _ANCHOR_FUNCS:
                return node
            h = mod.functions[f.id]
            if mod.parent.get(h) is not mod.tree:
                return node
            e = _single_return_expr(h)
            if e is None:
                return node
            a = h.args
            names = [x.arg for x in a.args]
            env = {}
            if any(isinstance(x, ast.Starred) for x in node.args) or len(node.args) > len(names):
                return node
            for nm, x in zip(names, node.args):
                env[nm] = x
            for k in node.keywords:
                if k.arg is None or k.arg in env or k.arg not in names + [x.arg for x in a.kwonlyargs]:
                    return node
                env[k.arg] = k.value
            for nm, d in zip(names[len(names) - len(a.defaults):], a.defaults):
                env.setdefault(nm, d)
            for x, d in zip(a.kwonlyargs, a.kw_defaults):
                if d is not None:
                    env.setdefault(x.arg, d)
            allp = set(names) | {x.arg for x in a.kwonlyargs}
            if set(env) != allp:
                return node
            if (names_loaded(e) - allp) & local:
                return node                 # a global of the helper is shadowed in the caller

            class S(ast.NodeTransformer):
                def visit_Name(self, n):
                    if isinstance(n.ctx, ast.Load) and n.id in env:
                        return copy.deepcopy(env[n.id])
                    return n
            return ast.copy_location(S().visit(copy.deepcopy(e)), node)
    for _ in range(depth):
        before = ast.dump(tree)
        tree = R().visit(tree)
        if ast.dump(tree) == before:
            break
    return tree


def xexpand(fi, expr, stop=(), depth=8, pure=True):
    """A copy of `expr` with every temporary replaced by its definition
    (recursively).  Names bound by an enclosing comprehension are left alone.
    Copied Name nodes keep the source position of the original (see `orig`).
    With pure=False a name bound ONCE to a value with calls the analysis does
    not know (a read of the HDF5 file) is replaced as well: the result then
    says which expression the name stands for (evaluated once, at the
    definition), it is not a re-evaluable expression."""
    def ex(e, d, bound):
        if isinstance(e, ast.Name):
            if d > 0 and e.id not in stop and e.id not in bound and isinstance(e.ctx, ast.Load):
                v = _temp(fi, e, need_pure=pure)
                if v is not None:
                    return ex(v, d - 1, bound)
            return ast.copy_location(ast.Name(id=e.id, ctx=e.ctx), e)
        if not isinstance(e, ast.AST):
            return e
        if isinstance(e, (ast.expr_context, ast.operator, ast.unaryop, ast.boolop, ast.cmpop)):
            return e
        if isinstance(e, _COMPS):
            bound = set(bound)
            for g in e.generators:
                bound.update(target_names(g.target))
        new = type(e)()
        for f in e._fields:
            val = getattr(e, f, None)
            if isinstance(val, list):
                setattr(new, f, [ex(x, d, bound) for x in val])
            elif isinstance(val, ast.AST):
                setattr(new, f, ex(val, d, bound))
            else:
                setattr(new, f, val)
        for a in ('lineno', 'col_offset', 'end_lineno', 'end_col_offset'):
            if hasattr(e, a):
                setattr(new, a, getattr(e, a))
        return new
    return ex(expr, depth, frozenset())


def orig(fi, name_node):
    """The Name node of the analysed function a (copied / canonicalised) Name
    node stems from: looked up by identifier and source position."""
    idx = getattr(fi, '_c15_names', None)
    if idx is None:
        idx = {}
        for n in ast.walk(fi.fn):
            if isinstance(n, ast.Name):
                idx.setdefault((n.id, getattr(n, 'lineno', None), getattr(n, 'col_offset', None)), n)
        fi._c15_names = idx
    if not isinstance(name_node, ast.Name):
        return None
    return idx.get((name_node.id, getattr(name_node, 'lineno', None), getattr(name_node, 'col_offset', None)))


# positional parameter names of the library calls this property talks about
_SIGS = {
    'get_node': ('where', 'name'), 'create_carray': ('where', 'name', 'atom', 'shape'),
    'zeros': ('shape', 'dtype'), 'empty': ('shape', 'dtype'), 'RaggedArray': ('array', 'lengths'),
    'Pool': ('processes', 'initializer', 'initargs'), 'frombuffer': ('buffer', 'dtype'),
    'open_file': ('filename', 'mode'), 'shared_array_like_trj': ('lengths', 'example_trj'),
}


def tail(call):
    if not isinstance(call, ast.Call):
        return None
    if isinstance(call.func, ast.Attribute):
        return call.func.attr
    if isinstance(call.func, ast.Name):
        return call.func.id
    return None


def callargs(call):
    """{parameter name (or position): argument node} of a call, positional
    arguments named through _SIGS; the nodes are the original ones."""
    sig = _SIGS.get(tail(call), ())
    out = {}
    for i, a in enumerate(call.args):
        if isinstance(a, ast.Starred):
            break
        out[sig[i] if i < len(sig) else i] = a
    for k in call.keywords:
        if k.arg is not None:
            out[k.arg] = k.value
    return out


class _KW(ast.NodeTransformer):
    """positional -> keyword form for the calls in _SIGS; `h.get_node('/' + k)`
    and `h.get_node('/name')` -> `h.get_node(where='/', name=...)`; optionally
    `x.shape[0]` -> `len(x)` (equal for the ndarrays that flow where it is used)."""

    def __init__(self, lenify=False):
        self.lenify = lenify

    def visit_Call(self, node):
        self.generic_visit(node)
        sig = _SIGS.get(tail(node))
        if sig and not any(isinstance(a, ast.Starred) for a in node.args) and len(node.args) <= len(sig):
            have = {k.arg for k in node.keywords}
            if not any(sig[i] in have for i in range(len(node.args))):
                node.keywords = [ast.keyword(arg=sig[i], value=a) for i, a in enumerate(node.args)] + node.keywords
                node.args = []
        if tail(node) == 'get_node':
            kw = {k.arg: k for k in node.keywords}
            if 'where' in kw and 'name' not in kw and not node.args:
                w = kw['where'].value
                nm = None
                if isinstance(w, ast.BinOp) and isinstance(w.op, ast.Add) and const_value(w.left) == '/':
                    nm = w.right
                elif isinstance(const_value(w), str) and const_value(w).startswith('/') and len(const_value(w)) > 1:
                    nm = ast.Constant(value=const_value(w)[1:])
                if nm is not None:
                    kw['where'].value = ast.Constant(value='/')
                    node.keywords.append(ast.keyword(arg='name', value=nm))
        return node

    def visit_Subscript(self, node):
        self.generic_visit(node)
        if self.lenify and isinstance(node.value, ast.Attribute) and node.value.attr == 'shape' \
                and const_value(node.slice) == 0 and isinstance(node.ctx, ast.Load):
            return ast.copy_location(ast.Call(func=ast.Name(id='len', ctx=ast.Load()), args=[node.value.value], keywords=[]), node)
        return node


def X(fi, e, stop=(), lenify=False, expand=True, pure=True):
    """Canonical tree of an expression: temporaries expanded, library calls
    in keyword form, front-end canonical spellings."""
    t = xexpand(fi, e, stop=stop, pure=pure) if expand else copy.deepcopy(e)
    if expand:
        t = inline_pure_calls(fi, t)
    t = _KW(lenify).visit(t)
    ast.fix_missing_locations(t)
    return canon(t)


def T(fi, e, **kw):
    return u(X(fi, e, **kw))


def resolve(fi, e):
    """Defining expression of a single-definition Name (original nodes)."""
    return fi.resolve(e) if isinstance(e, ast.Name) else e


def enclosing(mod, node, kinds, stop=None):
    n = mod.parent.get(node)
    while n is not None and n is not stop and not isinstance(n, kinds):
        if isinstance(n, (ast.FunctionDef, ast.AsyncFunctionDef)):
            return None
        n = mod.parent.get(n)
    return n if isinstance(n, kinds) else None


def guards_of(fi, stmt, within=None):
    """[(test, polarity)] of the branch conditions known to hold whenever
    `stmt` executes: the if-branches (sa.cfg.Assume nodes) that DOMINATE it -
    syntactic nesting, inverted branches and early `continue`/`return`/`raise`
    guard clauses alike.  With `within` (a loop) only tests inside that loop."""
    out = []
    for a in fi.cfg.dom.get(stmt, ()):
        if not isinstance(a, Assume):
            continue
        if within is not None:
            n = a.owner
            while n is not None and n is not within:
                n = fi.mod.parent.get(n)
            if n is None:
                continue
        out.append((a.test, a.polarity))
    return out


def norm_test(t):
    """A boolean test that is a single comparison after pushing negations
    inwards, as that comparison (`not (a == b)` -> `a != b`)."""
    cs = conjuncts(t, True)
    if cs and len(cs) == 1 and isinstance(cs[0], Cmp):
        c = cs[0]
        return canon(ast.fix_missing_locations(ast.Compare(left=c.lhs, ops=[c.op()], comparators=[c.rhs])))
    return t


def guarded_by(guards, pred):
    """Some enclosing guard implies an atomic comparison satisfying pred."""
    for test, pol in guards:
        cs = conjuncts(test, pol)
        for c in cs or []:
            if isinstance(c, Cmp) and pred(c):
                return True
    return False


def is_ellipsis(e):
    return (isinstance(e, ast.Name) and e.id == 'Ellipsis') or (isinstance(e, ast.Constant) and e.value is Ellipsis)


def split_alternatives(fi, e):
    """The expressions a value may be: a Name (anywhere in the expression)
    with several simple reaching definitions is replaced by each of them, a
    conditional expression by both arms - recursively.  The results are
    copies whose Name nodes keep their source positions (see `orig`)."""
    out = []

    def subst(x, pred, new):
        """copy of x with the first node satisfying pred replaced by new"""
        done = []

        class R(ast.NodeTransformer):
            def generic_visit(self, node):
                if not done and pred(node):
                    done.append(1)
                    return copy.deepcopy(new)
                return super().generic_visit(node)

            visit = generic_visit
        return R().visit(copy.deepcopy(x))

    def multi(x):
        for n in walk_expr(x):
            if isinstance(n, ast.Name) and isinstance(n.ctx, ast.Load):
                on = n if n in fi.stmt_of else orig(fi, n)
                if on is None:
                    continue
                try:
                    defs = fi.defs_of_use(on)
                except Exception:
                    continue
                if len(defs) < 2 or any(d in ('PARAM', 'UNBOUND') for d in defs):
                    continue
                vals = [fi.def_value(d, on.id) for d in defs]
                if all(v is not None for v in vals):
                    return n, vals
        return None

    def go(x, depth):
        if depth > 0:
            if isinstance(x, ast.Name):
                on = x if x in fi.stmt_of else orig(fi, x)
                try:
                    defs = fi.defs_of_use(on) if on is not None else set()
                except Exception:
                    defs = set()
                vals = [fi.def_value(d, on.id) if d not in ('PARAM', 'UNBOUND') else None for d in defs]
                if defs and all(v is not None for v in vals):
                    for v in vals:
                        go(v, depth - 1)
                    return
            for n in walk_expr(x):
                if isinstance(n, ast.IfExp):
                    key = (u(n), getattr(n, 'lineno', None), getattr(n, 'col_offset', None))
                    for arm in (n.body, n.orelse):
                        go(subst(x, lambda m: isinstance(m, ast.IfExp) and (u(m), getattr(m, 'lineno', None), getattr(m, 'col_offset', None)) == key, arm), depth - 1)
                    return
            m = multi(x)
            if m is not None:
                n, vals = m
                key = (n.id, getattr(n, 'lineno', None), getattr(n, 'col_offset', None))
                for v in vals:
                    go(subst(x, lambda k: isinstance(k, ast.Name) and (k.id, getattr(k, 'lineno', None), getattr(k, 'col_offset', None)) == key, v), depth - 1)
                return
            # a single-definition temporary may hide alternatives: look through it
            t = xexpand(fi, x)
            if u(t) != u(x):
                go(t, depth - 1)
                return
        out.append(x)
    go(e, 5)
    return out


CEIL_FORMS = ['(_N + _S - 1) // _S', '(_N - 1 + _S) // _S', '(_N + (_S - 1)) // _S', '(_S + _N - 1) // _S',
              '(_S - 1 + _N) // _S', 'math.ceil(_N / _S)', 'int(math.ceil(_N / _S))', 'int(np.ceil(_N / _S))',
              '-(-_N // _S)', '-(_N // -_S)', 'len(range(0, _N, _S))', 'len(range(_N)[::_S])',
              '(_N - 1) // _S + 1', '1 + (_N - 1) // _S', '_N // _S + (_N % _S > 0)', '_N // _S + (_N % _S != 0)',
              '_N // _S + bool(_N % _S)', '_N // _S + int(_N % _S != 0)', '_N // _S + int(_N % _S > 0)',
              '_N // _S + (1 if _N % _S else 0)', '_N // _S + (1 if _N % _S > 0 else 0)', '_N // _S + (1 if _N % _S != 0 else 0)']


def ceil_div(e, stride, scope):
    """classify `e` (canonical tree) as ceil(<n> / stride): verdict as in
    match.classify; on a match the bindings hold '_N'."""
    binds = {'_S': ast.Name(id=stride, ctx=ast.Load())}
    v = classify(e, CEIL_FORMS, binds=binds, scope=set(scope) | {stride})
    if v[0] != 'match' and isinstance(e, ast.Call) and len(e.args) == 1 and not e.keywords and \
            (call_name(e) or '') in ('int', 'np.int64', 'np.intp', 'np.int_', 'operator.index'):
        # an integer conversion of an integer is the same NUMBER (which kind of integer object it is
        # matters to one consumer only: see _lengths_element_type)
        v2 = classify(e.args[0], CEIL_FORMS, binds=dict(binds), scope=set(scope) | {stride})
        if v2[0] == 'match':
            return v2
    return v


def single_comp(e):
    """(elt, target, iter, ifs) of a list comprehension / generator with one
    generator, else None."""
    if isinstance(e, (ast.ListComp, ast.GeneratorExp)) and len(e.generators) == 1 and not e.generators[0].is_async:
        g = e.generators[0]
        return e.elt, g.target, g.iter, g.ifs
    return None


def _subst_name(x, name, new):
    """copy of x with every load of `name` replaced by a copy of `new`."""
    class R(ast.NodeTransformer):
        def visit_Name(self, node):
            if node.id == name and isinstance(node.ctx, ast.Load):
                return copy.deepcopy(new)
            return node
    return R().visit(copy.deepcopy(x))


def fuse_comp(fi, sc, depth=3):
    """Map fusion.  `[f(x) for x in xs if q(x)]` where `xs` is (a temporary
    bound to) the list comprehension `[g(k) for k in ks if p(k)]` is
    `[f(g(k)) for k in ks if p(k) if q(g(k))]`: returns the fused
    (elt, target, iter, ifs); `sc` itself where nothing can be fused.  The
    nodes of the result are copies that keep their source positions."""
    while depth > 0 and sc is not None:
        depth -= 1
        elt, tgt, it, ifs = sc
        if not isinstance(tgt, ast.Name):
            return sc
        inner = _temp(fi, it, need_pure=False) if isinstance(it, ast.Name) else it
        isc = single_comp(inner) if isinstance(inner, ast.ListComp) else None
        if isc is None:
            return sc
        e2, t2, it2, ifs2 = isc
        outer = [elt] + list(ifs)
        free = set()
        for x in outer:
            free |= names_loaded(x)
            for c in ast.walk(x):
                if isinstance(c, ast.comprehension) and tgt.id in target_names(c.target):
                    return sc                  # the target is rebound inside: leave it
        free.discard(tgt.id)
        if set(target_names(t2)) & free:
            return sc                          # the inner variable would capture an outer name
        sc = (_subst_name(elt, tgt.id, e2), t2, it2, list(ifs2) + [_subst_name(x, tgt.id, e2) for x in ifs])
    return sc


def node_key(fi, e):
    """The key expression (canonical text) of `<handle>.get_node('/', key)`."""
    t = X(fi, e, expand=False)
    b = match("_H.get_node(where='/', name=_K)", t)
    return u(b['_K']) if b is not None else None


# ---------------------------------------------------------------------------
# D1 / D4: ra.save

def d1_keys(ck, mod):
    rule = 'C15.D1.key-padding'
    F = 'save'
    fn = mod.func('save')
    ck.analysed(mod, fn)
    fi = finfo(mod, fn)
    ps = params(fn)
    if len(ps) < 2:
        ck.missing(rule, 'save(filename, array, ...) signature')
        return
    ARR = ps[1]
    TAG = ps[3] if len(ps) > 3 else '__'
    cc = [c for c in calls_in(fn) if tail(c) == 'create_carray']
    if len(cc) != 1:
        ck.missing(rule, 'exactly one create_carray call in ra.save (found %d)' % len(cc))
        return
    c = cc[0]
    a = callargs(c)
    loop = enclosing(mod, c, (ast.For,))
    if loop is None or 'name' not in a:
        ck.missing(rule, 'row loop around create_carray(name=...) in ra.save')
        return
    # --- rows written in index order
    v = classify(X(fi, loop.iter), ['range(len(%s))' % ARR, 'range(0, len(%s))' % ARR, 'range(0, len(%s), 1)' % ARR, 'enumerate(%s)' % ARR], scope={ARR})
    ck.decide(v, rule + '.rows', mod, loop, F, 'for %s in %s' % (u(loop.target), u(loop.iter)), 'rows written in index order',
              'save must iterate the row index over range(len(array)) and write array[i] under key i')
    if v[0] != 'match':
        return
    if isinstance(loop.target, ast.Name):
        I = loop.target.id
        rows = {'%s[%s]' % (ARR, I)}
    elif isinstance(loop.target, ast.Tuple) and len(loop.target.elts) == 2 and all(isinstance(e, ast.Name) for e in loop.target.elts):
        I = loop.target.elts[0].id
        rows = {'%s[%s]' % (ARR, I), loop.target.elts[1].id}
    else:
        ck.missing(rule + '.rows', 'loop target of the row loop')
        return
    # --- the key: tag + '_' + zero-padded row index
    key = X(fi, a['name'])
    forms = ["_T + '_' + str(_I).zfill(_W)", "_T + '_' + str(_I).rjust(_W, '0')", "'%s_%s' % (_T, str(_I).zfill(_W))",
             "'%s_%s' % (_T, str(_I).rjust(_W, '0'))", "'{}_{}'.format(_T, str(_I).zfill(_W))", "'_'.join([_T, str(_I).zfill(_W)])",
             "'_'.join((_T, str(_I).zfill(_W)))"]
    v = classify(key, forms, scope={TAG, I, 'str'})
    ck.decide(v, rule, mod, c, F, 'name=%s' % u(key), 'row key = tag + "_" + zero-padded row index',
              'row keys must be tag + "_" + str(i).zfill(<width>): an unpadded index sorts arr_10 before arr_2')
    if v[0] == 'match':
        b = v[1]
        ck.check(u(b['_I']) == I, rule, mod, c, F, 'key index %s' % u(b['_I']), 'the padded number is the row index',
                 'the number in the key must be the row index %s of the loop that writes array[%s]' % (I, I))
        _check_width(ck, mod, fi, fn, rule, b['_W'], ARR, loop)
    # --- the node: one per row, the row's own shape, the row's data
    if 'shape' in a:
        ck.check(T(fi, a['shape']) in {r + '.shape' for r in rows}, rule + '.node', mod, c, F, 'shape=%s' % T(fi, a['shape']),
                 'one node per row with the row\'s own shape', 'create_carray must use the shape of the row being written')
    else:
        ck.missing(rule + '.node', 'shape= of create_carray')
    cst = fi.stmt(c)
    NODE = cst.targets[0].id if isinstance(cst, ast.Assign) and len(cst.targets) == 1 and isinstance(cst.targets[0], ast.Name) else None
    st = [(s, t) for s, t in subscript_stores(loop) if isinstance(s, ast.Assign) and NODE is not None and u(t.value) == NODE]
    if len(st) != 1:
        ck.missing(rule + '.node', 'store of the row into the node created by create_carray')
    else:
        s, t = st[0]
        _every_row_written(ck, mod, fi, fn, loop, cst, s)
        full = (isinstance(t.slice, ast.Slice) and t.slice.lower is None and t.slice.upper is None and t.slice.step is None) or is_ellipsis(t.slice)
        xv = X(fi, s.value)
        # value-preserving re-layouts of the row: a freshly allocated array holding the same values
        fresh = None
        if isinstance(xv, ast.Call) and len(xv.args) == 1 and call_name(xv) in ('np.ascontiguousarray', 'np.array', 'np.copy', 'np.require') and \
                all(k.arg in ('order', 'requirements', 'copy', 'subok') for k in xv.keywords) and const_value(kwarg(xv, 'copy'), True) is not False:
            fresh, xv = call_name(xv), xv.args[0]
        elif isinstance(xv, ast.Call) and isinstance(xv.func, ast.Attribute) and xv.func.attr == 'copy' and not xv.args and \
                all(k.arg == 'order' for k in xv.keywords):
            fresh, xv = '.copy()', xv.func.value
        val = u(xv)
        if full and val in rows:
            ck.ok(rule + '.node', mod, s, u(s), 'row data written whole')
            # PyTables (tables/flavor.py conv_to_numpy) copies a non-contiguous array into C order only
            # `if not nparr.flags.contiguous and sum(nparr.strides) != 0` (the second test is meant to spare
            # zero-stride broadcast arrays): a caller's view whose byte strides happen to add up to zero - a
            # reversed (n, 1) column has strides (-8, 8) - is written as the raw memory behind its first element.
            ck.check(fresh is not None, rule + '.node.contiguous', mod, s, F, 'layout of the row handed to the HDF5 node',
                     'the node receives a freshly allocated copy (%s): positive strides, never a caller\'s view' % fresh,
                     'the node receives the caller\'s array object as it is (`%s`).  PyTables copies a non-contiguous array into C order '
                     'only when its byte strides do not sum to zero; a view such as np.arange(8.).reshape(8, 1)[:4][::-1] (strides (-8, 8)) '
                     'is written as the memory that follows its first element: ra.load returns [3, 4, 5, 6] for the saved [3, 2, 1, 0], '
                     'silently.  save must hand over np.ascontiguousarray(<row>)' % u(s.value)[:60])
        else:
            v = classify(xv, sorted(rows), scope={ARR, I}) if full else ('near', 1, None)
            ck.decide(v, rule + '.node', mod, s, F, u(s), '', 'the node of row i must receive the whole row: node[:] = array[i]')
    # --- D4 atom dtype
    if 'atom' not in a:
        ck.missing('C15.D4.dtype', 'atom= of create_carray')
        return
    alts = guarded_alternatives(fi, a['atom'], cst)
    rowd = {r + '.dtype' for r in rows}
    okd = {'%s._data.dtype' % ARR} | rowd
    for alt, guards in alts:
        t = X(fi, alt)
        b = match('tables.Atom.from_dtype(_D)', t) or match('Atom.from_dtype(_D)', t)
        if b is None:
            ck.missing('C15.D4.dtype', 'atom is not built by tables.Atom.from_dtype(<dtype>): %s' % u(t)[:120])
            continue
        v = classify(b['_D'], sorted(okd), scope={ARR, I})
        ck.decide(v, 'C15.D4.dtype', mod, c, F, 'atom=%s' % u(t), 'stored element type = dtype of the flat data (ragged) / of the row',
                  'the HDF5 atom must be built from the dtype of the data that is written (array._data.dtype / array[i].dtype)')
        if v[0] == 'match' and u(b['_D']) in rowd:
            _row_dtype_only_for_plain_arrays(ck, mod, fi, c, cst, ARR, u(b['_D']), guards)
    ck.floor('C15.D4.dtype', len(alts), 1, 'definitions of the atom')


def guarded_alternatives(fi, e, at, depth=6):
    """split_alternatives that remembers UNDER WHICH CONDITIONS each
    alternative is the value: [(expression, [(test, polarity)])].  A Name with
    several simple reaching definitions is replaced by each of them together
    with the branch conditions that dominate that definition, a conditional
    expression by each arm together with its test, a single-definition
    temporary by its value (it may hide alternatives).  The conditions that
    dominate the statement `at` (where the value is consumed) are part of
    every alternative.  The expressions are copies whose Name nodes keep their
    source positions (see `orig`)."""
    out = []

    def pos(n):
        return (getattr(n, 'lineno', None), getattr(n, 'col_offset', None))

    def subst(x, pred, new):
        done = []

        class R(ast.NodeTransformer):
            def generic_visit(self, node):
                if not done and pred(node):
                    done.append(1)
                    return copy.deepcopy(new)
                return super().generic_visit(node)

            visit = generic_visit
        return R().visit(copy.deepcopy(x))

    def go(x, guards, d):
        if d > 0:
            for n in walk_expr(x):
                if isinstance(n, ast.IfExp):
                    key = (u(n), pos(n))
                    for arm, pol in ((n.body, True), (n.orelse, False)):
                        go(subst(x, lambda m: isinstance(m, ast.IfExp) and (u(m), pos(m)) == key, arm), guards + [(n.test, pol)], d - 1)
                    return
            bound = set()
            for n in walk_expr(x):
                if isinstance(n, ast.comprehension):
                    bound |= set(target_names(n.target))
            for n in walk_expr(x):
                if not (isinstance(n, ast.Name) and isinstance(n.ctx, ast.Load)) or n.id in bound:
                    continue
                on = n if n in fi.stmt_of else orig(fi, n)
                if on is None:
                    continue
                try:
                    defs = fi.defs_of_use(on)
                except Exception:
                    continue
                if not defs or not all(isinstance(s, (ast.Assign, ast.AnnAssign)) for s in defs):
                    continue
                if len(defs) == 1:
                    s0 = next(iter(defs))
                    # the consumed value itself: WHICH expression it is bound to (as split_alternatives); inside it: temporaries only
                    vals = [(s0, fi.def_value(s0, on.id) if n is x else _temp(fi, on, need_pure=False))]
                else:
                    vals = [(s, fi.def_value(s, on.id)) for s in defs]
                if any(v is None for _, v in vals):
                    continue
                key = (n.id, pos(n))
                for s, v in vals:
                    go(subst(x, lambda k: isinstance(k, ast.Name) and (k.id, pos(k)) == key, v), guards + guards_of(fi, s), d - 1)
                return
        out.append((x, guards))
    go(e, list(guards_of(fi, at)), depth)
    return out


def _defaulted_only(guards, KEYS):
    """The guards imply `KEYS is Ellipsis` (the caller passed no key list)."""
    return guarded_by(guards, lambda c: c.op is ast.Is and ((u(c.lhs) == KEYS and is_ellipsis(c.rhs)) or (u(c.rhs) == KEYS and is_ellipsis(c.lhs)))) \
        or guarded_by(guards, lambda c: c.op is ast.Eq and u(c.lhs) == KEYS and is_ellipsis(c.rhs))


def path_guards(fi, d, use, kills, stable=()):
    """[(test, polarity)] of the branch heads (cfg.Assume) that EVERY path from
    the definition site `d` to `use` avoiding the `kills` (the other
    definitions of the same name) goes through: what is known in addition when
    it is d's value that arrives at `use` (`x = A; if c: x = B; use(x)`: A
    arrives only when c is false).  Tests over one of the `stable` names are
    kept only if that name has the same reaching definitions at the test and
    at `use`."""
    kills = [k for k in kills if k is not d]
    cfg = fi.cfg
    if not cfg.reachable(d, use, avoiding=kills):
        return []
    out = []
    for a in cfg.nodes:
        if not isinstance(a, Assume) or a is d or a is use:
            continue
        if cfg.reachable(d, use, avoiding=kills + [a]):
            continue
        names = names_loaded(a.test)
        if any(nm in names and fi.rd.defs_at(a.owner, nm) != fi.rd.defs_at(use, nm) for nm in stable):
            continue
        out.append((a.test, a.polarity))
    return out


def _binding_alternatives(fi, name_node, at, KEYS, depth=4):
    """[(value, guards, site)] for a Name used at statement `at` whose reaching
    definitions are all simple assignments: each assigned expression with the
    branch conditions known to hold when that binding is the one that
    arrives (guards of `at`, guards of the definition site, path guards).  A
    value that is itself a Name is followed.  None when a definition is not a
    simple assignment."""
    out = []

    def go(n, use, guards, d):
        on = n if n in fi.stmt_of else orig(fi, n)
        if on is None:
            return False
        try:
            defs = fi.defs_of_use(on)
        except Exception:
            return False
        if not defs or not all(isinstance(x, (ast.Assign, ast.AnnAssign)) for x in defs):
            return False
        for site in sorted(defs, key=lambda x: (x.lineno, x.col_offset)):
            v = fi.def_value(site, on.id)
            if v is None:
                return False
            g = guards + guards_of(fi, site) + path_guards(fi, site, use, list(defs), stable=(KEYS,))
            if isinstance(v, ast.Name) and v.id != KEYS and d > 0:
                sub = len(out)
                if go(v, site, g, d - 1):
                    continue
                del out[sub:]
            out.append((v, g, site))
        return True
    if not go(name_node, at, list(guards_of(fi, at)), depth):
        return None
    return out


def _order_of_other_sequence(fi, e, KEYS):
    """`[v for v in S if v in KEYS ...]` (also a generator / inside list() /
    tuple()) where S does not depend on KEYS: the text of S.  The element order
    and multiplicity of such a value are those of S - a different function of
    KEYS than a copy of it, whatever S is."""
    if isinstance(e, ast.Call) and call_name(e) in ('list', 'tuple') and len(e.args) == 1 and not e.keywords:
        e = e.args[0]
    sc = single_comp(e)
    if sc is None:
        return None
    elt, tgt, it, ifs = sc
    if not (isinstance(tgt, ast.Name) and isinstance(elt, ast.Name) and elt.id == tgt.id):
        return None
    if _depends_on(fi, it, KEYS):
        return None
    for c in ifs:
        for a in conjuncts(c, True) or []:
            if isinstance(a, Cmp) and a.op is ast.In and isinstance(a.lhs, ast.Name) and a.lhs.id == tgt.id and \
                    isinstance(a.rhs, ast.Name) and a.rhs.id == KEYS:
                return u(it)[:80]
    return None


def _depends_on(fi, e, name, depth=6, seen=None):
    """Data dependence (backward slice through the reaching definitions): may
    the value of expression `e` depend on the local `name`?"""
    seen = set() if seen is None else seen
    for n in walk_expr(e):
        if not (isinstance(n, ast.Name) and isinstance(n.ctx, ast.Load)):
            continue
        if n.id == name:
            return True
        on = n if n in fi.stmt_of else orig(fi, n)
        if on is None or depth <= 0:
            continue
        try:
            defs = fi.defs_of_use(on)
        except Exception:
            continue
        for s in defs:
            if not isinstance(s, ast.AST) or (id(s), n.id) in seen:
                continue
            seen.add((id(s), n.id))
            v = fi.def_value(s, n.id)
            if v is None:
                # a name bound by the header of a compound statement depends on that header only
                if isinstance(s, (ast.With, ast.AsyncWith)):
                    hdr = [i.context_expr for i in s.items]
                elif isinstance(s, (ast.For, ast.AsyncFor)):
                    hdr = [s.iter]
                else:
                    hdr = None
                if hdr is not None:
                    if any(_depends_on(fi, h, name, depth - 1, seen) for h in hdr):
                        return True
                elif name in names_loaded(s):
                    return True
            elif _depends_on(fi, v, name, depth - 1, seen):
                return True
    return False


def _ragged_class_facts(mod):
    """(attributes every RaggedArray has, attribute of the row view, the
    statements that build the row view as an OBJECT block) - read off the class:
    __slots__ / attributes stored by __init__ / methods; `return self.<rows>[i]`
    in __getitem__; `self.<rows> = np.array(..., dtype='O')`."""
    cls = mod.classes.get('RaggedArray')
    if cls is None:
        return None
    attrs = set()
    for s in cls.body:
        if isinstance(s, (ast.FunctionDef, ast.AsyncFunctionDef)):
            attrs.add(s.name)
        elif isinstance(s, ast.Assign) and any(isinstance(t, ast.Name) and t.id == '__slots__' for t in s.targets) and \
                isinstance(s.value, (ast.Tuple, ast.List)):
            attrs |= {const_value(x) for x in s.value.elts if isinstance(const_value(x), str)}
    rows = set()
    for m in cls.body:
        if isinstance(m, ast.FunctionDef) and m.name == '__getitem__' and len(params(m)) >= 2:
            S0, IDX = params(m)[:2]
            gfi = finfo(mod, m)
            for r in returns_of(m):
                t = X(gfi, r.value) if r.value is not None else None
                if isinstance(t, ast.Subscript) and isinstance(t.slice, ast.Name) and t.slice.id == IDX and isinstance(t.value, ast.Attribute) \
                        and isinstance(t.value.value, ast.Name) and t.value.value.id == S0:
                    rows.add(t.value.attr)
    ROWS = next(iter(rows)) if len(rows) == 1 else None
    objs = []
    if ROWS is not None:
        for m in cls.body:
            if not isinstance(m, ast.FunctionDef) or not params(m):
                continue
            S0 = params(m)[0]
            for s in walk_local(m):
                if isinstance(s, ast.Assign) and isinstance(s.value, ast.Call) and any(
                        isinstance(t, ast.Attribute) and t.attr == ROWS and isinstance(t.value, ast.Name) and t.value.id == S0 for t in s.targets):
                    d = kwarg(s.value, 'dtype')
                    if d is not None and (const_value(d) in ('O', 'object') or u(d) in ('object', 'np.object_', 'np.object')):
                        objs.append(s)
    return attrs, ROWS, objs


def _row_dtype_only_for_plain_arrays(ck, mod, fi, c, cst, ARR, dtxt, guards):
    """The element type of a RaggedArray is that of its FLAT data; `array[i]`
    is answered from the row view, which the class builds as an object block
    (`np.array(partition_list(...), dtype='O')`): for rows of equal length
    that is a 2-D object array whose rows have dtype object.  So the dtype of
    the ROW may become the stored element type only where the array is known
    not to be a RaggedArray - under a dominating `not hasattr(array, <attribute
    every RaggedArray has>)` / `not isinstance(array, RaggedArray)` /
    `isinstance(array, np.ndarray)`, or where the only definitions of `array`
    that reach are literal row lists.  Three-valued: a row dtype that ragged
    arrays reach is a VIOLATION when the class does build object rows; a
    condition on `array` the rule cannot read is INCOMPLETE."""
    rule = 'C15.D4.dtype.ragged-rows'
    F = 'save'
    facts = _ragged_class_facts(mod)
    if facts is None:
        ck.missing(rule, 'class RaggedArray in %s' % mod.rel)
        return
    attrs, ROWS, objs = facts
    state = 'any'           # not-ragged < unknown < ragged < any
    seen_states = []
    for test, pol in guards:
        t = xexpand(fi, test)
        cs = conjuncts(t, pol)
        if cs is None:
            if _depends_on(fi, test, ARR):
                seen_states.append('unknown')
            continue
        for a in cs:
            e, p = (a[1], a[2]) if isinstance(a, tuple) else (None, None)
            st = None
            if isinstance(e, ast.Call) and isinstance(e.func, ast.Name) and len(e.args) == 2 and not e.keywords and \
                    isinstance(e.args[0], ast.Name) and e.args[0].id == ARR:
                if e.func.id == 'hasattr' and const_value(e.args[1]) in attrs:
                    st = 'ragged' if p else 'not-ragged'
                elif e.func.id == 'isinstance':
                    kinds = [x for x in (e.args[1].elts if isinstance(e.args[1], ast.Tuple) else [e.args[1]])]
                    names = {u(x).split('.')[-1] for x in kinds}
                    if names == {'RaggedArray'}:
                        st = 'ragged' if p else 'not-ragged'
                    elif p and names <= {'ndarray', 'list', 'tuple'}:
                        st = 'not-ragged'
            if st is None:
                parts = [a.lhs, a.rhs] if isinstance(a, Cmp) else [e]
                if any(x is not None and _depends_on(fi, x, ARR) for x in parts):
                    st = 'unknown'          # some other condition on the array: not one the rule can read
            if st is not None:
                seen_states.append(st)
    if 'not-ragged' in seen_states:
        state = 'not-ragged'
    elif 'unknown' in seen_states:
        state = 'unknown'
    elif 'ragged' in seen_states:
        state = 'ragged'
    if state != 'not-ragged':
        defs = fi.rd.defs_at(cst, ARR)
        if defs and all(isinstance(d, ast.Assign) and isinstance(fi.def_value(d, ARR), (ast.List, ast.Tuple)) for d in defs):
            state = 'not-ragged'
    what = 'arrays whose row dtype `%s` becomes the stored element type' % dtxt
    if state == 'not-ragged':
        ck.ok(rule, mod, c, what, 'the dtype of the row is used only where the array is not a RaggedArray')
    elif state == 'unknown' or ROWS is None or not objs:
        ck.missing(rule, 'whether a RaggedArray can reach the atom built from the row dtype `%s` in ra.save (%s:%s): %s'
                   % (dtxt, mod.rel, getattr(c, 'lineno', '?'),
                      'a dominating condition on `%s` is not a hasattr/isinstance test the rule can read' % ARR if state == 'unknown' else
                      'the row view of RaggedArray.__getitem__ / its element type could not be read off the class'))
    else:
        ck.bad(rule, mod, c, F, what,
               'the atom is built from the dtype of the ROW (`%s`) on a path a RaggedArray reaches (%s).  The element type of a RaggedArray is that of '
               'its flat data; `array[i]` is answered from self.%s, which the class builds with dtype=object (L%s): for rows of equal length it is a '
               '2-D object block whose rows have dtype object - tables.Atom.from_dtype rejects it (nothing is stored) or the stored element type is '
               'not the array\'s.  The row dtype may be used only under `not hasattr(%s, <flat data>)`; a RaggedArray must be stored with '
               '%s.<flat data>.dtype' % (dtxt, 'under a condition that selects RaggedArrays' if state == 'ragged' else 'no dominating test excludes it',
                                         ROWS, ', '.join(str(getattr(s, 'lineno', '?')) for s in objs[:4]), ARR, ARR))


def _every_row_written(ck, mod, fi, fn, loop, create, store):
    """The exits of ra.save and of its row loop: every iteration of the loop
    over the rows creates the node of its row and fills it (no path from the
    head of the loop body to the next iteration, out of the loop or out of the
    function that avoids one of the two, other than a raise), and every normal
    exit of save lies behind the loop.  Decided on the CFG: an `if ...:
    continue`, a `break`, an early `return` that skips rows leaves the file
    with fewer rows than the array."""
    from ..cfg import EXIT
    rule = 'C15.D1.key-padding.rows.every-row'
    F = 'save'
    inside = set()
    for n in ast.walk(loop):
        if n is not loop and isinstance(n, ast.stmt):
            inside.add(n)
    raises = [n for n in walk_local(fn) if isinstance(n, ast.Raise)]

    def in_loop(n):
        if isinstance(n, Assume):
            return n.owner in inside
        return n in inside
    if not loop.body or loop.orelse:
        ck.missing(rule, 'body of the row loop of ra.save (a loop with an else clause)')
        return
    skipped = None
    for must in (create, store):
        avoid = set(raises) | {must}
        seen, stack = set(), [loop.body[0]]
        while stack and skipped is None:
            n = stack.pop()
            if n in seen or n in avoid:
                continue
            seen.add(n)
            for m in fi.cfg.succ.get(n, []):
                if m is loop or m == EXIT or not in_loop(m):
                    if m not in avoid:
                        skipped = (must, n)
                        break
                else:
                    stack.append(m)
    if skipped is None:
        ck.ok(rule, mod, loop, 'for %s in %s' % (u(loop.target), u(loop.iter)), 'every iteration creates and fills the node of its row')
    else:
        must, via = skipped
        ck.bad(rule, mod, via if isinstance(via, ast.AST) else loop, F, 'an iteration of the row loop can end without `%s`' % u(must)[:80],
               'a path through the body of the row loop (via L%s) reaches the next iteration or leaves the loop without creating / filling the node of '
               'row i: the file then holds fewer rows than the array (and load returns other row lengths / row order than were saved)'
               % getattr(via if isinstance(via, ast.AST) else getattr(via, 'owner', loop), 'lineno', '?'))
    for r in returns_of(fn):
        if fi.cfg.dominates(loop, r):
            ck.ok(rule, mod, r, 'exit `%s` relative to the row loop' % u(r)[:60], 'save returns only after the row loop')
        else:       # what such an exit leaves in the file is not something the rule can relate to the rows
            ck.missing(rule, 'an exit of ra.save that can be reached without running the row loop: `%s` (%s:%s)' % (u(r)[:60], mod.rel, getattr(r, 'lineno', '?')))


def _check_width(ck, mod, fi, fn, rule, w, ARR, loop):
    """The zfill width: every definition that reaches the key is
    len(str(<row count>)) + k, k >= 0 (or a constant that covers the literal
    row list the array was rebound to on that path)."""
    F = 'save'
    counts = ['len(%s.lengths)' % ARR, 'len(%s)' % ARR, '%s.lengths.shape[0]' % ARR]
    counts = [C(x) for x in counts]
    vals = []
    on = orig(fi, w) if isinstance(w, ast.Name) else None
    if on is not None:
        for site in fi.defs_of_use(on):
            if site in ('PARAM', 'UNBOUND'):
                vals.append((site, None))
            else:
                vals.append((site, fi.def_value(site, on.id)))
    else:
        vals.append((None, w))
    for site, val in vals:
        where = site if isinstance(site, ast.AST) else loop
        if val is None:
            ck.missing(rule, 'definition of the padding width %s (%s)' % (u(w), site if isinstance(site, str) else u(site)[:80]))
            continue
        t = X(fi, val) if site is not None else val
        k, n = None, None
        for pat, sign in (('len(str(_N)) + _K', 1), ('_K + len(str(_N))', 1), ('len(str(_N)) - _K', -1), ('len(str(_N))', 0)):
            b = match(pat, t)
            if b is not None and (sign == 0 or isinstance(const_value(b['_K']), int)):
                k = sign * const_value(b['_K']) if sign else 0
                n = b['_N']
                break
        txt = u(site) if isinstance(site, ast.AST) else 'width %s' % u(t)
        if n is not None:
            nt = u(n)
            m1 = match('_M - 1', n)
            base_ok = nt in counts or (m1 is not None and u(m1['_M']) in counts)
            if not base_ok:
                v = classify(n, counts, scope={ARR})
                ck.decide(v, rule, mod, where, F, txt, '', 'the padding width must be derived from the number of rows (len(array.lengths) / len(array))')
                continue
            ck.check(k >= 0, rule, mod, where, F, txt, 'padding width >= number of digits of the row count',
                     'the zero-padding width must be at least len(str(<number of rows>)): with a fixed/smaller width, keys of '
                     'arrays with more rows sort as arr_10 < arr_2 and rows come back in the wrong order')
            continue
        cv = const_value(t)
        if isinstance(cv, int) and not isinstance(cv, bool):
            # a constant width is fine only where the array is a literal list of rows
            lits = [s for s in assigns_to(fn, ARR) if isinstance(s, ast.Assign) and isinstance(s.value, (ast.List, ast.Tuple))]
            ok = False
            for d in lits:
                nrows = len(d.value.elts)
                covers = nrows >= 1 and cv >= len(str(nrows - 1)) and cv >= 1
                if isinstance(site, ast.AST) and covers and (
                        (fi.cfg.reachable(site, d) and not fi.cfg.reachable(site, loop, avoiding=[d])) or fi.rd.defs_at(site, ARR) == {d}):
                    ok = True
            ck.check(ok, rule, mod, where, F, txt, 'constant width on the single-row path (array rebound to a literal row list)',
                     'a fixed padding width does not cover every row count: the zero-padding width must be at least '
                     'len(str(<number of rows>)), else keys of arrays with more rows sort as arr_10 < arr_2')
            continue
        v = classify(t, ['len(str(%s))' % x for x in counts] + ['len(str(%s)) + 1' % x for x in counts], scope={ARR})
        ck.decide(v, rule, mod, where, F, txt, '', 'the zero-padding width must be len(str(<number of rows>)) + k, k >= 0')
    ck.floor(rule, len(vals), 1, 'definitions of the padding width')


# ---------------------------------------------------------------------------
# D2 / D3 / D4: ra.load

def d_load(ck, mod):
    F = 'load'
    fn = mod.func('load')
    ck.analysed(mod, fn)
    fi = finfo(mod, fn)
    ps = params(fn)
    if len(ps) < 3:
        ck.missing('C15.D3.buffer', 'load(input_name, keys, stride) signature')
        return
    KEYS, STRIDE = ps[1], ps[2]

    def strided(e):
        return isinstance(e, ast.Subscript) and isinstance(e.slice, ast.Slice) and isinstance(e.slice.step, ast.Name) and \
            e.slice.step.id == STRIDE and (e.slice.lower is None or const_value(e.slice.lower) == 0) and e.slice.upper is None

    # --- the result: RaggedArray(array=<buffer>, lengths=<lengths>)
    main = []
    for r in returns_of(fn):
        rv = resolve(fi, r.value) if r.value is not None else None
        if isinstance(rv, ast.Call) and tail(rv) == 'RaggedArray':
            main.append((r, rv))
    if len(main) != 1:
        ck.missing('C15.D3.buffer', 'the return of RaggedArray(array=<buffer>, lengths=<lengths>) in ra.load (found %d)' % len(main))
        return
    ret, rcall = main[0]
    ra_args = callargs(rcall)
    CON, LEN = ra_args.get('array'), ra_args.get('lengths')
    if not (isinstance(CON, ast.Name) and isinstance(LEN, ast.Name)):
        ck.missing('C15.D3.buffer', 'RaggedArray(array=<name>, lengths=<name>) in the return of ra.load: %s' % u(rcall)[:120])
        return
    ck.ok('C15.D3.buffer', mod, ret, u(ret), 'result wraps the filled buffer with the strided lengths')
    _load_exits(ck, mod, fi, fn, ret, KEYS, STRIDE)

    # --- D2 lengths = [ceil(shape[0] / stride) for shape in shapes], shapes gathered over keys
    K1 = None
    SH = None
    lv = resolve(fi, LEN)
    lsite = fi.stmt(lv) if lv is not LEN else ret
    as_array = None
    if isinstance(lv, ast.Call) and call_name(lv) in _TO_NDARRAY and lv.args and not isinstance(lv.args[0], ast.Starred):
        inner = resolve(fi, lv.args[0])
        if single_comp(inner) is not None:          # np.array([...]): the same numbers, held in an ndarray
            as_array, lv = call_name(lv), inner
    sc = single_comp(lv)
    if sc is None:
        ck.missing('C15.D2.stride-lengths', 'lengths of ra.load are not a list comprehension: %s' % u(lv)[:120])
    else:
        elt, tgt, it, ifs = sc
        tn = set(target_names(tgt))
        v = ceil_div(X(fi, elt), STRIDE, tn)
        n_ok = False
        if v[0] == 'match':
            nt = u(v[1]['_N'])
            if isinstance(tgt, ast.Name) and nt == '%s[0]' % tgt.id:
                n_ok = 'shape'
            elif isinstance(tgt, ast.Name) and match("_H.get_node(where='/', name=%s).shape[0]" % tgt.id, v[1]['_N']) is not None:
                n_ok = 'key'
            elif isinstance(tgt, ast.Name) and match("len(_H.get_node(where='/', name=%s))" % tgt.id, v[1]['_N']) is not None:
                n_ok = 'key'
            else:
                v = ('far', 1, None)
        ck.decide(v, 'C15.D2.stride-lengths', mod, lsite, F, u(lsite)[:200], 'row lengths = ceil(rows / stride)',
                  'with a stride the row lengths must be ceil(shape[0] / stride): floor division loses the '
                  'last partial step, the unstrided length overstates it, and the lengths no longer partition the data')
        if v[0] == 'match' and n_ok:
            _lengths_element_type(ck, mod, fi, lsite, X(fi, elt), tgt, n_ok, as_array)
        if ifs:
            ck.bad('C15.D3.same-keys', mod, lsite, F, u(lsite)[:200], 'the lengths comprehension filters its sequence: lengths and rows are no longer aligned')
        if n_ok == 'key':
            K1 = it
            ck.check(isinstance(it, ast.Name) and it.id == KEYS, 'C15.D3.same-keys', mod, lsite, F, u(lsite)[:140],
                     'lengths follow the key sequence', 'the lengths must be gathered by iterating over keys')
        elif n_ok == 'shape':
            SH = it
            sv = resolve(fi, it)
            ssite = fi.stmt(sv) if sv is not it else lsite
            if single_comp(sv) is None and isinstance(it, ast.Name):
                # a list gathered by ONE append loop is the comprehension it equals (_append_loop_comp)
                tv = _temp(fi, it, need_pure=False)
                if single_comp(tv) is not None:
                    sv = tv
            sc2 = single_comp(sv)
            if sc2 is None or not isinstance(sc2[1], ast.Name):
                ck.missing('C15.D3.same-keys', 'the shapes the lengths are computed from are not a comprehension over keys: %s' % u(sv)[:120])
            else:
                e2, t2, it2, ifs2 = sc2
                ok = match("_H.get_node(where='/', name=%s).shape" % t2.id, X(fi, e2)) is not None and not ifs2
                if not ok:
                    ck.missing('C15.D3.same-keys', 'shape comprehension not recognised: %s' % u(sv)[:120])
                else:
                    K1 = it2
                    v = classify(it2, [KEYS], scope={KEYS})
                    ck.decide(v, 'C15.D3.same-keys', mod, ssite, F, u(ssite)[:140], 'shapes (hence lengths) follow the key sequence',
                              'shapes must be gathered by iterating over keys in the given order')

    # --- the buffer: np.zeros(<(sum(lengths),) + trailing dims>, dtype=<stored dtype>)
    DT = None
    cdefs = fi.defs_of_use(CON)
    csite = next(iter(cdefs)) if len(cdefs) == 1 else None
    cval = fi.def_value(csite, CON.id) if isinstance(csite, ast.AST) else None
    if not isinstance(cval, ast.Call):
        ck.missing('C15.D3.buffer', 'single allocation of the buffer %s' % CON.id)
    else:
        cn = call_name(cval) or ''
        ba = callargs(cval)
        if cn in ('np.zeros', 'numpy.zeros') and 'shape' in ba:
            ck.ok('C15.D3.buffer', mod, csite, u(csite), 'buffer is zero-initialised')
        elif cn in ('np.empty', 'numpy.empty', 'np.ndarray'):
            ck.bad('C15.D3.buffer', mod, csite, F, u(csite), 'the buffer must be np.zeros(concat_shape, dtype=dtype): an uninitialised buffer exposes heap '
                   'garbage wherever the fill does not reach')
        else:
            ck.missing('C15.D3.buffer', 'allocation of the buffer not recognised: %s' % u(csite)[:120])
        if 'shape' in ba:
            L = LEN.id
            # the gathered shapes are a role (SH, located above): expanded up to it, not through it
            sh = X(fi, ba['shape'], stop=(L,) + ((SH.id,) if isinstance(SH, ast.Name) else ()))
            forms = ['(sum(%s),) + _S[0][1:]' % L, '(sum(%s), *_S[0][1:])' % L, '(sum(%s),) + tuple(_S[0][1:])' % L,
                     'tuple([sum(%s)] + list(_S[0][1:]))' % L, '(sum(%s),) + _S[0][1:]' % L]
            scope = {L} | ({SH.id} if isinstance(SH, ast.Name) else set())
            v = classify(sh, forms, scope=scope)
            if v[0] == 'match' and isinstance(SH, ast.Name) and u(v[1]['_S']) != SH.id:
                v = ('far', 1, None)
            ck.decide(v, 'C15.D3.buffer', mod, csite, F, 'shape=%s' % u(sh), 'buffer length = sum of the strided lengths',
                      'the buffer shape must be (sum(lengths),) + trailing dims of the stored rows')
            ls = [orig(fi, n) for n in ast.walk(sh) if isinstance(n, ast.Name) and n.id == L]
            ck.check(bool(ls) and all(n is not None and fi.same_value(n, LEN) for n in ls), 'C15.D3.buffer', mod, csite, F, 'lengths at buffer size vs lengths returned',
                     'one definition of lengths sizes the buffer and is returned', 'the lengths that size the buffer are not the lengths that are returned')
        DT = ba.get('dtype')
        if DT is None:
            ck.bad('C15.D4.dtype', mod, csite, F, u(csite), 'the buffer must be allocated with the stored dtype (dtype=...): the default float64 changes the element type')

    # --- D4 dtype taken from a stored node and checked equal across keys
    if isinstance(DT, ast.Name):
        dv = resolve(fi, DT)
        dsite = fi.stmt(dv) if dv is not DT else csite
        b = match("_H.get_node(where='/', name=_K).dtype", X(fi, dv, stop=(KEYS,)))
        ok = b is not None and (match('%s[_J]' % KEYS, b['_K']) is not None)
        if ok:
            ck.ok('C15.D4.dtype', mod, dsite, u(dsite), 'dtype taken from a stored node')
        else:
            ck.missing('C15.D4.dtype', 'definition of the buffer dtype not recognised: %s' % u(dv)[:120])
        found = 0
        for n in walk_local(fn):
            if not (isinstance(n, ast.If) and any(isinstance(x, ast.Raise) for x in n.body)):
                continue
            q = _quantified_mismatch(n.test, fi)
            if q is None:
                continue
            cmp_, tgt, it = q
            sides = [X(fi, cmp_.lhs), X(fi, cmp_.rhs)]
            texts = [u(s) for s in sides]
            if DT.id not in texts:
                continue
            other = sides[1 - texts.index(DT.id)]
            if not isinstance(tgt, ast.Name) or match("_H.get_node(where='/', name=%s).dtype" % tgt.id, other) is None:
                continue
            found += 1
            dn = [orig(fi, x) for side in (cmp_.lhs, cmp_.rhs) for x in ast.walk(side) if isinstance(x, ast.Name) and x.id == DT.id]
            ok = isinstance(it, ast.Name) and it.id == KEYS and fi.cfg.dominates(n, ret) and bool(dn) and \
                all(x is not None and fi.same_value(x, DT) for x in dn)
            ck.check(ok, 'C15.D4.dtype', mod, n, F, u(n.test)[:140], 'all rows must share one dtype, else raise',
                     'load must reject (before returning) any key whose dtype differs from the buffer dtype')
        if not found:
            ck.bad('C15.D4.dtype', mod, csite or fn, F, 'dtype check over keys', 'load must reject keys with differing dtypes: no `if <some key has another dtype>: raise` found')
    elif DT is not None:
        ck.missing('C15.D4.dtype', 'dtype= of the buffer is not a name: %s' % u(DT)[:80])

    # --- the fill loop
    stores = [(s, t) for s, t in subscript_stores(fn, CON.id)]
    if len(stores) != 1:
        ck.missing('C15.D3.fill', 'exactly one store into the buffer %s (found %d)' % (CON.id, len(stores)))
        return
    st, tg = stores[0]
    loop = enclosing(mod, st, (ast.For,))
    if loop is None or not isinstance(st, ast.Assign):
        ck.missing('C15.D3.fill', 'fill loop of ra.load')
        return
    it = loop.iter
    KV = None
    if isinstance(it, ast.Name) and isinstance(loop.target, ast.Name):
        K2, KV = it, loop.target.id
    elif isinstance(it, ast.Call) and call_name(it) == 'enumerate' and len(it.args) == 1 and isinstance(it.args[0], ast.Name) and \
            isinstance(loop.target, ast.Tuple) and len(loop.target.elts) == 2 and isinstance(loop.target.elts[1], ast.Name):
        K2, KV = it.args[0], loop.target.elts[1].id
    else:
        K2 = None
    if K2 is None:
        v = classify(it, [KEYS], scope={KEYS})
        ck.decide(v, 'C15.D3.same-keys', mod, loop, F, 'for %s in %s' % (u(loop.target), u(it)), '',
                  'the fill loop must iterate over keys in the given order (the sequence that produced the lengths)')
        return
    ck.check(K2.id == KEYS, 'C15.D3.same-keys', mod, loop, F, 'for %s in %s' % (u(loop.target), u(it)), 'the fill loop iterates the same key sequence',
             'the fill loop must iterate over keys (the sequence that produced the lengths)')
    if isinstance(K1, ast.Name):
        ck.check(fi.same_value(K1, K2), 'C15.D3.same-keys', mod, loop, F, 'keys at lengths vs keys at fill',
                 'both uses see one definition of keys', 'keys is redefined between computing the lengths and filling the buffer')
    ck.check(fi.cfg.dominates(loop, ret), 'C15.D3.fill', mod, loop, F, 'fill loop before return', 'the buffer is filled before it is returned',
             'the fill loop does not precede the return on every path')
    # keys never reordered when supplied by the caller
    copy_forms = ['list(%s)' % KEYS, 'tuple(%s)' % KEYS, '[_K for _K in %s]' % KEYS, '%s[:]' % KEYS, 'list(%s).copy()' % KEYS]
    order_msg = ('a caller-supplied key list must be used in the given order: redefining `keys` outside the `keys is Ellipsis` '
                 'default (e.g. sorting it) returns rows - and their lengths - in an order the caller did not ask for')
    for s in assigns_to(fn, KEYS):
        if _defaulted_only(guards_of(fi, s), KEYS):
            ck.ok('C15.D3.key-order', mod, s, u(s)[:120], 'keys are only defaulted (under `keys is Ellipsis`)')
            continue
        val = s.value if isinstance(s, (ast.Assign, ast.AnnAssign)) else None
        v = classify(X(fi, val), copy_forms, scope={KEYS}) if val is not None else ('far', 1, None)
        if v[0] == 'far' and isinstance(val, ast.Name):
            # the value is a name bound on several paths: decide every binding that can arrive here under
            # the branch conditions that hold when it does
            alts = _binding_alternatives(fi, val, s, KEYS)
            if alts:
                for e, guards, site in alts:
                    what = '%s  <-  %s' % (u(s)[:60], u(site)[:100])
                    if _defaulted_only(guards, KEYS):
                        ck.ok('C15.D3.key-order', mod, site, what, 'this binding arrives only when `keys is Ellipsis` (default)')
                        continue
                    xe = X(fi, e, stop=(KEYS,))
                    va = classify(xe, [KEYS] + copy_forms, scope={KEYS})
                    if va[0] == 'far':
                        other = _order_of_other_sequence(fi, e, KEYS)
                        if other is not None:
                            ck.bad('C15.D3.key-order', mod, site, F, what,
                                   'the caller\'s keys only FILTER another sequence (%s): the rows come back in the order and multiplicity of that '
                                   'sequence, not of the key list the caller gave. ' % other + order_msg)
                            continue
                    ck.decide(va, 'C15.D3.key-order', mod, site, F, what, 'keys are copied, not reordered', order_msg)
                continue
        ck.decide(v, 'C15.D3.key-order', mod, s, F, u(s)[:120], 'keys are copied, not reordered', order_msg)
    for c in calls_in(fn):
        if isinstance(c.func, ast.Attribute) and isinstance(c.func.value, ast.Name) and c.func.value.id == KEYS and \
                c.func.attr in ('sort', 'reverse', 'pop', 'remove', 'insert', 'append', 'extend', 'clear'):
            ck.bad('C15.D3.key-order', mod, c, F, u(c), 'the key list is modified in place (%s): rows must come back in the order the caller asked for '
                   '(and the caller\'s list must not change)' % c.func.attr)
    # each row is read with [::stride] under the loop key
    V = st.value
    vr = resolve(fi, V)
    vsite = fi.stmt(vr) if vr is not V else st
    if isinstance(vr, ast.Subscript) and node_key(fi, vr.value) is not None:
        ck.check(strided(vr), 'C15.D2.stride-data', mod, vsite, F, u(vsite), 'each row is read with [::stride]', 'rows must be read as node[::stride]')
        ck.check(node_key(fi, vr.value) == KV, 'C15.D3.same-keys', mod, vsite, F, u(vsite), 'the row read is the node of the loop key',
                 'the row written in iteration `%s` must be the node named %s' % (KV, KV))
    else:
        ck.missing('C15.D2.stride-data', 'value stored into the buffer is not <handle>.get_node(key)[::stride]: %s' % u(vr)[:120])
    # running offsets
    sl = tg.slice
    if not (isinstance(sl, ast.Slice) and sl.step is None and isinstance(sl.lower, ast.Name) and sl.upper is not None):
        ck.missing('C15.D3.fill', 'buffer store is not %s[<start>:<end>] = <row>: %s' % (CON.id, u(st)))
        return
    LOW = sl.lower.id
    vt = T(fi, V, lenify=True)
    up = X(fi, sl.upper, lenify=True)
    body_txt = '; '.join(u(x) for x in loop.body)[:200]
    ups = ['%s + len(%s)' % (LOW, vt), 'len(%s) + %s' % (vt, LOW)]
    v = classify(up, ups, scope={LOW} | names_loaded(X(fi, V)))
    ck.decide(v, 'C15.D3.fill', mod, st, F, body_txt, 'window = [start, start + len(row))',
              'the concatenated buffer must be filled with running offsets (end = start + len(node); concat[start:end] = node; start = end)')
    inloop = [s for s in assigns_to(loop, LOW)]
    if len(inloop) != 1:
        if not inloop:
            ck.bad('C15.D3.fill', mod, st, F, body_txt, 'the running offset %s is never advanced inside the fill loop: every row is written to the same window' % LOW)
        else:
            ck.missing('C15.D3.fill', 'single advance of the running offset %s in the fill loop (found %d)' % (LOW, len(inloop)))
    else:
        adv = inloop[0]
        if isinstance(adv, ast.Assign):
            at = T(fi, adv.value, lenify=True)
            okv = at == u(up) or at in [C(x) for x in ups]
            scope = {LOW} | names_loaded(X(fi, V))
            v = ('match', {}) if okv else classify(X(fi, adv.value, lenify=True), ups, scope=scope)
        elif isinstance(adv, ast.AugAssign) and isinstance(adv.op, ast.Add):
            okv = T(fi, adv.value, lenify=True) == C('len(%s)' % vt)
            v = ('match', {}) if okv else classify(X(fi, adv.value, lenify=True), ['len(%s)' % vt], scope=names_loaded(X(fi, V)))
        else:
            v = ('far', 1, None)
        ck.decide(v, 'C15.D3.fill', mod, adv, F, u(adv), 'start advances to the end of the window just written',
                  'after each row the running offset must advance by the length of that row (start = end)')
        ck.check(fi.cfg.dominates(st, adv), 'C15.D3.fill', mod, adv, F, 'store before advance', 'the row is stored before the offset advances',
                 'the offset is advanced before the row is stored: the window no longer starts where the previous row ended')
        outer = [d for d in fi.rd.defs_at(loop, LOW) if d is not adv]
        ok = len(outer) == 1 and isinstance(outer[0], ast.AST) and const_value(fi.def_value(outer[0], LOW)) == 0 and \
            not isinstance(const_value(fi.def_value(outer[0], LOW)), bool)
        ck.check(ok, 'C15.D3.fill', mod, outer[0] if outer and isinstance(outer[0], ast.AST) else loop, F,
                 '; '.join(u(d) if isinstance(d, ast.AST) else str(d) for d in outer) or 'initial offset', 'start initialised to 0',
                 'the running offset must start at 0 before the fill loop')
    check_warn_calls(ck, 'C15.D5.warn-wellformed', mod, [('load', fn)])
    # old-style / single-key paths keep the stride
    for x in returns_of(fn):
        if x is ret or x.value is None:
            continue
        if strided(resolve(fi, x.value)):
            ck.ok('C15.D2.stride-data', mod, x, u(x.value), 'legacy paths apply the stride')


def _load_exits(ck, mod, fi, fn, main, KEYS, STRIDE):
    """Every way out of ra.load with a value, other than the RaggedArray built
    from the filled buffer, is one of the three the property allows: the two
    old-style layouts (only when the caller passed keys=None) and the node of
    the ONE requested key as a plain array (only when exactly one key is
    requested).  That the stride is applied is decided by
    C15.D2.stride-data.every-path; here: WHICH stored object comes back under
    WHICH condition.  A one-row exit whose guard admits requests of several
    rows is a VIOLATION, an exit the rule cannot relate to the stored nodes is
    INCOMPLETE."""
    rule = 'C15.D3.exits'
    F = 'load'
    legacy = ["RaggedArray(array=_H.get_node(where='/', name='array'), lengths=_H.get_node(where='/', name='lengths'))",
              "_H.get_node(where='/', name='arr_0')"]
    n = 0
    for x in returns_of(fn):
        if x is main:
            continue
        n += 1
        txt = u(x)[:120]
        at = '%s:%s' % (mod.rel, getattr(x, 'lineno', '?'))
        if x.value is None:
            ck.missing(rule, 'an exit of ra.load without a value: `%s` (%s)' % (txt, at))
            continue
        t = X(fi, x.value, stop=(KEYS, STRIDE), pure=False)
        body = t
        if isinstance(t, ast.Subscript) and isinstance(t.slice, ast.Slice) and t.slice.upper is None and \
                (t.slice.lower is None or const_value(t.slice.lower) == 0):
            body = t.value                                   # the stride itself: C15.D2.stride-data.every-path
        guards = guards_of(fi, x)
        if any(match(p, body) is not None for p in legacy):
            ok = guarded_by(guards, lambda c: c.op is ast.Is and ((u(c.lhs) == KEYS and const_value(c.rhs, 0) is None) or
                                                                  (u(c.rhs) == KEYS and const_value(c.lhs, 0) is None)))
            if ok:
                ck.ok(rule, mod, x, txt, 'old-style layout, returned only under `%s is None`' % KEYS)
            else:
                ck.missing(rule, 'under which condition ra.load returns the old-style layout `%s` (%s): no dominating `%s is None`' % (txt, at, KEYS))
            continue
        b = match("_H.get_node(where='/', name=%s[_J])" % KEYS, body)
        if b is not None and const_value(b['_J']) in (0, -1) and not isinstance(const_value(b['_J']), bool):
            admits = _len_guard_admits(guards, KEYS)
            if admits is None:
                ck.missing(rule, 'under which condition ra.load returns the single node `%s` (%s): no dominating comparison of len(%s) with a constant' % (txt, at, KEYS))
            elif admits - {0, 1}:
                ck.bad(rule, mod, x, F, 'rows covered by the one-node exit `%s`' % txt,
                       'this exit returns the node of %s[%s] alone, but its guard admits requests of %s keys: the other rows (and the row '
                       'lengths) are dropped - loading a subset of rows no longer equals slicing the full load' % (KEYS, u(b['_J']), sorted(admits - {0, 1})[:3]))
            else:
                ck.ok(rule, mod, x, txt, 'the one requested row as a plain array, only when exactly one key is requested')
            continue
        ck.missing(rule, 'an exit of ra.load the rule cannot relate to the stored nodes: `%s` (%s)' % (txt, at))
    if n == 0:
        ck.ok(rule, mod, main, 'exits of ra.load', 'the only way out with a value is the RaggedArray built from the filled buffer')


_TO_NDARRAY = ('np.array', 'np.asarray', 'np.asanyarray', 'numpy.array', 'numpy.asarray')
_PY_SCALAR_FUNCS = {'int', 'len', 'round', 'bool', 'float', 'abs', 'divmod', 'math.ceil', 'math.floor', 'math.trunc', 'operator.index'}
_NP_SCALAR_FUNCS = {'np.ceil', 'np.floor', 'np.int64', 'np.int32', 'np.intp', 'np.int_', 'np.uint64', 'np.floor_divide', 'np.add',
                    'np.subtract', 'np.true_divide', 'np.divide', 'np.rint', 'np.trunc'}


def scalar_kind(e, is_np_leaf):
    """Which kind of scalar object an arithmetic expression evaluates to:
    'np' (a numpy scalar: any arithmetic with a numpy scalar operand gives
    one, comparisons give np.bool_), 'py' (a plain Python int / float / bool:
    literals, int(), len(), math.ceil(), round(), arithmetic of such), or
    None (unknown: a parameter, a call the table does not list).
    `is_np_leaf(node)` tells which leaves are known numpy scalars."""
    if is_np_leaf(e):
        return 'np'
    if isinstance(e, ast.Constant):
        return 'py' if isinstance(e.value, (int, float, bool)) else None
    if isinstance(e, ast.BinOp):
        a, b = scalar_kind(e.left, is_np_leaf), scalar_kind(e.right, is_np_leaf)
        if 'np' in (a, b):
            return 'np'
        return 'py' if a == b == 'py' else None
    if isinstance(e, ast.UnaryOp):
        if isinstance(e.op, ast.Not):
            return 'py'
        return scalar_kind(e.operand, is_np_leaf)
    if isinstance(e, ast.Compare) and len(e.ops) == 1 and not isinstance(e.ops[0], (ast.In, ast.NotIn, ast.Is, ast.IsNot)):
        a, b = scalar_kind(e.left, is_np_leaf), scalar_kind(e.comparators[0], is_np_leaf)
        if 'np' in (a, b):
            return 'np'
        return 'py' if a == b == 'py' else None
    if isinstance(e, ast.IfExp):
        a, b = scalar_kind(e.body, is_np_leaf), scalar_kind(e.orelse, is_np_leaf)
        return a if a == b else None
    if isinstance(e, ast.Call):
        cn = call_name(e) or ''
        if cn in _PY_SCALAR_FUNCS:
            return 'py'
        if cn in _NP_SCALAR_FUNCS or cn.replace('numpy.', 'np.') in _NP_SCALAR_FUNCS:
            return 'np'
    return None


def _ctor_compares_raw_lengths(mod):
    """RaggedArray.__init__ decides between the rectangular row view (typed
    block) and the partitioned one (object array) by an equality test between
    its `lengths` argument and the first entry of it.  Returns (test node,
    True) when that test reads the argument AS GIVEN (some reaching definition
    of the compared name is the parameter itself, not an ndarray conversion),
    (test node, False) when every reaching definition is np.asarray/np.array
    of it, (None, None) when the constructor has no such test."""
    fn = mod.functions.get('RaggedArray.__init__')
    if fn is None:
        return None, None
    ps = params(fn)
    L = 'lengths' if 'lengths' in ps else (ps[2] if len(ps) > 2 else None)
    if L is None:
        return None, None
    fi = finfo(mod, fn)
    for n in walk_local(fn):
        if not (isinstance(n, ast.Compare) and len(n.ops) == 1 and isinstance(n.ops[0], (ast.Eq, ast.NotEq))):
            continue
        a, b = n.left, n.comparators[0]
        for whole, first in ((a, b), (b, a)):
            if isinstance(whole, ast.Name) and isinstance(first, ast.Subscript) and isinstance(first.value, ast.Name) and \
                    first.value.id == whole.id and const_value(first.slice, None) == 0:
                try:
                    defs = fi.defs_of_use(whole)
                except Exception:
                    return n, True
                if whole.id != L and not any(L in names_loaded(fi.def_value(d, whole.id)) for d in defs
                                             if isinstance(d, ast.AST) and fi.def_value(d, whole.id) is not None):
                    continue
                raw = False
                for d in defs:
                    v = fi.def_value(d, whole.id) if isinstance(d, ast.AST) else None
                    if not (isinstance(v, ast.Call) and call_name(v) in _TO_NDARRAY):
                        raw = True
                return n, raw
    return None, None


def _lengths_element_type(ck, mod, fi, lsite, elt, tgt, n_ok, as_array):
    """The KIND of number the row lengths are matters to the constructor the
    loaded data are wrapped in: `lengths == lengths[0]` on a plain list is
    elementwise only when lengths[0] is a numpy scalar (numpy's reflected
    comparison); for a list of Python ints it is `list == int` -> False, the
    equal-length case falls through to the object-array row view and rows
    (and row selections) of the loaded array come back with dtype object
    instead of the stored element type.  Entries of a PyTables node's
    `.shape` are numpy integers (tables.utils.SizeType = np.int64); integer
    arithmetic keeps that, math.ceil / int / len give Python ints."""
    rule = 'C15.D2.stride-lengths.element-type'
    F = 'load'
    what = 'kind of number of the row lengths handed to RaggedArray'
    test, raw = _ctor_compares_raw_lengths(mod)
    if test is None:
        ck.ok(rule, mod, lsite, what, 'RaggedArray.__init__ has no equal-lengths test on its lengths argument')
        return
    if not raw:
        ck.ok(rule, mod, lsite, what, 'RaggedArray.__init__ converts lengths to an ndarray before its equal-lengths test')
        return
    if as_array is not None:
        ck.ok(rule, mod, lsite, what, 'the lengths are handed over as an ndarray (%s)' % as_array)
        return
    t = tgt.id if isinstance(tgt, ast.Name) else None

    def np_leaf(e):
        if n_ok == 'shape' and t is not None and isinstance(e, ast.Subscript) and isinstance(e.value, ast.Name) and e.value.id == t \
                and isinstance(const_value(e.slice, None), int):
            return True                     # an entry of <node>.shape
        return match("_H.get_node(where='/', name=_K).shape[_I]", e) is not None
    k = scalar_kind(elt, np_leaf)
    if k == 'np':
        ck.ok(rule, mod, lsite, what, 'numpy integers (integer arithmetic on an entry of <node>.shape): `lengths == lengths[0]` in the constructor is elementwise')
    elif k == 'py':
        ck.bad(rule, mod, lsite, F, what,
               'the row lengths `%s` are plain Python ints, handed to RaggedArray as a list.  RaggedArray.__init__ (%s:%s) chooses the typed '
               'rectangular row view by `%s` on the argument as given: list == int is a single False, so whenever all (strided) rows have the '
               'same length the rows are rebuilt as an object array - b[i] and every row selection of the loaded array come back with dtype '
               'object instead of the stored element type.  Keep the lengths numpy integers (integer arithmetic on shape[0]: '
               '(shape[0] + stride - 1) // stride) or hand them over as an ndarray' % (u(elt)[:80], mod.rel, getattr(test, 'lineno', '?'), u(test)))
    else:
        ck.missing(rule, 'whether the row lengths `%s` of ra.load are numpy integers or Python ints (RaggedArray.__init__ compares '
                   '`%s` on the list as given)' % (u(elt)[:80], u(test)))


def _quantified_mismatch(test, fi=None):
    """`not all(a == b for t in it)` / `any(a != b for t in it)` (list or
    generator) -> (Cmp a != b, target, iter): the test is true iff some
    element violates the equality.  With `fi` a sequence that was itself
    gathered by a comprehension is fused into the quantifier (fuse_comp)."""
    pol = True
    for _ in range(6):
        while isinstance(test, ast.UnaryOp) and isinstance(test.op, ast.Not):
            test, pol = test.operand, not pol
        # a boolean temporary (`agree = all([...])` ... `if not agree:`) stands for the quantifier it was bound to
        v = _temp(fi, test, need_pure=False) if fi is not None and isinstance(test, ast.Name) else None
        if v is None:
            break
        test = v
    if not (isinstance(test, ast.Call) and isinstance(test.func, ast.Name) and test.func.id in ('all', 'any') and len(test.args) == 1):
        return None
    seq = test.args[0]
    if fi is not None and isinstance(seq, ast.Name):
        seq = _temp(fi, seq, need_pure=False) or seq        # the list of element-wise verdicts, gathered first
    sc = single_comp(seq)
    if sc is not None and fi is not None:
        sc = fuse_comp(fi, sc)
    if sc is None or sc[3]:
        return None
    elt, tgt, it, _ = sc
    cs = conjuncts(elt, True)
    if not cs or len(cs) != 1 or not isinstance(cs[0], Cmp):
        return None
    c = cs[0]
    if test.func.id == 'all':
        if pol:
            return None            # raises when everything is equal
        c = c.negated()
    elif not pol:
        return None
    if c.op is not ast.NotEq:
        return None
    return c, tgt, it


# ---------------------------------------------------------------------------
# D2: sound_trajectory

def d_sound(ck, mod):
    F = 'sound_trajectory'
    fn = mod.func(F)
    ck.analysed(mod, fn)
    fi = finfo(mod, fn)
    ps = params(fn)
    if len(ps) < 2:
        ck.missing('C15.D2.stride-lengths', 'sound_trajectory(trj, stride, ...) signature')
        return
    TRJ, STRIDE = ps[0], ps[1]
    handles = set()
    for w in walk_local(fn):
        if isinstance(w, ast.With):
            for it in w.items:
                if isinstance(it.optional_vars, ast.Name) and isinstance(it.context_expr, ast.Call) and \
                        call_name(it.context_expr) == 'md.open' and it.context_expr.args and u(it.context_expr.args[0]) == TRJ:
                    handles.add(it.optional_vars.id)
    r = [x for x in returns_of(fn) if x.value is not None]
    if len(r) != 1:
        ck.missing('C15.D2.stride-lengths', 'single return of sound_trajectory')
        return
    t = X(fi, r[0].value)
    v = ceil_div(t, STRIDE, handles | {TRJ})
    if v[0] == 'match':
        b = match('len(_F)', v[1]['_N'])
        if not (b is not None and u(b['_F']) in handles):
            v = classify(v[1]['_N'], ['len(%s)' % h for h in sorted(handles)], scope=handles | {TRJ})
            if v[0] == 'match':
                v = ('far', 1, None)
    ck.decide(v, 'C15.D2.stride-lengths', mod, r[0], F, 'return %s' % u(t), 'sounded length = ceil(n_frames / stride)',
              'sound_trajectory must return ceil(n_frames / stride) with n_frames = len(<opened trajectory>)')


# ---------------------------------------------------------------------------
# D3: load_as_concatenated and its worker

MAPS_ORDERED = ('map_async', 'map', 'imap', 'starmap', 'starmap_async')
MAPS = MAPS_ORDERED + ('imap_unordered',)
WORKER = '_load_to_position'


def _view_of(fi, e, shape_name=None):
    """`_tonumpyarray(<sa>).reshape(<shape>)` / `np.reshape(_tonumpyarray(<sa>), <shape>)` -> (sa text, shape text)."""
    t = X(fi, resolve(fi, e))
    b = match('_tonumpyarray(_SA).reshape(_SH)', t) or match('np.reshape(_tonumpyarray(_SA), _SH)', t) or \
        match('_tonumpyarray(_SA).reshape(*_SH)', t)
    if b is None:
        return None
    return u(b['_SA']), u(b['_SH'])


def _sounding_jobs(fi, call, sounder, snd_fn):
    """The (trajectory, stride) pairs a pool call sounds, as ONE canonical
    list comprehension `[(<file>, <stride>) for ... in ... if ...]`:
      pool.starmap(sound_trajectory, [(f, s) for ...])            as written;
      pool.map(sound_trajectory, [f for ...])                      stride = the default of sound_trajectory;
      pool.map(partial(sound_trajectory, stride=S), [f for ...])   stride = S, evaluated once outside the comprehension.
    None when the call has another shape (starred arguments, a partial that
    binds the trajectory, an unordered / lazy map, a name of the comprehension
    that would capture a name of S)."""
    if len(call.args) != 2 or call.keywords:
        return None
    kind = call.func.attr
    seq = X(fi, call.args[1])
    sc = single_comp(seq)
    if sc is None or not isinstance(seq, ast.ListComp):
        return None
    sps = params(snd_fn)
    if len(sps) < 2:
        return None
    if isinstance(sounder, ast.Name):
        if kind == 'starmap':
            return seq
        bound = {}
    else:
        if len(sounder.args) != 1 or any(k.arg is None for k in sounder.keywords):
            return None
        bound = {k.arg: k.value for k in sounder.keywords}
    if kind != 'map' or set(bound) - {sps[1]}:
        return None
    if sps[1] in bound:
        S = X(fi, bound[sps[1]])
        if names_loaded(S) & set(target_names(sc[1])):
            return None
    else:
        from ..core import param_default
        S = param_default(snd_fn, sps[1])
        if S is None or not isinstance(S, ast.Constant):
            return None
        S = copy.deepcopy(S)
    out = copy.deepcopy(seq)
    out.elt = ast.Tuple(elts=[out.elt, S], ctx=ast.Load())
    ast.fix_missing_locations(out)
    return canon(out)


_LIST_GROWERS = ('append', 'extend', 'insert', 'appendleft', 'add', 'put', 'put_nowait')


def _sounding_order(ck, mod, fi, fn, F, L, sounder_of):
    """`lengths[i]` is the length of file i: however the sounder is handed to
    a pool, its results must be gathered in SUBMISSION order.  Two ways of
    gathering are in completion order - which worker finishes first - and are
    recognised here for every pool submission of the sounder:
      * `imap_unordered`;
      * one `apply_async(..., callback=<list>.append)` per file (inside a loop
        or a comprehension): the pool's result thread runs the callbacks as
        the results arrive; the sounder returns a bare length, so the file a
        result belongs to cannot be recovered from the list afterwards.
    Anything else (apply_async + `.get()` in order, an executor ...) is left
    to the recognition of the sounding jobs (incomplete when unknown)."""
    rule = 'C15.D3.parallel.sounding-order'
    why = ('the sounded lengths must come back in file order whatever worker finishes first: `lengths[i]` sizes and positions '
           'file i (offset = sum(lengths[:i])), and the total-frames check cannot see a permutation')
    for c2 in calls_in(fn):
        if not (isinstance(c2.func, ast.Attribute) and sounder_of(c2) is not None):
            continue
        kind = c2.func.attr
        if kind == 'imap_unordered':
            ck.bad(rule, mod, c2, F, 'pool.imap_unordered(sound_trajectory, ...)', 'imap_unordered yields the lengths in completion order. ' + why)
            continue
        if kind in MAPS_ORDERED:
            ck.ok(rule, mod, c2, 'pool.%s(sound_trajectory, ...)' % kind, 'order-preserving pool call')
            continue
        if kind != 'apply_async':
            continue
        cb = kwarg(c2, 'callback')
        if cb is None and len(c2.args) >= 4 and not any(isinstance(a, ast.Starred) for a in c2.args[:4]):
            cb = c2.args[3]
        if cb is None or (isinstance(cb, ast.Constant) and cb.value is None):
            continue
        cbr = resolve(fi, cb)
        many = enclosing(mod, c2, (ast.For, ast.While) + _COMPS) is not None
        if not (isinstance(cbr, ast.Attribute) and cbr.attr in _LIST_GROWERS and isinstance(cbr.value, ast.Name)) or not many:
            ck.missing(rule, 'what the callback of apply_async(sound_trajectory, ...) does with the result: %s' % u(cb)[:80])
            continue
        N = cbr.value.id
        flows = N == L
        if not flows:
            for s in assigns_to(fn, L):
                val = s.value if isinstance(s, (ast.Assign, ast.AnnAssign, ast.AugAssign)) else None
                if val is not None and _depends_on(fi, val, N):
                    flows = True
        if flows:
            ck.bad(rule, mod, c2, F, 'pool.apply_async(sound_trajectory, ..., callback=%s) per file' % u(cbr),
                   'the callbacks of the per-file tasks grow `%s` in COMPLETION order (the pool runs a callback when its task finishes), and `%s` '
                   'becomes the lengths. ' % (N, N) + why)
        else:
            ck.missing(rule, 'where the results collected by callback=%s go' % u(cbr))


def d_concat(ck, mod):
    rule = 'C15.D3.parallel'
    F = 'load_as_concatenated'
    fn = mod.func(F)
    ck.analysed(mod, fn)
    fi = finfo(mod, fn)
    ps = params(fn)
    if len(ps) < 4:
        ck.missing(rule, 'load_as_concatenated(filenames, lengths, processes, args, ...) signature')
        return
    FN, L, ARGS = ps[0], ps[1], ps[3]

    # --- buffer sized from lengths
    sa = [c for c in calls_in(fn) if tail(c) == 'shared_array_like_trj']
    FS = SA = None
    Lbuf = None
    if len(sa) != 1:
        ck.missing(rule + '.buffer', 'call of shared_array_like_trj in load_as_concatenated (found %d)' % len(sa))
    else:
        a0 = callargs(sa[0]).get('lengths')
        ok = isinstance(a0, ast.Name) and a0.id == L
        ck.check(ok, rule + '.buffer', mod, sa[0], F, u(sa[0])[:120], 'shared buffer sized from lengths', 'the shared buffer must be sized from `lengths`')
        Lbuf = a0 if ok else None
        s0 = fi.stmt(sa[0])
        if isinstance(s0, ast.Assign) and isinstance(s0.targets[0], ast.Tuple) and len(s0.targets[0].elts) == 2 and \
                all(isinstance(e, ast.Name) for e in s0.targets[0].elts):
            FS, SA = (e.id for e in s0.targets[0].elts)
        else:
            ck.missing(rule + '.buffer', '`full_shape, shared_array = shared_array_like_trj(...)`')
    fs = ck.repo.mod(LO).func('shared_array_like_trj')
    ck.analysed(mod, fs)
    fsi = finfo(mod, fs)
    fps = params(fs)
    rr = [x for x in returns_of(fs) if x.value is not None]
    if len(rr) != 1 or not (isinstance(rr[0].value, ast.Tuple) and len(rr[0].value.elts) == 2) or len(fps) < 2:
        ck.missing(rule + '.buffer', 'shared_array_like_trj returning (full_shape, shared_array)')
    else:
        sh = X(fsi, rr[0].value.elts[0])
        forms = ['(sum(%s), %s.xyz.shape[1], %s.xyz.shape[2])' % (fps[0], fps[1], fps[1]), '(sum(%s),) + %s.xyz.shape[1:]' % (fps[0], fps[1]),
                 '(sum(%s), *%s.xyz.shape[1:])' % (fps[0], fps[1])]
        v = classify(sh, forms, scope={fps[0], fps[1]})
        ck.decide(v, rule + '.buffer', mod, rr[0], 'shared_array_like_trj', 'full_shape = %s' % u(sh), 'first dimension = sum of lengths',
                  'full_shape must be (sum(lengths), n_atoms, 3)')
        # the array allocated has that many elements
        sav = resolve(fsi, rr[0].value.elts[1])
        if isinstance(sav, ast.Call) and call_name(sav) == 'mp.Array' and len(sav.args) >= 2:
            n = X(fsi, sav.args[1])
            fsn = rr[0].value.elts[0]
            shape_txts = {u(sh)} | ({fsn.id} if isinstance(fsn, ast.Name) else set())
            ok = any(match(p, n) is not None and u(match(p, n)['_F']) in shape_txts for p in ('reduce(mul, _F, 1)', 'reduce(mul, _F)', 'int(np.prod(_F))', 'math.prod(_F)'))
            ok = ok or any(u(n) == C(p % u(fsn)) for p in ('reduce(mul, %s, 1)', 'reduce(mul, %s)', 'int(np.prod(%s))', 'math.prod(%s)'))
            if ok:
                ck.ok(rule + '.buffer', mod, sav, u(sav)[:120], 'shared array holds prod(full_shape) elements')
            else:
                ck.missing(rule + '.buffer', 'size of the shared mp.Array not recognised: %s' % u(n)[:120])
        else:
            ck.missing(rule + '.buffer', 'allocation of the shared array (mp.Array) in shared_array_like_trj')

    # --- the pool map of the worker
    def worker_of(c):
        if not c.args:
            return None
        f = resolve(fi, c.args[0])
        if isinstance(f, ast.Name) and f.id == WORKER:
            return f
        if isinstance(f, ast.Call) and tail(f) == 'partial' and f.args and isinstance(f.args[0], ast.Name) and f.args[0].id == WORKER:
            return f
        return None
    ma = [c for c in calls_in(fn) if isinstance(c.func, ast.Attribute) and c.func.attr in MAPS and worker_of(c) is not None]
    if len(ma) != 1:
        ck.missing(rule, 'pool map of %s (found %d)' % (WORKER, len(ma)))
        return
    c = ma[0]
    ck.check(c.func.attr in MAPS_ORDERED, rule + '.ordered', mod, c, F, 'p.%s(...)' % c.func.attr,
             'worker results are collected in submission (file) order',
             'results must be gathered with an order-preserving map: imap_unordered returns them in completion order, which depends on the schedule')
    wf = worker_of(c)
    if isinstance(wf, ast.Call) and FS is not None:
        ck.check(u(kwarg(wf, 'arr_shape')) == FS, rule + '.window', mod, wf, F, u(wf), 'workers view the buffer with its full shape',
                 'the worker must reshape the shared buffer to full_shape (arr_shape=full_shape)')
    z = resolve(fi, c.args[1]) if len(c.args) > 1 else None
    while isinstance(z, ast.Call) and call_name(z) in ('list', 'tuple') and len(z.args) == 1 and not z.keywords:
        z = resolve(fi, z.args[0])          # a materialised zip is the same sequence
    idx = None
    if isinstance(z, ast.Call) and call_name(z) == 'zip' and len(z.args) == 3 and not z.keywords:
        roles = []
        for x in z.args:
            roles.append('fn' if (isinstance(x, ast.Name) and x.id == FN) else 'args' if (isinstance(x, ast.Name) and x.id == ARGS) else 'off')
        if sorted(roles) == ['args', 'fn', 'off']:
            idx = {r: i for i, r in enumerate(roles)}
    if idx is None:
        ck.missing(rule + '.offsets', 'worker specs are not zip(<offsets>, filenames, args): %s' % (u(z)[:160] if z is not None else '?'))
        off_names = []
    else:
        off = z.args[idx['off']]
        offr = resolve(fi, off)
        t = X(fi, off, stop=(L,))
        forms = ['[sum(%s[0:_I]) for _I in range(len(%s))]' % (L, L), '[sum(%s[:_I]) for _I in range(len(%s))]' % (L, L),
                 '[sum(%s[0:_I]) for _I in range(0, len(%s))]' % (L, L), '[sum(%s[:_I]) for _I in range(0, len(%s))]' % (L, L),
                 '[0] + list(np.cumsum(%s)[:-1])' % L, '[0] + list(np.cumsum(%s[:-1]))' % L, 'np.concatenate(([0], np.cumsum(%s)[:-1]))' % L,
                 'np.cumsum([0] + %s[:-1])' % L, 'np.cumsum([0] + list(%s[:-1]))' % L, 'np.cumsum(%s) - %s' % (L, L),
                 'list(itertools.accumulate([0] + %s[:-1]))' % L]
        v = classify(t, forms, scope={L})
        ck.decide(v, rule + '.offsets', mod, c, F, 'zip(%s, ...)' % u(t)[:160],
                  'offset of file i = sum of the lengths before i (exclusive prefix sum), zipped with files and args in order',
                  'per-file offsets must be [sum(lengths[0:i]) for i in range(len(lengths))] zipped with (filenames, args): an inclusive sum or '
                  'another lengths list shifts every window')
        off_names = [x for x in ast.walk(offr) if isinstance(x, ast.Name) and x.id == L]
    # --- same lengths definition for buffer, offsets and return
    # the exits: the MAIN one returns (lengths, view of the shared buffer); every other way out with a
    # value is enumerated by _other_exits (a fast path must return what the main path would)
    rets = list(returns_of(fn))
    r, others = [], []
    for x in rets:
        rt = resolve(fi, x.value) if x.value is not None else None
        pair = isinstance(rt, ast.Tuple) and len(rt.elts) == 2
        if pair and (len(rets) == 1 or _view_of(fi, rt.elts[1]) is not None):
            r.append(x)
        else:
            others.append((x, rt))
    if not r:
        ck.missing(rule + '.lengths', 'the `return <lengths>, <view of the shared buffer>` of load_as_concatenated')
    for ret in r:
        rt = resolve(fi, ret.value)
        rl = rt.elts[0]
        if isinstance(rl, ast.Name) and rl.id == L:
            ck.ok(rule + '.lengths', mod, ret, u(ret), 'returns (lengths, xyz)')
            if Lbuf is not None:
                ok = fi.same_value(Lbuf, rl) and all(fi.same_value(Lbuf, x) for x in off_names)
                ck.check(ok, rule + '.lengths', mod, ret, F, 'lengths at buffer / offsets / return',
                         'one definition of lengths sizes the buffer, positions the files and is returned',
                         'the returned lengths are not the value that sized the buffer and positioned the files (e.g. rebuilt from worker '
                         'results): they need not be in file order')
        elif L in names_loaded(X(fi, rl)):
            ck.missing(rule + '.lengths', 'returned lengths are derived from `%s` in a way the rule does not follow: %s' % (L, u(rl)[:120]))
        else:
            ck.bad(rule + '.lengths', mod, ret, F, u(ret), 'load_as_concatenated must return (lengths, xyz) with the lengths that positioned the data: '
                   'the returned lengths are not the value that sized the buffer and positioned the files (e.g. rebuilt from worker '
                   'results): they need not be in file order')
        if FS is not None and SA is not None:
            vw = _view_of(fi, rt.elts[1])
            if vw is None:
                ck.missing(rule + '.lengths', 'returned coordinates are not the reshaped shared buffer: %s' % u(resolve(fi, rt.elts[1]))[:120])
            else:
                ck.check(vw == (SA, FS), rule + '.lengths', mod, ret, F, 'xyz = view of %s with shape %s' % vw, 'the shared buffer is returned with its full shape',
                         'the returned array must be the shared buffer reshaped to full_shape')
    _other_exits(ck, mod, fi, fn, others, FN, ARGS, z.args[idx['args']] if idx is not None else None, guards_of(fi, fi.stmt(c)))
    # --- total check
    results = set()
    for s in walk_local(fn):
        if isinstance(s, ast.Assign) and len(s.targets) == 1 and isinstance(s.targets[0], ast.Name):
            v0 = s.value
            if v0 is c and c.func.attr in ('map', 'starmap'):
                results.add(s.targets[0].id)
            elif isinstance(v0, ast.Call) and isinstance(v0.func, ast.Attribute) and v0.func.attr == 'get' and not v0.args and \
                    resolve(fi, v0.func.value) is c and c.func.attr in ('map_async', 'starmap_async'):
                results.add(s.targets[0].id)
            elif isinstance(v0, ast.Call) and call_name(v0) == 'list' and len(v0.args) == 1 and resolve(fi, v0.args[0]) is c and \
                    c.func.attr in ('imap', 'imap_unordered'):
                results.add(s.targets[0].id)
    stop_r = tuple(results)
    cands = []
    for n in walk_local(fn):
        if isinstance(n, ast.If) and any(isinstance(x, ast.Raise) for x in n.body):
            names = names_loaded(X(fi, n.test, stop=stop_r))
            if (names & results) and FS is not None and (FS in names or L in names):
                cands.append(n)
    if FS is None:
        pass
    elif not results:
        ck.missing(rule + '.total-check', 'the worker results (<map>.get()) are not bound to a name')
    elif not cands:
        ck.bad(rule + '.total-check', mod, c, F, 'total check', 'the total-frames check is missing: the number of frames actually written (sum of the worker '
               'results) must be compared with full_shape[0] and a mismatch must raise')
    else:
        chk = cands[0]
        forms = []
        for R in sorted(results):
            for tot in ('%s[0]' % FS, 'sum(%s)' % L):
                for s_ in ('sum((_S[0] for _S in %s))' % R, 'sum([_S[0] for _S in %s])' % R):
                    forms += ['%s != %s' % (s_, tot), '%s != %s' % (tot, s_)]
        tt = norm_test(X(fi, chk.test, stop=stop_r))
        v = classify(tt, forms, scope=results | {FS, L})
        ck.decide(v, rule + '.total-check', mod, chk, F, u(tt), 'the number of frames actually written must equal the buffer length, else raise',
                  'the total-frames check must compare the sum of loaded shapes with full_shape[0] and raise on mismatch')
        for ret in r:
            ck.check(fi.cfg.dominates(chk, ret), rule + '.total-check', mod, chk, F, 'check before return', 'check precedes the return', 'the total check must precede the return')
    # --- worker: writes only its window
    _worker(ck, mod, rule, idx)
    # --- single-frame files: a length of 1 is inserted at the FILE index
    ins = [c2 for c2 in calls_in(fn) if isinstance(c2.func, ast.Attribute) and c2.func.attr == 'insert' and u(c2.func.value) == L]
    for c2 in ins:
        loop = enclosing(mod, fi.stmt(c2), (ast.For,))
        if loop is None or len(c2.args) != 2:
            ck.missing(rule + '.frame-insert', 'loop around %s' % u(c2))
            continue
        txt = 'for %s in %s: ... %s' % (u(loop.target), u(loop.iter), u(c2))
        why = ('lengths.insert(i, 1) must use the index of the file in `args` (enumerate(args) with the frame test inside the '
               'loop): enumerating only the frame entries gives positions in the filtered list, so the 1s land at the front and '
               'every offset after them is wrong')
        it_t = X(fi, loop.iter)
        v = classify(it_t, ['enumerate(%s)' % ARGS, 'enumerate(%s, 0)' % ARGS, 'enumerate(%s, start=0)' % ARGS,
                            'range(len(%s))' % ARGS, 'range(0, len(%s))' % ARGS, 'range(0, len(%s), 1)' % ARGS], scope={ARGS})
        if v[0] != 'match':
            ck.decide(v, rule + '.frame-insert', mod, c2, F, txt, '', why)
            continue
        if isinstance(it_t, ast.Call) and call_name(it_t) == 'enumerate':
            if not (isinstance(loop.target, ast.Tuple) and len(loop.target.elts) == 2 and all(isinstance(e, ast.Name) for e in loop.target.elts)):
                ck.missing(rule + '.frame-insert', 'loop target (i, kw) of %s' % txt)
                continue
            I, KW = (e.id for e in loop.target.elts)
            elems = {KW, C('%s[%s]' % (ARGS, I))}
        else:                                  # index loop: the file's kwargs are args[i]
            if not isinstance(loop.target, ast.Name):
                ck.missing(rule + '.frame-insert', 'loop target i of %s' % txt)
                continue
            I = loop.target.id
            elems = {C('%s[%s]' % (ARGS, I))}
        ok = T(fi, c2.args[0]) == I and const_value(c2.args[1]) == 1 and const_value(c2.args[1]) is not True
        ok = ok and guarded_by(guards_of(fi, fi.stmt(c2), within=loop), lambda q: q.op is ast.In and const_value(q.lhs) == 'frame' and T(fi, q.rhs) in elems)
        ck.check(ok, rule + '.frame-insert', mod, c2, F, txt, 'the length 1 of a single-frame file is inserted at that file\'s index in the file list', why)
    # --- sounding uses each file's own stride
    SND = 'sound_trajectory'

    def sounder_of(c2):
        """the function mapped by a pool call, when it is sound_trajectory or a partial of it"""
        if not c2.args:
            return None
        f = resolve(fi, c2.args[0])
        if isinstance(f, ast.Name) and f.id == SND:
            return f
        if isinstance(f, ast.Call) and tail(f) == 'partial' and f.args and isinstance(f.args[0], ast.Name) and f.args[0].id == SND:
            return f
        return None
    _sounding_order(ck, mod, fi, fn, F, L, sounder_of)
    sm = [c2 for c2 in calls_in(fn) if isinstance(c2.func, ast.Attribute) and c2.func.attr in MAPS and sounder_of(c2) is not None]
    jobs = _sounding_jobs(fi, sm[0], sounder_of(sm[0]), ck.repo.mod(LO).func(SND)) if len(sm) == 1 else None
    if jobs is None:
        ck.missing('C15.D2.stride-lengths', 'pool.starmap(sound_trajectory, ...) in load_as_concatenated')
    else:
        t = jobs
        strides = ["_K.get('stride', 1)", "_K['stride'] if 'stride' in _K else 1", "1 if 'stride' not in _K else _K['stride']"]
        forms = []
        for st_ in strides:
            forms += ["[(_F, %s) for _F, _K in zip(%s, %s) if 'frame' not in _K]" % (st_, FN, ARGS),
                      "[(_F, %s) for (_F, _K) in zip(%s, %s) if not 'frame' in _K]" % (st_, FN, ARGS)]
        v = classify(t, forms, scope={FN, ARGS})
        ck.decide(v, 'C15.D2.stride-lengths', mod, sm[0], F, u(t)[:200], 'lengths sounded with each file\'s own stride, in file order, single-frame files left out',
                  'sounding must pass each file\'s own stride (kw.get(\'stride\', 1)) for the files of zip(filenames, args) without a `frame` argument: '
                  'the workers load file i with args[i], so a length sounded with another stride (one shared stride, the default 1) gives wrong '
                  'lengths and write offsets whenever the per-file strides differ')
        s0 = fi.stmt(sm[0])
        ok = isinstance(s0, ast.Assign) and len(s0.targets) == 1 and isinstance(s0.targets[0], ast.Name) and s0.targets[0].id == L and s0.value is sm[0]
        ck.check(ok, 'C15.D2.stride-lengths', mod, s0, F, u(s0)[:120], 'the sounded lengths become `lengths`', 'the result of the sounding must be bound to `lengths` unchanged')
        if v[0] == 'match' and not ins:
            ck.bad(rule + '.frame-insert', mod, sm[0], F, 'no lengths.insert(i, 1)', 'single-frame files are left out of the sounding but their length 1 is never '
                   'inserted into `lengths`: lengths is shorter than the file list and every later offset is wrong')


_TRJ_LOADS = ('md.load', 'mdtraj.load', 'md.load_frame', 'mdtraj.load_frame')


def slice_calls(fi, e, names, depth=8):
    """The Call nodes named in `names` in the backward slice of expression
    `e`: in `e` itself or in a definition that reaches a name it reads
    (data dependence through the def-use chains; the calls in between need
    not be known or pure)."""
    out, seen = [], set()

    def visit(x, d):
        for n in walk_expr(x):
            if isinstance(n, ast.Call) and (call_name(n) or '') in names and n not in out:
                out.append(n)
            if d <= 0 or not (isinstance(n, ast.Name) and isinstance(n.ctx, ast.Load)) or n not in fi.stmt_of:
                continue
            try:
                defs = fi.defs_of_use(n)
            except Exception:
                continue
            for site in defs:
                if not isinstance(site, ast.AST) or (id(site), n.id) in seen:
                    continue
                seen.add((id(site), n.id))
                v = fi.def_value(site, n.id)
                if v is None and isinstance(site, (ast.Assign, ast.AnnAssign, ast.AugAssign)):
                    v = site.value                      # tuple unpacking of a call etc.: the whole right-hand side
                if v is not None:
                    visit(v, d - 1)
    visit(e, depth)
    return out


def _len_guard_admits(guards, seq, sizes=range(0, 9)):
    """The sizes n of `seq` (out of `sizes`) that the dominating guards
    `len(seq) <op> <small constant>` admit; None when no guard talks about
    len(seq) in that form.  (Weak-order comparisons of an integer with a
    constant: decided by enumeration of the finite abstract domain.)"""
    import operator as op_
    ops = {ast.Eq: op_.eq, ast.NotEq: op_.ne, ast.Lt: op_.lt, ast.LtE: op_.le, ast.Gt: op_.gt, ast.GtE: op_.ge}
    admitted = None
    for test, pol in guards:
        for c in conjuncts(test, pol) or []:
            if not isinstance(c, Cmp) or c.op not in ops:
                continue
            for a, b, flip in ((c.lhs, c.rhs, False), (c.rhs, c.lhs, True)):
                k = const_value(b)
                if match('len(%s)' % seq, canon(copy.deepcopy(a))) is None or not isinstance(k, int) or isinstance(k, bool) or not 0 <= k <= 4:
                    continue
                f = ops[c.op]
                ok = {n for n in sizes if (f(k, n) if flip else f(n, k))}
                admitted = ok if admitted is None else admitted & ok
    return admitted


def _other_exits(ck, mod, fi, fn, others, FN, ARGS, args_at_map, main_guards):
    """Every way out of load_as_concatenated WITH A VALUE other than the
    return of (lengths, shared buffer) - a fast path, a serial fallback - must
    return what the main path would: for the files it covers, the coordinates
    of file i loaded with ITS entry of the normalised per-file option list
    (`args[i]`: stride, atom selection, frame, topology - the worker's
    `md.load(filename, **load_kwargs)`), and their lengths.  A recognised load
    with other options (none, the function's own **kwargs, another entry) is a
    VIOLATION; an exit the rule cannot relate to the files is INCOMPLETE."""
    rule = 'C15.D3.parallel.exits'
    F = 'load_as_concatenated'
    if not others:
        ck.ok(rule, mod, fn, 'exits of load_as_concatenated', 'the only way out with a value is the return of (lengths, view of the shared buffer)')
        return
    KWP = fn.args.kwarg.arg if fn.args.kwarg is not None else None
    roles = {ARGS} | ({KWP} if KWP else set())
    for ret, rt in others:
        txt = u(ret)[:140]
        at = '%s:%s' % (mod.rel, getattr(ret, 'lineno', '?'))
        if not (isinstance(rt, ast.Tuple) and len(rt.elts) == 2):
            ck.missing(rule, 'an exit of load_as_concatenated that does not return a (lengths, xyz) pair: `%s` (%s)' % (txt, at))
            continue
        lens, data = rt.elts
        loads = slice_calls(fi, data, _TRJ_LOADS)
        if not loads:
            ck.missing(rule, 'what the data returned by the extra exit `%s` (%s) have to do with the files: no md.load in their backward slice' % (txt, at))
            continue
        # branch conditions that hold on the way to the pool map as well say nothing about this exit in particular
        common = {(id(t), p) for t, p in main_guards}
        guards = [g for g in guards_of(fi, ret) if (id(g[0]), g[1]) not in common]
        verdicts = []
        for ld in loads:
            gs = guards + [g for g in guards_of(fi, fi.stmt(ld)) if g not in guards and (id(g[0]), g[1]) not in common]
            narrowed = any(names_loaded(t) & roles for t, _ in gs)     # the guards select a case of the option normalisation
            fa = ld.args[0] if ld.args and not isinstance(ld.args[0], ast.Starred) else kwarg(ld, 'filename_or_filenames')
            fb = match('%s[_I]' % FN, X(fi, fa, stop=(FN,))) if fa is not None else None
            named = [k for k in ld.keywords if k.arg is not None and k.arg != 'filename_or_filenames']
            stars = [k for k in ld.keywords if k.arg is None]
            if fb is None or call_name(ld) not in ('md.load', 'mdtraj.load') or len(ld.args) > 1:
                verdicts.append(('far', 'which file `%s` loads' % u(ld)[:80]))
                continue
            i_txt = u(fb['_I'])
            what = None
            if not stars and not named:
                what = 'no options at all'
            elif len(stars) == 1 and not named:
                e = X(fi, stars[0].value, stop=tuple(roles))
                b = match('%s[_J]' % ARGS, e) or match('dict(%s[_J])' % ARGS, e)
                if b is not None:
                    j_txt = u(b['_J'])
                    arg_names = [orig(fi, n) for n in ast.walk(e) if isinstance(n, ast.Name) and n.id == ARGS]
                    if j_txt == i_txt:
                        same = args_at_map is not None and all(n is not None and fi.same_value(n, args_at_map) for n in arg_names)
                        verdicts.append(('match', None) if same else ('far', 'whether `%s` at `%s` is the normalised option list the workers get' % (ARGS, u(ld)[:80])))
                        continue
                    ci, cj = const_value(fb['_I']), const_value(b['_J'])
                    if isinstance(ci, int) and isinstance(cj, int) and (ci >= 0) == (cj >= 0) and ci != cj:
                        what = 'the options of another file (%s[%s])' % (ARGS, j_txt)
                elif KWP is not None and isinstance(e, ast.Name) and e.id == KWP:
                    src = orig(fi, e)
                    if src is not None and set(fi.defs_of_use(src)) == {'PARAM'}:      # the parameter as passed, never rebound
                        what = 'the function\'s own **%s' % KWP
            if what is None or narrowed:
                verdicts.append(('far', 'the options `%s` is called with' % u(ld)[:80]))
            else:
                verdicts.append(('near', (ld, i_txt, what)))
        bad = [d for v, d in verdicts if v == 'near']
        far = [d for v, d in verdicts if v == 'far']
        for ld, i_txt, what in bad:
            ck.bad(rule, mod, ld, F, 'options of the load on an extra exit (`%s`)' % txt,
                   'this exit returns data loaded by `%s`: file %s[%s] with %s.  After the normalisation at the top of the function the options of '
                   'file i are %s[i] (the caller\'s per-file list, or its **%s repeated, or {}), and that is what the parallel path hands to md.load in '
                   'the worker; with options supplied as the `%s` list this exit drops stride / atom_indices / frame / top: it returns the '
                   'unstrided, unselected trajectory and its full length instead of the concatenation of the individually loaded trajectories'
                   % (u(ld)[:100], FN, i_txt, what, ARGS, KWP or 'kwargs', ARGS))
        if bad:
            continue
        if far:
            ck.missing(rule, 'the extra exit `%s` (%s): %s' % (txt, at, '; '.join(far)))
            continue
        # every load uses the file's own options: which files does the exit cover, and are the lengths theirs?
        admits = _len_guard_admits(guards, FN)
        xd = X(fi, resolve(fi, data), expand=False)
        single = len(loads) == 1 and isinstance(xd, ast.Attribute) and xd.attr == 'xyz' and xd.value is not None and \
            isinstance(resolve(fi, data), ast.Attribute) and resolve(fi, data).value is loads[0]
        ci = const_value(match('%s[_I]' % FN, X(fi, loads[0].args[0], stop=(FN,)))['_I']) if single else None
        if not single or admits is None or ci not in (0, -1):
            ck.missing(rule, 'the extra exit `%s` (%s): which files it covers (expected: `md.load(%s[0], **%s[0]).xyz` under `len(%s) == 1`)' % (txt, at, FN, ARGS, FN))
            continue
        if admits - {0, 1}:
            ck.bad(rule, mod, ret, F, 'files covered by the extra exit `%s`' % txt,
                   'the exit returns the data of %s[%s] only, but its guard admits file lists of %s entries: the other files are dropped from the '
                   'concatenation' % (FN, ci, sorted(admits - {0, 1})[:3]))
            continue
        dn = u(data) if isinstance(data, ast.Name) else None
        dt = T(fi, data, lenify=True, expand=False)
        forms = ['[len(%s)]' % dt, '[%s.shape[0]]' % dt, '[len(%s)]' % u(X(fi, loads[0], expand=False)), '[%s.n_frames]' % u(X(fi, loads[0], expand=False))]
        v = classify(X(fi, lens, lenify=True, stop=(dn,) if dn else ()), forms, scope={dn} if dn else names_loaded(xd))
        ck.decide(v, rule, mod, ret, F, 'lengths of the extra exit `%s`' % txt, 'the one file is loaded with its own options and its length is returned',
                  'a one-file exit must return [len(xyz)] of the data it returns')


def _worker(ck, mod, rule, idx):
    F = WORKER
    fw = mod.func(WORKER)
    ck.analysed(mod, fw)
    fi = finfo(mod, fw)
    ps = params(fw)
    if len(ps) < 2:
        ck.missing(rule + '.window', '_load_to_position(spec, arr_shape) signature')
        return
    SPEC, SHP = ps[0], ps[1]
    fields = {}
    up = None

    def spec_field(v):
        """i when `v` is `spec[i]` (constant non-negative i), else None"""
        if isinstance(v, ast.Subscript) and isinstance(v.value, ast.Name) and v.value.id == SPEC:
            i = const_value(v.slice)
            if isinstance(i, int) and not isinstance(i, bool) and i >= 0:
                return i
        return None
    for s in walk_local(fw):
        if not (isinstance(s, ast.Assign) and len(s.targets) == 1):
            continue
        tg = s.targets[0]
        if isinstance(s.value, ast.Name) and s.value.id == SPEC and isinstance(tg, (ast.Tuple, ast.List)) \
                and all(isinstance(e, ast.Name) for e in tg.elts):
            up = s
            for i, e in enumerate(tg.elts):
                fields[i] = e.id
        elif isinstance(tg, ast.Name) and spec_field(s.value) is not None:
            fields[spec_field(s.value)] = tg.id
            up = up or s
        elif isinstance(tg, (ast.Tuple, ast.List)) and isinstance(s.value, (ast.Tuple, ast.List)) and len(tg.elts) == len(s.value.elts) \
                and all(isinstance(e, ast.Name) for e in tg.elts) and all(spec_field(v) is not None for v in s.value.elts):
            # parallel assignment `a, b, c = spec[0], spec[1], spec[2]`: the right-hand side reads
            # only the parameter, so it equals the element-wise assignments
            for e, v in zip(tg.elts, s.value.elts):
                fields[spec_field(v)] = e.id
            up = up or s
    if idx is None:
        idx = {'off': 0, 'fn': 1, 'args': 2}
    if len(fields) != 3 or set(fields) != {0, 1, 2}:
        ck.missing(rule + '.window', 'unpacking of spec into (position, filename, load_kwargs) in %s' % WORKER)
        return
    POS, FNAME, KW = fields[idx['off']], fields[idx['fn']], fields[idx['args']]
    # the store
    st = [(s, t) for s, t in subscript_stores(fw) if isinstance(s, ast.Assign) and _view_of(fi, t.value) is not None]
    if len(st) != 1:
        ck.missing(rule + '.window', 'exactly one store into the shared buffer view in %s (found %d)' % (WORKER, len(st)))
        return
    s, t = st[0]
    vw = _view_of(fi, t.value)
    stop_w = (POS, FNAME, KW)

    def Xw(e, **kw):                       # the spec fields are roles: never expand them
        return X(fi, e, stop=stop_w, **kw)

    def Tw(e, **kw):
        return u(Xw(e, **kw))
    ck.check(vw == ('shared_array', SHP), rule + '.window', mod, s, F, 'view of %s with shape %s' % vw, 'the store goes to the shared buffer viewed with the full shape',
             'the worker must write into _tonumpyarray(shared_array).reshape(arr_shape)')
    V = s.value
    vt = Tw(V, lenify=True)
    sl = t.slice
    if not (isinstance(sl, ast.Slice) and sl.step is None and sl.lower is not None and sl.upper is not None):
        ck.bad(rule + '.window', mod, s, F, u(s), 'each worker must store only arr[position:position + len(xyz)] = xyz (disjoint windows)')
        return
    pair = ast.Tuple(elts=[Xw(sl.lower, lenify=True), Xw(sl.upper, lenify=True)], ctx=ast.Load())
    forms = ['(%s, %s + len(%s))' % (POS, POS, vt), '(%s, len(%s) + %s)' % (POS, vt, POS)]
    v = classify(pair, forms, scope={POS} | names_loaded(Xw(V)))
    ck.decide(v, rule + '.window', mod, s, F, u(s), 'a worker writes exactly arr[position:position+len(xyz)]',
              'each worker must store only arr[position:position + len(xyz)] = xyz (disjoint windows)')
    # what is stored: the coordinates of this file loaded with its own kwargs
    # (which expression the stored name stands for: temporaries for the loaded trajectory are looked through,
    # each bound once - the file is still read once, at the definition)
    vr = xexpand(fi, V, stop=stop_w, pure=False)
    ok = False
    if isinstance(vr, ast.Attribute) and vr.attr == 'xyz' and isinstance(vr.value, ast.Call) and call_name(vr.value) == 'md.load':
        ld = vr.value
        ok = len(ld.args) == 1 and Tw(ld.args[0]) == FNAME and any(k.arg is None and Tw(k.value) == KW for k in ld.keywords) and \
            all(k.arg is None for k in ld.keywords)
        ck.check(ok, rule + '.window', mod, ld, F, u(ld), 'file loaded with its own kwargs (stride, atom selection)', 'md.load(filename, **load_kwargs) expected')
    else:
        ck.missing(rule + '.window', 'the stored value is not md.load(filename, **load_kwargs).xyz: %s' % u(vr)[:120])
    ck.ok(rule + '.window', mod, up, u(up), 'spec unpacked as (position, filename, kwargs) - the order it is zipped in')
    # the result reported to the parent is the shape of what was stored
    rr = [x for x in returns_of(fw) if x.value is not None]
    if len(rr) == 1:
        v = classify(Xw(rr[0].value), ['%s.shape' % vt, '(len(%s),) + %s.shape[1:]' % (vt, vt)], scope=names_loaded(Xw(V)))
        ck.decide(v, rule + '.total-check', mod, rr[0], F, u(rr[0]), 'the worker reports the shape of what it stored',
                  'the worker must return xyz.shape: the parent sums the first entries to verify the total number of frames written')
    else:
        ck.missing(rule + '.total-check', 'single return of %s' % WORKER)


# ---------------------------------------------------------------------------
# D2: striped loaders (mpi/io.py)

def d_striped(ck):
    rule = 'C15.D2.stride-lengths'
    mod = ck.repo.mod(IO)
    gl_of = {}
    for q in ('load_h5_as_striped', 'load_npy_as_striped'):
        fn = mod.func(q)
        ck.analysed(mod, fn)
        fi = finfo(mod, fn)
        ps = params(fn)
        STRIDE = ps[1] if len(ps) > 1 else 'stride'
        # every exit returns (<global lengths>, <data>) with ONE definition of the global lengths
        # (one return, or several that differ in the data only: if/else arms, an early return)
        rr = list(returns_of(fn))
        pairs = [resolve(fi, x.value) if x.value is not None else None for x in rr]
        if not rr or not all(isinstance(p, ast.Tuple) and len(p.elts) == 2 and isinstance(p.elts[0], ast.Name) for p in pairs):
            ck.missing(rule, '`return <global lengths>, <data>` at every exit of %s' % q)
            continue
        GL = pairs[0].elts[0]
        if not all(p.elts[0].id == GL.id and fi.same_value(GL, p.elts[0]) for p in pairs[1:]):
            ck.missing(rule, 'one definition of the global lengths returned at every exit of %s' % q)
            continue
        gl_of[q] = GL
        gv = resolve(fi, GL)
        gsite = fi.stmt(gv) if gv is not GL else rr[0]
        sc = single_comp(gv)
        if sc is None:
            ck.missing(rule, 'global lengths of %s are not a list comprehension: %s' % (q, u(gv)[:120]))
            continue
        elt, tgt, it, ifs = sc
        first = tgt.elts[0] if isinstance(tgt, (ast.Tuple, ast.List)) and tgt.elts else tgt
        v = ceil_div(X(fi, elt), STRIDE, set(target_names(tgt)))
        if v[0] == 'match' and not (isinstance(first, ast.Name) and u(v[1]['_N']) == '%s[0]' % first.id):
            v = ('far', 1, None)
        ck.decide(v, rule, mod, gsite, q, u(gsite)[:200], 'global lengths = ceil(rows / stride)',
                  '%s passes `stride` to the data but its lengths must be ceil(n / stride) too' % q)
        # the sequence iterated holds the stored shapes, one per key / file
        ok = isinstance(it, ast.Name) and not ifs
        if ok:
            shp = False
            for site in fi.defs_of_use(it):
                val = fi.def_value(site, it.id) if isinstance(site, ast.AST) else None
                sc2 = single_comp(val) if val is not None else None
                if sc2 is not None:
                    e2 = sc2[0].elts[0] if isinstance(sc2[0], ast.Tuple) and sc2[0].elts else sc2[0]
                    shp = shp or (isinstance(e2, ast.Attribute) and e2.attr == 'shape')
            ok = shp
        ck.check(ok, rule, mod, gsite, q, 'lengths over %s' % u(it), 'one length per stored array, in order', 'the global lengths must be computed from the shapes of all stored arrays, in order')
    fn = mod.func('load_npy_as_striped')
    fi = finfo(mod, fn)
    GL = gl_of.get('load_npy_as_striped')
    allocs = [n for n in walk_local(fn) if isinstance(n, ast.Assign) and isinstance(n.value, ast.Call) and (call_name(n.value) or '') in ('np.empty', 'np.zeros')]
    if GL is None or len(allocs) != 1 or 'shape' not in callargs(allocs[0].value):
        ck.missing(rule, 'allocation of the local buffer of load_npy_as_striped')
    else:
        sh = X(fi, callargs(allocs[0].value)['shape'], stop=(GL.id,))
        mine = '%s[mpi.rank()::mpi.size()]' % GL.id
        forms = ['(sum(%s),) + _S[1:]' % mine, '(sum(%s), *_S[1:])' % mine, '(sum(%s),) + tuple(_S[1:])' % mine]
        v = classify(sh, forms, scope={GL.id, 'mpi'})
        if v[0] != 'match':
            # local lengths recomputed with the ceil form over this rank's files
            b = match('(sum(_LL),) + _S[1:]', sh)
            sc = single_comp(b['_LL']) if b is not None else None
            if sc is not None:
                v2 = ceil_div(sc[0], params(fn)[1] if len(params(fn)) > 1 else 'stride', set(target_names(sc[1])))
                if v2[0] == 'match':
                    v = ('far', 1, None)
        ck.decide(v, rule, mod, allocs[0], 'load_npy_as_striped', 'shape=%s' % u(sh), 'local buffer sized from strided lengths',
                  'the local buffer must be sized from the strided lengths of this rank\'s files (global_lengths[rank::size])')
        ls = [orig(fi, n) for n in ast.walk(sh) if isinstance(n, ast.Name) and n.id == GL.id]
        ck.check(bool(ls) and all(n is not None and fi.same_value(n, GL) for n in ls), rule, mod, allocs[0], 'load_npy_as_striped', 'lengths at buffer size vs lengths returned',
                 'one definition of the global lengths sizes the local buffer and is returned', 'the lengths that size the local buffer are not the lengths returned')
    check_empty_allocs(ck, 'C15.D3.npy-fill', mod, [('load_npy_as_striped', fn)])


# ---------------------------------------------------------------------------
# D6: what ra.save writes is what the array holds

_INPLACE_METHODS = {'fill', 'sort', 'put', 'itemset', 'resize', 'partition', 'setfield', 'byteswap', 'append', 'extend',
                    'insert', 'pop', 'remove', 'reverse', 'clear'}
_INPLACE_NP = {'np.put', 'np.copyto', 'np.place', 'np.putmask', 'np.fill_diagonal', 'np.put_along_axis',
               'numpy.put', 'numpy.copyto', 'numpy.place', 'numpy.putmask'}


def d_rows_current(ck, mod):
    """ra.save takes the element type from the FLAT representation of a
    RaggedArray (`array._data.dtype`) and the values row by row from
    `array[i]`, which `RaggedArray.__getitem__` answers from the ROW view
    (`self._array[i]`).  The row view of an array with equal row lengths is a
    copy of the flat data, every other accessor reads the flat data: the
    stored values are the array's values only if every method that writes one
    representation re-derives the other one before it returns.  Decided per
    write statement by reachability: no path write -> normal exit that avoids
    every re-synchronising statement."""
    from ..cfg import EXIT
    rule = 'C15.D6.rows-current'
    save = mod.func('save')
    sps = params(save)
    if len(sps) < 2:
        ck.missing(rule, 'save(filename, array, ...) signature')
        return
    ARR = sps[1]
    flats = {n.value.attr for n in ast.walk(save) if isinstance(n, ast.Attribute) and n.attr == 'dtype' and
             isinstance(n.value, ast.Attribute) and isinstance(n.value.value, ast.Name) and n.value.value.id == ARR}
    by_row = any(isinstance(n, ast.Subscript) and isinstance(n.value, ast.Name) and n.value.id == ARR and isinstance(n.ctx, ast.Load)
                 for n in ast.walk(save)) or any(isinstance(n, ast.For) and ARR in names_loaded(n.iter) for n in ast.walk(save))
    cls = mod.classes.get('RaggedArray')
    if cls is None:
        ck.missing(rule, 'class RaggedArray in %s' % mod.rel)
        return
    if not by_row or len(flats) != 1:
        ck.missing(rule, 'ra.save reading the rows as array[i] and the element type as array.<flat data>.dtype (flat attributes found: %s)' % sorted(flats))
        return
    FLAT = next(iter(flats))
    methods = [m for m in cls.body if isinstance(m, (ast.FunctionDef,)) and params(m) and
               not any(isinstance(d, ast.Name) and d.id in ('staticmethod', 'classmethod') for d in m.decorator_list)]
    gi = [m for m in methods if m.name == '__getitem__']
    rows = set()
    if len(gi) == 1 and len(params(gi[0])) >= 2:
        S0, IDX = params(gi[0])[:2]
        gfi = finfo(mod, gi[0])
        for r in returns_of(gi[0]):
            t = X(gfi, r.value) if r.value is not None else None
            if isinstance(t, ast.Subscript) and isinstance(t.slice, ast.Name) and t.slice.id == IDX and isinstance(t.value, ast.Attribute) \
                    and isinstance(t.value.value, ast.Name) and t.value.value.id == S0:
                rows.add(t.value.attr)
    if len(rows) != 1:
        ck.missing(rule, 'the row view: `return self.<rows>[index]` in RaggedArray.__getitem__ (found %s)' % sorted(rows))
        return
    ROWS = next(iter(rows))
    if ROWS == FLAT:
        ck.ok(rule, mod, gi[0], 'rows and element type are read from one representation (%s)' % FLAT, 'nothing to keep in step')
        return
    n_writes = 0
    for m in methods:
        if m.name == '__init__':
            continue
        SELF = params(m)[0]
        q = 'RaggedArray.' + m.name
        fi = None
        alias = {}
        views = set()
        for s in walk_local(m):
            if isinstance(s, ast.Assign) and len(s.targets) == 1 and isinstance(s.targets[0], ast.Name):
                v0 = s.value
                sub = False
                while isinstance(v0, ast.Subscript):
                    v0, sub = v0.value, True
                if isinstance(v0, ast.Attribute) and isinstance(v0.value, ast.Name) and v0.value.id == SELF and v0.attr in (FLAT, ROWS):
                    alias[s.targets[0].id] = v0.attr
                    if sub:
                        views.add(s.targets[0].id)     # `t = self.<rep>[i]`: a view (or, for a fancy index, a copy)

        def rep_of(e):
            """the representation an expression denotes (self.<rep> or an alias of it)"""
            if isinstance(e, ast.Attribute) and isinstance(e.value, ast.Name) and e.value.id == SELF and e.attr in (FLAT, ROWS):
                return e.attr
            if isinstance(e, ast.Name) and e.id in alias:
                return alias[e.id]
            return None

        def base_rep(t):
            while isinstance(t, ast.Subscript):
                t = t.value
            return rep_of(t)

        def written(s):
            """representation written (in place or rebound) by statement s, else None"""
            tg = list(s.targets) if isinstance(s, ast.Assign) else [s.target] if isinstance(s, (ast.AugAssign, ast.AnnAssign)) else []
            flat_t = []
            for t in tg:
                flat_t += list(t.elts) if isinstance(t, (ast.Tuple, ast.List)) else [t]
            for t in flat_t:
                if isinstance(t, ast.Subscript) and base_rep(t) is not None:
                    return base_rep(t)
                if isinstance(t, ast.Attribute) and rep_of(t) is not None:
                    return rep_of(t)
                if isinstance(s, ast.AugAssign) and isinstance(t, ast.Name) and rep_of(t) is not None:
                    return rep_of(t)
            if isinstance(s, ast.Expr) and isinstance(s.value, ast.Call):
                c = s.value
                if isinstance(c.func, ast.Attribute) and c.func.attr in _INPLACE_METHODS and base_rep(c.func.value) is not None:
                    return base_rep(c.func.value)
                if (call_name(c) or '') in _INPLACE_NP and c.args and base_rep(c.args[0]) is not None:
                    return base_rep(c.args[0])
            return None

        def mentions(e, rep):
            return any(rep_of(x) == rep for x in ast.walk(e))

        def readers(st, e, rep, depth=6, seen=None):
            """The statements that READ representation `rep` for the value of
            expression `e` of statement `st`: `st` itself, or the definitions
            in the backward slice of `e` (calls need not be known: this is
            data dependence, not expansion)."""
            seen = set() if seen is None else seen
            out = [st] if mentions(e, rep) else []
            if depth <= 0:
                return out
            for n in walk_expr(e):
                if not (isinstance(n, ast.Name) and isinstance(n.ctx, ast.Load)) or n.id in alias or n not in fi.stmt_of:
                    continue
                try:
                    defs = fi.defs_of_use(n)
                except Exception:
                    continue
                for site in defs:
                    if not isinstance(site, ast.AST) or (id(site), n.id) in seen:
                        continue
                    seen.add((id(site), n.id))
                    v = fi.def_value(site, n.id)
                    if v is not None:
                        out += readers(site, v, rep, depth - 1, seen)
            return out

        def via_view(s):
            tg = list(s.targets) if isinstance(s, ast.Assign) else [s.target] if isinstance(s, (ast.AugAssign, ast.AnnAssign)) else []
            for t in tg:
                while isinstance(t, ast.Subscript):
                    t = t.value
                if isinstance(t, ast.Name) and t.id in views:
                    return True
            return False

        def self_calls(s):
            if isinstance(s, (ast.FunctionDef, ast.AsyncFunctionDef, ast.ClassDef)):
                return []
            hs = header_nodes(s)
            return [c for h in hs for c in ast.walk(h) if isinstance(c, ast.Call)]

        stmts = [s for s in walk_local(m) if isinstance(s, ast.stmt)]
        writes = [(s, written(s)) for s in stmts]
        writes = [(s, r) for s, r in writes if r is not None]
        if not writes:
            continue
        ck.analysed(mod, m)
        fi = finfo(mod, m)
        raises = [s for s in stmts if isinstance(s, ast.Raise)]
        reinit, opaque = [], []
        for s in stmts:
            for c in self_calls(s):
                f = c.func
                if isinstance(f, ast.Attribute) and isinstance(f.value, ast.Name) and f.value.id == SELF:
                    if f.attr == '__init__':
                        reinit.append(s)
                    elif f.attr not in (FLAT, ROWS):
                        opaque.append(s)          # another method of the object may re-synchronise
                elif any(isinstance(a, ast.Name) and a.id == SELF for a in list(c.args) + [k.value for k in c.keywords]):
                    opaque.append(s)              # the object is handed to a helper
        for s, rep in writes:
            other = ROWS if rep == FLAT else FLAT
            # the statement that writes `rep` may itself re-derive it from `other` (a sync, not a stale write)
            if isinstance(s, ast.Assign) and len(s.targets) == 1 and rep_of(s.targets[0]) == rep and \
                    readers(s, s.value, other) and not readers(s, s.value, rep):
                continue
            n_writes += 1
            syncs = list(reinit)
            for s2 in stmts:
                if isinstance(s2, ast.Assign) and len(s2.targets) == 1 and rep_of(s2.targets[0]) == other:
                    # a re-derivation counts when `rep` is read for it AFTER this write
                    if any(d is s2 or fi.cfg.reachable(s, d) for d in readers(s2, s2.value, rep)):
                        syncs.append(s2)
            txt = u(s)[:120]
            if not fi.cfg.reachable(s, EXIT, avoiding=syncs + raises):
                ck.ok(rule, mod, s, txt, 'every normal exit after this write of self.%s re-derives self.%s' % (rep, other))
                continue
            if not fi.cfg.reachable(s, EXIT, avoiding=syncs + raises + opaque):
                ck.missing(rule, 'whether %s re-synchronises self.%s after `%s` (%s:%s): a path to the exit only passes calls the rule does not follow'
                           % (q, other, txt, mod.rel, getattr(s, 'lineno', '?')))
                continue
            if via_view(s):
                ck.missing(rule, 'whether `%s` (%s:%s) writes self.%s: the target is a subscript of it (a view, or a copy for a fancy index)'
                           % (txt, mod.rel, getattr(s, 'lineno', '?'), rep))
                continue
            path = fi.cfg.path(s, EXIT, avoiding=syncs + raises) or []
            last = [x for x in path if isinstance(x, ast.stmt)]
            where = 'exit at L%s' % getattr(last[-1], 'lineno', '?') if last else 'exit'
            ck.bad(rule, mod, s, q, '%s ; %s' % (txt, where),
                   'self.%s is written but self.%s is not re-derived from it before the method returns: ra.save stores the element type of '
                   'self.%s and the values of self.%s[i] (RaggedArray.__getitem__), and the row view of an array with equal row lengths '
                   'is a copy of the flat data - after this write save/load returns values the array no longer holds' % (rep, other, FLAT, ROWS))
    ck.floor(rule, n_writes, 3, 'writes of the flat data / row view in RaggedArray methods')


def header_nodes(s):
    """The expression nodes evaluated by statement s itself (not by the
    statements nested in it)."""
    out = []
    for f, v in ast.iter_fields(s):
        if f in ('body', 'orelse', 'finalbody', 'handlers'):
            continue
        for x in (v if isinstance(v, list) else [v]):
            if isinstance(x, ast.AST):
                out.append(x)
    return out


def _part(ck, name, f, *a):
    """Run one group of obligations; an unexpected shape that trips the rule
    code itself is an unrecognised construct (incomplete), not a crash of the
    whole check."""
    try:
        f(ck, *a)
    except AnalysisIncomplete:
        raise
    except Exception as e:      # noqa: BLE001
        ck.missing('C15', 'rule code could not analyse %s (%s: %s)' % (name, type(e).__name__, e))


def d_load_trailing_dims(ck, mod):
    """ra.load hands the concatenated nodes - of shape (sum of lengths, d...) for
    multi-dimensional rows, which it supports explicitly - to RaggedArray(data,
    lengths=...); len(), a[i] and ra.save read the constructor's row view.  For
    rows of equal length that view is the rectangular fast path, which must
    keep the element dimensions (rule family C05.D7, run here for the storage
    round trip)."""
    from .C05 import trailing_dims
    rule = 'C15.D2.rows-rebuilt.trailing-dims'
    ld = mod.functions.get('load')
    wraps = [c for c in calls_in(ld) if tail(c) == 'RaggedArray'] if ld is not None else []
    if not wraps:
        ck.missing(rule, 'ra.load building its result with RaggedArray(<data>, lengths=...)')
        return
    n = trailing_dims(ck, mod, rule)
    if n == 0:
        ck.ok(rule, mod, ld, 'RaggedArray.__init__ has no rectangular fast path', 'rows are cut from the flat data along the first axis only')


def d_stride_every_path(ck):
    """Added after the seeding rounds (DESIGN.md 11.2, G3): `stride` must reach
    the returned data on EVERY return path of every loader that takes it (a
    branch that forgets it returns the unstrided data: loading with a stride
    then differs from slicing the full load)."""
    from . import extra
    n = 0
    ra = ck.repo.mod(RA)
    n += extra.param_on_every_result_path(ck, 'C15.D2.stride-data.every-path', ra, 'load', 'stride',
                                          why='e.g. a file with a single row')
    io = ck.repo.mod('enspara/mpi/io.py')
    for q in ('load_h5_as_striped', 'load_npy_as_striped'):
        if q in io.functions:
            n += extra.param_on_every_result_path(ck, 'C15.D2.stride-data.every-path', io, q, 'stride')
    ck.floor('C15.D2.stride-data.every-path', n, 5, 'returns of loaded data in loaders with a stride parameter')


_FILE_READS = {'md.open', 'md.load', 'md.load_frame', 'md.iterload', 'tables.open_file', 'np.load', 'numpy.load', 'open', 'h5py.File',
               'np.loadtxt', 'np.fromfile', 'np.memmap', 'io.open', 'pickle.load'}
_MEMO_DECORATORS = {'lru_cache', 'cache', 'cached', 'memoize', 'memoized', 'memoise', 'memoised', 'cachedmethod', 'cached_property'}
_TRANSPARENT_DECORATORS = {'wraps', 'staticmethod', 'classmethod', 'deprecated', 'timed'}
_DICT_MAKERS = {'dict', 'OrderedDict', 'collections.OrderedDict', 'defaultdict', 'collections.defaultdict', 'WeakValueDictionary',
                'weakref.WeakValueDictionary'}


def d_fresh_reads(ck):
    """The round trip is stated about what is in the file WHEN it is loaded:
    the value of every loader / sounder here is a function of its arguments
    AND of the current content of the files they name.  A memoised result
    (functools.lru_cache / cache, a memoising decorator, a module-level
    dictionary filled and answered from by the function) is keyed on the
    arguments only: a path whose file was rewritten, extended or replaced
    since the first call is answered with the old length / data - and pool
    workers forked later inherit the stale table, so the lengths that
    position the windows of load_as_concatenated no longer describe the files
    that are loaded.  Decided per function that (directly, or through a
    function of this list) reads a file."""
    rule = 'C15.D3.fresh-read'
    todo = [(RA, 'load'), (LO, 'sound_trajectory'), (LO, 'load_as_concatenated'), (LO, '_load_to_position'),
            (IO, 'load_h5_as_striped'), (IO, 'load_npy_as_striped')]
    readers = {q for _, q in todo}
    n = 0
    for rel, q in todo:
        mod = ck.repo.mod(rel)
        fn = mod.functions.get(q)
        if fn is None:
            ck.missing(rule, 'function %s in %s' % (q, rel))
            continue
        reads = sorted({call_name(c) or tail(c) for c in calls_in(fn)
                        if (call_name(c) or '') in _FILE_READS or (tail(c) in readers and tail(c) != q) or tail(c) in ('open_file', 'get_node')})
        if not reads:
            ck.missing(rule, 'the file access of %s (%s): no call that opens or reads a file found' % (q, rel))
            continue
        n += 1
        what = 'result of %s is computed from the file on every call' % q
        bad = unknown = None
        for d in fn.decorator_list:
            core = d.func if isinstance(d, ast.Call) else d
            name = core.attr if isinstance(core, ast.Attribute) else core.id if isinstance(core, ast.Name) else None
            if name in _MEMO_DECORATORS or (name == 'cache' and isinstance(core, ast.Attribute)):
                bad = d
            elif name not in _TRANSPARENT_DECORATORS:
                unknown = d
        # a hand-written table: a module-level dictionary the function stores into and answers from
        tables_ = set()
        for st in mod.tree.body:
            if isinstance(st, (ast.Assign, ast.AnnAssign)) and st.value is not None:
                v = st.value
                if (isinstance(v, ast.Dict) and not v.keys) or (isinstance(v, ast.Call) and (call_name(v) or '') in _DICT_MAKERS):
                    tables_ |= set(target_names(st.targets[0] if isinstance(st, ast.Assign) else st.target))
        shadow = {x.id for x in ast.walk(fn) if isinstance(x, ast.Name) and isinstance(x.ctx, ast.Store)} | set(params(fn))
        shadow -= {nm for g in ast.walk(fn) if isinstance(g, ast.Global) for nm in g.names}
        tables_ -= shadow
        memo = None
        for M in sorted(tables_):
            stored = any(isinstance(t, ast.Subscript) and isinstance(t.value, ast.Name) and t.value.id == M for _, t in subscript_stores(fn)) or \
                any(isinstance(c.func, ast.Attribute) and c.func.attr in ('setdefault', 'update', '__setitem__') and
                    isinstance(c.func.value, ast.Name) and c.func.value.id == M for c in calls_in(fn))
            fi = finfo(mod, fn)
            answered = False
            for r in returns_of(fn):
                if r.value is None:
                    continue
                for x in ast.walk(xexpand(fi, r.value)):
                    if isinstance(x, ast.Subscript) and isinstance(x.value, ast.Name) and x.value.id == M and isinstance(x.ctx, ast.Load):
                        answered = True
                    if isinstance(x, ast.Call) and isinstance(x.func, ast.Attribute) and x.func.attr in ('get', 'setdefault', 'pop') and \
                            isinstance(x.func.value, ast.Name) and x.func.value.id == M:
                        answered = True
            if stored and answered:
                memo = M
        why = ('%s reads the file (%s) but its result is remembered per argument tuple (%%s): the key does not contain the content of the '
               'file, so a path whose file changed since it was first seen (a running / extended / restarted simulation, a re-used output '
               'name) is answered with the old value; pool workers forked later inherit the table.  Sounded lengths then no longer '
               'describe the files that are loaded: wrong lengths and write offsets, overlapping or zero-filled windows' % (q, ', '.join(reads)))
        if bad is not None:
            ck.bad(rule, mod, fn, q, what, why % ('decorator @%s' % u(bad)))
        elif memo is not None:
            ck.bad(rule, mod, fn, q, what, why % ('module-level table `%s` that the function fills and answers from' % memo))
        elif unknown is not None:
            ck.missing(rule, 'whether the decorator @%s of %s (%s) keeps results between calls' % (u(unknown)[:60], q, rel))
        else:
            ck.ok(rule, mod, fn, what, 'no memoising decorator, no module-level result table (reads: %s)' % ', '.join(reads))
    ck.floor(rule, n, 5, 'loaders / sounders that read a file')


# ---------------------------------------------------------------------------
# Fifth wave: the loaders ACCEPT every well-formed input.
#
# The clauses above say what a loader returns; they do not say that it returns
# at all.  A validation guard with the wrong polarity (`raise` when the rows DO
# agree), an option normalisation whose branches are swapped, a fall-back block
# taken by a rank that owns rows: each leaves every located construct intact.
# Necessary condition decided here: for every CLASS of well-formed input (a
# finite abstract domain: which of the option arguments are given, 1..3 rows,
# one- or multi-dimensional rows, the rank / world size) the paths that remain
# after deleting the branches whose tests are FALSE for the class reach a
# normal exit, read no tracked local before it is bound, and carry the value
# the class requires (the caller's option list, the rows of ra.load ...).
# Tests the class does not decide keep both branches, so an unrecognised
# spelling can only lose a verdict, never produce one.

def kleene(test, atom):
    """Three-valued value (True / False / None = unknown) of a boolean test;
    `atom(node)` values the leaves."""
    if isinstance(test, ast.UnaryOp) and isinstance(test.op, ast.Not):
        v = kleene(test.operand, atom)
        return None if v is None else (not v)
    if isinstance(test, ast.BoolOp):
        vals = [kleene(v, atom) for v in test.values]
        if isinstance(test.op, ast.And):
            if any(v is False for v in vals):
                return False
            return True if all(v is True for v in vals) else None
        if any(v is True for v in vals):
            return True
        return False if all(v is False for v in vals) else None
    if isinstance(test, ast.Constant):
        return bool(test.value) if isinstance(test.value, (bool, int, str, type(None))) else None
    return atom(test)


class ClassWalk:
    """The part of a function's CFG an input class can execute.  `atom(node,
    state)` values the leaves of branch tests for the class (None = not
    decided); `state` maps each tracked local to the ORIGIN of its current
    value: 'PARAM', 'UNBOUND' or the defining statement (a rebinding that only
    re-reads the name itself - `x = x`, `x = x._data` - keeps the origin).
    Pruned: the arm of an `if` whose test has the other value; everything
    behind an `assert` whose test is False; the zero-trip exit of a `for`
    whose iterable `nonempty(iter, state)` says holds an element (the exit is
    taken only from the back edge)."""

    def __init__(self, fi, atom, tracked=(), nonempty=None):
        self.fi, self.atom, self.tracked = fi, atom, tuple(tracked)
        self.nonempty = nonempty or (lambda it, st: False)
        self.states = {}            # node -> [state dict] (on arrival)
        self.decided = []           # (If / Assert statement, value)
        self.unbound = []           # (statement, name)
        self.normal_exit = False
        self._run()

    def _inside(self, n, loop):
        node = n.owner if isinstance(n, Assume) else n
        if not isinstance(node, ast.AST):
            return False
        par = self.fi.mod.parent
        child, p = node, par.get(node)
        while p is not None and not isinstance(p, (ast.FunctionDef, ast.AsyncFunctionDef, ast.ClassDef, ast.Module)):
            if p is loop:
                return any(child is x for x in loop.body)
            child, p = p, par.get(p)
        return False

    def reads(self, n, std):
        """identifiers DEFINITELY read when control is at statement n, for this
        class: not the arm of a conditional expression the class does not
        select (or cannot decide), not the right operands of and/or, not the
        element expression of a comprehension (zero iterations)"""
        from ..cfg import header_exprs
        out = set()
        at = lambda a: self.atom(a, std)        # noqa: E731

        def walk(e, bound, sure):
            if isinstance(e, ast.IfExp):
                walk(e.test, bound, sure)
                v = kleene(e.test, at)
                if v is not False:
                    walk(e.body, bound, sure and v is True)
                if v is not True:
                    walk(e.orelse, bound, sure and v is False)
                return
            if isinstance(e, ast.BoolOp):
                for i, x in enumerate(e.values):
                    walk(x, bound, sure and i == 0)
                return
            if isinstance(e, ast.Lambda):
                return
            if isinstance(e, _COMPS):
                walk(e.generators[0].iter, bound, sure)
                inner = set(bound)
                for g in e.generators:
                    inner.update(target_names(g.target))
                for i, g in enumerate(e.generators):
                    if i:
                        walk(g.iter, inner, False)
                    for c in g.ifs:
                        walk(c, inner, False)
                for x in ([e.key, e.value] if isinstance(e, ast.DictComp) else [e.elt]):
                    walk(x, inner, False)
                return
            if isinstance(e, ast.Name):
                if sure and isinstance(e.ctx, (ast.Load, ast.Del)) and e.id not in bound:
                    out.add(e.id)
                return
            for c in ast.iter_child_nodes(e):
                walk(c, bound, sure)
        for e in header_exprs(n):
            walk(e, frozenset(), True)
        if isinstance(n, ast.AugAssign) and isinstance(n.target, ast.Name):
            out.add(n.target.id)
        return out

    def _origin(self, n, x, old):
        if isinstance(n, ast.Assign) and len(n.targets) == 1 and isinstance(n.targets[0], ast.Name) and old != 'UNBOUND':
            v = n.value
            while isinstance(v, ast.Attribute):
                v = v.value
            if isinstance(v, ast.Name) and v.id == x:
                return old
        return n

    def _run(self):
        from ..cfg import ENTRY, EXIT, stmt_defs
        fi = self.fi
        cfg = fi.cfg
        ps = set(params(fi.fn))
        st0 = tuple('PARAM' if x in ps else 'UNBOUND' for x in self.tracked)
        seen = set()
        work = [(ENTRY, st0, False)]
        while work:
            n, st, back = work.pop()
            key = (n if isinstance(n, str) else id(n), tuple(o if isinstance(o, str) else id(o) for o in st), back)
            if key in seen:
                continue
            seen.add(key)
            std = dict(zip(self.tracked, st))
            lst = self.states.setdefault(n, [])
            if std not in lst:
                lst.append(std)
            succs = list(cfg.succ.get(n, []))
            out = st
            if isinstance(n, (ast.stmt, ast.ExceptHandler)):
                at = lambda a: self.atom(a, std)        # noqa: E731
                if isinstance(n, ast.If):
                    v = kleene(n.test, at)
                    if v is not None:
                        if (n, v) not in self.decided:
                            self.decided.append((n, v))
                        succs = [m for m in succs if not (isinstance(m, Assume) and m.owner is n and m.polarity != v)]
                elif isinstance(n, ast.Assert):
                    if kleene(n.test, at) is False:
                        if (n, False) not in self.decided:
                            self.decided.append((n, False))
                        succs = []
                elif isinstance(n, ast.For) and not back and self.nonempty(n.iter, std):
                    succs = [m for m in succs if self._inside(m, n)]
                defs = stmt_defs(n)
                if defs:
                    out = tuple(self._origin(n, x, o) if x in defs else o for x, o in zip(self.tracked, st))
            for m in succs:
                if m == EXIT and not isinstance(n, ast.Raise):
                    self.normal_exit = True
                work.append((m, out, isinstance(m, ast.For) and self._inside(n, m)))

        # a tracked local read before it is bound: EVERY state that arrives at the statement has it unbound and
        # the read is definite (the paths kept over-approximate those the class can take)
        for n, lst in self.states.items():
            if not isinstance(n, ast.stmt):
                continue
            for x in self.tracked:
                if lst and all(std[x] == 'UNBOUND' for std in lst) and all(x in self.reads(n, std) for std in lst):
                    self.unbound.append((n, x))

    def visited(self, node):
        return node in self.states

    def origins(self, node, name):
        """origins of tracked `name` on arrival at `node`, over all states"""
        out = []
        for std in self.states.get(node, []):
            if std[name] not in out:
                out.append(std[name])
        return out

    def blockers(self):
        """the decided tests whose chosen arm raises at once / the failed
        assertions: what stands between this class and a normal exit"""
        out = []
        for n, v in self.decided:
            if isinstance(n, ast.Assert):
                out.append((n, v))
            else:
                arm = n.body if v else n.orelse
                if any(isinstance(x, ast.Raise) for x in arm):
                    out.append((n, v))
        return out


def _unpack_expand(fi, e):
    """copy of e with every name bound ONCE by `a, b = V` (V not a tuple
    display) replaced by V[k]; names of V must be unchanged at the use."""
    def path(t, name, base):
        if isinstance(t, ast.Name):
            return base if t.id == name else None
        if isinstance(t, (ast.Tuple, ast.List)) and not any(isinstance(x, ast.Starred) for x in t.elts):
            for k, x in enumerate(t.elts):
                r = path(x, name, ast.Subscript(value=base, slice=ast.Constant(value=k), ctx=ast.Load()))
                if r is not None:
                    return r
        return None

    class R(ast.NodeTransformer):
        def visit_Name(self, node):
            if not isinstance(node.ctx, ast.Load):
                return node
            on = node if node in fi.stmt_of else orig(fi, node)
            if on is None:
                return node
            try:
                defs = fi.defs_of_use(on)
            except Exception:
                return node
            if len(defs) != 1:
                return node
            site = next(iter(defs))
            if not (isinstance(site, ast.Assign) and len(site.targets) == 1 and isinstance(site.targets[0], (ast.Tuple, ast.List))) or \
                    isinstance(site.value, (ast.Tuple, ast.List)):
                return node
            use = fi.stmt(on)
            if any(fi.rd.defs_at(site, m) != fi.rd.defs_at(use, m) for m in names_loaded(site.value)):
                return node
            r = path(site.targets[0], node.id, copy.deepcopy(site.value))
            return ast.copy_location(r, node) if r is not None else node
    return ast.fix_missing_locations(R().visit(copy.deepcopy(e)))


def _agreement(fi, cmp_node):
    """Is the comparison `A == B` / `A != B` one between the SAME quantity of
    the first element of a sequence and of the element the enclosing loop /
    comprehension is at (B with the loop variable replaced by S[0] is A)?
    Then A == B holds for element 0 by reflexivity, and for every element of
    a well-formed input (rows / files that agree in that quantity)."""
    if not (isinstance(cmp_node, ast.Compare) and len(cmp_node.ops) == 1 and isinstance(cmp_node.ops[0], (ast.Eq, ast.NotEq))):
        return False
    par = fi.mod.parent
    ctxs = []
    child, p = cmp_node, par.get(cmp_node)
    while p is not None and not isinstance(p, (ast.FunctionDef, ast.AsyncFunctionDef, ast.Lambda, ast.ClassDef)):
        if isinstance(p, _COMPS) and not isinstance(p, ast.DictComp) and (child is p.elt or any(child is g for g in p.generators)):
            for g in p.generators:
                ctxs.append((g.target, g.iter))
        elif isinstance(p, ast.comprehension):
            pass
        elif isinstance(p, ast.For) and any(child is x for x in p.body):
            ctxs.append((p.target, p.iter))
        child, p = p, par.get(p)
    A, B = cmp_node.left, cmp_node.comparators[0]
    for T, S in ctxs:
        if isinstance(S, ast.Call) and call_name(S) == 'enumerate' and len(S.args) == 1 and not S.keywords and \
                isinstance(T, (ast.Tuple, ast.List)) and len(T.elts) == 2:
            T, S = T.elts[1], S.args[0]
        paths = {}

        def bind(t, base):
            if isinstance(t, ast.Name):
                paths[t.id] = base
                return True
            if isinstance(t, (ast.Tuple, ast.List)) and not any(isinstance(x, ast.Starred) for x in t.elts):
                return all(bind(x, ast.Subscript(value=base, slice=ast.Constant(value=k), ctx=ast.Load())) for k, x in enumerate(t.elts))
            return False
        if not bind(T, ast.Subscript(value=copy.deepcopy(S), slice=ast.Constant(value=0), ctx=ast.Load())):
            continue
        for a, b in ((A, B), (B, A)):
            if (names_loaded(a) & set(paths)) or not (names_loaded(b) & set(paths)):
                continue
            b2 = b
            for nm, pth in paths.items():
                b2 = _subst_name(b2, nm, pth)
            ast.fix_missing_locations(b2)
            try:
                ta = u(X(fi, _unpack_expand(fi, a), pure=False))
                tb = u(X(fi, _unpack_expand(fi, b2), pure=False))
            except Exception:
                continue
            if ta == tb:
                return True
    return False


def _quantifier_value(fi, call, at, nonempty):
    """all(<elt> for t in S) / any(...) with the element test valued by `at`"""
    if not (isinstance(call, ast.Call) and isinstance(call.func, ast.Name) and call.func.id in ('all', 'any') and
            len(call.args) == 1 and not call.keywords):
        return None
    sc = single_comp(call.args[0])
    if sc is None or sc[3]:
        return None
    v = kleene(sc[0], at)
    if v is None:
        return None
    if (call.func.id == 'all') == v:
        return v                   # all(True ...) / any(False ...): also for an empty sequence
    return v if nonempty(sc[2]) else None


def _holds_elements(fi, it, roots, shape_dims=False, depth=6):
    """The iterable holds at least one element for every well-formed input:
    a sequence named in `roots` (the file list, the key list), a filterless
    comprehension / enumerate / zip / list over such, range(len(such)); with
    shape_dims also `range(1, len(<node>.shape))` (rows with element dimensions)."""
    if depth <= 0 or it is None:
        return False
    rec = lambda x: _holds_elements(fi, x, roots, shape_dims, depth - 1)        # noqa: E731
    if isinstance(it, ast.Name):
        if it.id in roots:
            return True
        v = _temp(fi, it, need_pure=False)
        return v is not None and rec(v)
    if isinstance(it, (ast.ListComp, ast.GeneratorExp)):
        return len(it.generators) == 1 and not it.generators[0].ifs and rec(it.generators[0].iter)
    if isinstance(it, ast.Call) and not it.keywords and not any(isinstance(a, ast.Starred) for a in it.args):
        cn = call_name(it) or ''
        if cn in ('enumerate', 'list', 'tuple', 'sorted', 'reversed') and len(it.args) == 1:
            return rec(it.args[0])
        if cn == 'zip' and it.args:
            return all(rec(a) for a in it.args)
        if cn == 'range' and len(it.args) == 1:
            a = it.args[0]
            return isinstance(a, ast.Call) and call_name(a) == 'len' and len(a.args) == 1 and rec(a.args[0])
        if cn == 'range' and len(it.args) == 2 and shape_dims and const_value(it.args[0]) == 1 and \
                isinstance(it.args[1], ast.Call) and call_name(it.args[1]) == 'len' and len(it.args[1].args) == 1:
            try:
                q = X(fi, it.args[1].args[0], pure=False)
            except Exception:
                return False
            if isinstance(q, ast.Subscript) and isinstance(q.value, ast.ListComp):
                q = q.value.elt
            return isinstance(q, ast.Attribute) and q.attr == 'shape'
    return False


def _cmp_ints(op, a, b):
    import operator as op_
    f = {ast.Eq: op_.eq, ast.NotEq: op_.ne, ast.Lt: op_.lt, ast.LtE: op_.le, ast.Gt: op_.gt, ast.GtE: op_.ge}.get(op)
    return None if f is None or a is None or b is None else f(a, b)


def _report_accepts(ck, mod, fi, q, results, what):
    """results: [(class description, ClassWalk)].  One verdict per function."""
    rule = 'C15.D3.accepts'
    failing = [(d, w) for d, w in results if not w.normal_exit]
    if not failing:
        ck.ok(rule, mod, fi.fn, '%s: %d classes of well-formed input' % (q, len(results)),
              'every class (%s) keeps a path to a normal exit once the branches it makes false are removed' % what)
    else:
        by = {}
        for d, w in failing:
            bl = w.blockers()
            site = bl[-1][0] if bl else fi.fn
            by.setdefault(id(site), (site, bl[-1][1] if bl else None, []))[2].append(d)
        for site, val, ds in by.values():
            if isinstance(site, ast.If):
                txt = '`%s` is %s for this input and the branch taken raises' % (u(site.test)[:100], val)
            elif isinstance(site, ast.Assert):
                txt = '`%s` fails for this input' % u(site)[:100]
            else:
                txt = 'every remaining path ends in a raise'
            ck.bad(rule, mod, site, q, 'well-formed input rejected: %s' % (u(site.test)[:80] if isinstance(site, (ast.If, ast.Assert)) else q),
                   '%s cannot return for well-formed input of class %s: %s.  Inside the quantifier of the property a loader must '
                   'return the stored values, not raise' % (q, '; '.join(ds[:4]), txt))
    seen = set()
    for d, w in results:
        for s, x in w.unbound:
            if (id(s), x) in seen:
                continue
            seen.add((id(s), x))
            ck.bad(rule + '.bound', mod, s, q, 'read of `%s` in: %s' % (x, u(s)[:80]),
                   'for input of class %s the path to this statement binds `%s` nowhere (the branch that binds it is not taken): '
                   'UnboundLocalError instead of the loaded data' % (d, x))
    return not failing


def d_accepts_load(ck, mod):
    """ra.load: keys given as a list or defaulted (Ellipsis), 1..3 rows, rows
    with or without element dimensions; rows agree in rank, trailing
    dimensions and dtype; the file holds no old-style nodes."""
    q = 'load'
    fn = mod.func(q)
    fi = finfo(mod, fn)
    ps = params(fn)
    if len(ps) < 2:
        ck.missing('C15.D3.accepts', 'load(input_name, keys, ...) signature')
        return
    KEYS = ps[1]
    handles = set()
    for w in walk_local(fn):
        if isinstance(w, ast.With):
            for it in w.items:
                if isinstance(it.optional_vars, ast.Name) and isinstance(it.context_expr, ast.Call) and tail(it.context_expr) == 'open_file':
                    handles.add(it.optional_vars.id)

    def listing(v):
        sc = single_comp(v) if v is not None else None
        return sc is not None and not sc[3] and isinstance(sc[2], ast.Call) and tail(sc[2]) == 'list_nodes'
    results = []
    for kind in ('list', 'ellipsis'):
        for nrows in (1, 2, 3):
            for multi in (False, True):
                def nonempty(it, std=None, multi=multi):
                    return _holds_elements(fi, it, {KEYS}, shape_dims=multi)

                def ival(e, std, kind=kind, nrows=nrows):
                    c = const_value(e)
                    if isinstance(c, int) and not isinstance(c, bool):
                        return c
                    if isinstance(e, ast.Call) and call_name(e) == 'len' and len(e.args) == 1 and isinstance(e.args[0], ast.Name) and e.args[0].id == KEYS:
                        o = std[KEYS]
                        if o == 'PARAM':
                            return nrows if kind == 'list' else None
                        if isinstance(o, ast.Assign) and listing(fi.def_value(o, KEYS)):
                            return nrows
                    return None

                def atom(node, std, kind=kind, nonempty=nonempty, ival=ival):
                    at = lambda a: atom(a, std)        # noqa: E731
                    if isinstance(node, ast.Compare) and len(node.ops) == 1:
                        a, op, b = node.left, type(node.ops[0]), node.comparators[0]
                        for x, y in ((a, b), (b, a)):
                            if isinstance(x, ast.Name) and x.id == KEYS and op in (ast.Is, ast.IsNot) and std[KEYS] == 'PARAM':
                                val = None
                                if isinstance(y, ast.Constant) and y.value is None:
                                    val = False
                                elif is_ellipsis(y):
                                    val = kind == 'ellipsis'
                                if val is not None:
                                    return val if op is ast.Is else (not val)
                        v = _cmp_ints(op, ival(a, std), ival(b, std))
                        if v is not None:
                            return v
                        if op in (ast.In, ast.NotIn) and const_value(a) in ('/lengths', '/array', 'lengths', 'array') and \
                                isinstance(b, ast.Name) and b.id in handles:
                            return op is ast.NotIn
                        if op in (ast.Eq, ast.NotEq) and _agreement(fi, node):
                            return op is ast.Eq
                        return None
                    if isinstance(node, ast.Call):
                        return _quantifier_value(fi, node, at, nonempty)
                    return None
                w = ClassWalk(fi, atom, tracked=(KEYS,), nonempty=nonempty)
                results.append(('keys=%s, %d row%s, %s rows' % ('[...]' if kind == 'list' else 'Ellipsis', nrows, '' if nrows == 1 else 's',
                                                                'multi-dimensional' if multi else 'one-dimensional'), w))
    _report_accepts(ck, mod, fi, q, results, 'keys given / defaulted, 1-3 rows, 1-D / n-D rows')


def d_accepts_npy(ck):
    """load_npy_as_striped: one or more files that agree in trailing
    dimensions and element type."""
    mod = ck.repo.mod(IO)
    q = 'load_npy_as_striped'
    fn = mod.func(q)
    fi = finfo(mod, fn)
    ps = params(fn)
    if not ps:
        ck.missing('C15.D3.accepts', '%s(filenames, ...) signature' % q)
        return
    FN = ps[0]

    def nonempty(it, std=None):
        return _holds_elements(fi, it, {FN})

    def atom(node, std):
        at = lambda a: atom(a, std)        # noqa: E731
        if isinstance(node, ast.Compare) and len(node.ops) == 1 and isinstance(node.ops[0], (ast.Eq, ast.NotEq)) and _agreement(fi, node):
            return isinstance(node.ops[0], ast.Eq)
        if isinstance(node, ast.Call):
            return _quantifier_value(fi, node, at, nonempty)
        return None
    w = ClassWalk(fi, atom, nonempty=nonempty)
    _report_accepts(ck, mod, fi, q, [('one or more .npy files of one dtype and one trailing shape', w)], 'files that agree in dtype and trailing shape')


def d_accepts_shared(ck, mod):
    """shared_array_like_trj: the example trajectory's coordinates are
    float32 (mdtraj stores xyz as float32, always)."""
    q = 'shared_array_like_trj'
    fn = mod.func(q)
    fi = finfo(mod, fn)
    ps = params(fn)
    if len(ps) < 2:
        return
    EX = ps[1]

    def atom(node, std):
        if isinstance(node, ast.Compare) and len(node.ops) == 1 and isinstance(node.ops[0], (ast.Eq, ast.NotEq)):
            sides = [u(X(fi, node.left)), u(X(fi, node.comparators[0]))]
            f32 = {'np.float32', 'numpy.float32', "'float32'", "np.dtype('float32')", 'np.dtype(np.float32)'}
            if '%s.xyz.dtype' % EX in sides and (set(sides) & f32):
                return isinstance(node.ops[0], ast.Eq)
        return None
    w = ClassWalk(fi, atom)
    _report_accepts(ck, mod, fi, q, [('an mdtraj trajectory (float32 coordinates)', w)], 'float32 coordinates')


_REPEAT_FORMS = ['[_K] * len(_F)', 'len(_F) * [_K]', '[_K for _T in _F]', '[_K for _T in range(len(_F))]',
                 '[dict(_K) for _T in _F]', '[_K.copy() for _T in _F]', '[dict(_K) for _T in range(len(_F))]',
                 'list(itertools.repeat(_K, len(_F)))', 'list(repeat(_K, len(_F)))']


def d_accepts_concat(ck, mod):
    """load_as_concatenated: the per-file option list that reaches the
    workers, by the way the caller supplied the options, and the lengths that
    size the buffer.  Classes: options as **kwargs / as the `args` list (one
    entry per file) / none; lengths given (one per file) / None."""
    q = 'load_as_concatenated'
    rule = 'C15.D3.parallel.options'
    fn = mod.func(q)
    fi = finfo(mod, fn)
    ps = params(fn)
    if len(ps) < 4 or fn.args.kwarg is None:
        ck.missing(rule, 'load_as_concatenated(filenames, lengths, processes, args, **kwargs) signature')
        return
    FN, L, ARGS = ps[0], ps[1], ps[3]
    KWP = fn.args.kwarg.arg
    from ..cfg import stmt_defs
    kw_rebound = any(KWP in stmt_defs(s) for s in fi.cfg.nodes if isinstance(s, ast.stmt))

    def file_list(name_node, stmt):
        """the name holds the caller's file list (possibly materialised)"""
        if not (isinstance(name_node, ast.Name) and name_node.id == FN):
            return False
        for d in fi.rd.defs_at(stmt, FN):
            if d == 'PARAM':
                continue
            v = fi.def_value(d, FN) if isinstance(d, ast.AST) else None
            if not (isinstance(v, ast.Call) and call_name(v) in ('list', 'tuple') and len(v.args) == 1 and u(v.args[0]) == FN):
                return False
        return True

    def len_of(e):
        return e.args[0] if isinstance(e, ast.Call) and call_name(e) == 'len' and len(e.args) == 1 and not e.keywords else None

    ma = [c for c in calls_in(fn) if isinstance(c.func, ast.Attribute) and c.func.attr in MAPS and c.args and
          WORKER in names_loaded(resolve(fi, c.args[0]) if isinstance(c.args[0], ast.Name) else c.args[0])]
    sa = [c for c in calls_in(fn) if tail(c) == 'shared_array_like_trj']
    if len(ma) != 1 or len(sa) != 1:
        ck.missing(rule, 'the pool map of %s and the call of shared_array_like_trj in %s' % (WORKER, q))
        return
    mstmt, sstmt = fi.stmt(ma[0]), fi.stmt(sa[0])
    results = []
    verdicts = {}        # (kind of finding, site id) -> (site, classes, text)
    n_ok = 0
    for opts in ('kwargs', 'args', 'none'):
        for lens in ('None', 'given'):
            def atom(node, std, opts=opts, lens=lens):
                if isinstance(node, ast.Name):
                    if node.id == KWP and not kw_rebound:
                        return opts == 'kwargs'
                    if node.id == ARGS and std[ARGS] == 'PARAM':
                        return opts == 'args'
                    return None
                if isinstance(node, ast.Compare) and len(node.ops) == 1:
                    a, op, b = node.left, type(node.ops[0]), node.comparators[0]
                    for x, y in ((a, b), (b, a)):
                        if isinstance(x, ast.Name) and isinstance(y, ast.Constant) and y.value is None and op in (ast.Is, ast.IsNot):
                            val = None
                            if x.id == L and std[L] == 'PARAM':
                                val = lens == 'None'
                            elif x.id == ARGS and std[ARGS] == 'PARAM':
                                val = opts != 'args'           # classes 'kwargs' / 'none': args left at its default None
                            if val is not None:
                                return val if op is ast.Is else (not val)
                    la, lb = len_of(a), len_of(b)
                    if la is not None and lb is not None and op in (ast.Eq, ast.NotEq):
                        st = fi.stmt(node)
                        for x, y in ((la, lb), (lb, la)):
                            if not file_list(y, st) or not isinstance(x, ast.Name):
                                continue
                            if (x.id == ARGS and std[ARGS] == 'PARAM' and opts == 'args') or (x.id == L and std[L] == 'PARAM' and lens == 'given'):
                                return op is ast.Eq
                return None
            w = ClassWalk(fi, atom, tracked=(ARGS, L))
            desc = 'options %s, lengths %s' % ({'kwargs': 'as **%s' % KWP, 'args': 'as the `%s` list' % ARGS, 'none': 'absent'}[opts], lens)
            if not w.visited(mstmt):
                w.normal_exit = False
                results.append((desc, w))
                continue
            results.append((desc, w))
            # which option list reaches the workers: all origins the class keeps are of the kind it requires (ok), none
            # is (the true paths are among them: VIOLATION), or the walk could not tell the paths apart (incomplete)
            kinds = []
            for o in w.origins(mstmt, ARGS):
                kind = None
                if o == 'PARAM':
                    kind = 'PARAM'
                elif isinstance(o, ast.Assign):
                    v = fi.def_value(o, ARGS)
                    t = X(fi, v, stop=(KWP, FN)) if v is not None else None
                    for f in _REPEAT_FORMS:
                        b = match(f, t) if t is not None else None
                        if b is not None and u(b['_F']) == FN:
                            k = b['_K']
                            if isinstance(k, ast.Name) and k.id == KWP and not kw_rebound:
                                kind = 'kwargs'
                            elif (isinstance(k, ast.Dict) and not k.keys) or (isinstance(k, ast.Call) and call_name(k) == 'dict' and not k.args and not k.keywords):
                                kind = 'empty'
                            break
                kinds.append((o if isinstance(o, ast.AST) else mstmt, kind))
            want = {'kwargs': ('kwargs',), 'args': ('PARAM',), 'none': ('kwargs', 'empty')}[opts]
            if kinds and all(k in want for _, k in kinds):
                n_ok += 1
            elif kinds and all(k is not None and k not in want for _, k in kinds):
                for site, k in kinds:
                    got = {'PARAM': 'the `%s` argument as passed (None)' % ARGS, 'kwargs': '**%s repeated per file' % KWP, 'empty': 'an empty option dict per file'}[k]
                    verdicts.setdefault(('bad', id(site)), (site, [], got))[1].append(desc)
            else:
                for site, k in kinds:
                    if k is None or k not in want:
                        verdicts.setdefault(('far', id(site)), (site, [], None))[1].append(desc)
            if lens == 'None' and w.visited(sstmt):
                lo = w.origins(sstmt, L)
                if lo == ['PARAM']:
                    verdicts.setdefault(('len', id(sstmt)), (sstmt, [], None))[1].append(desc)
                elif 'PARAM' in lo:
                    verdicts.setdefault(('lenfar', id(sstmt)), (sstmt, [], None))[1].append(desc)
    accepted = _report_accepts(ck, mod, fi, q, results, 'options as **kwargs / per-file list / absent, lengths given / sounded')
    for (k, _), (site, ds, got) in verdicts.items():
        if k == 'far':
            ck.missing(rule, 'which per-file option list `%s` (%s:%s) hands to the workers (classes: %s)'
                       % (u(site)[:80], mod.rel, getattr(site, 'lineno', '?'), '; '.join(ds[:3])))
        elif k == 'lenfar':
            ck.missing(rule, 'whether the lengths that size the buffer at `%s` (%s:%s) are sounded when the caller passes lengths=None'
                       % (u(site)[:60], mod.rel, getattr(site, 'lineno', '?')))
        elif k == 'bad':
            ck.bad(rule, mod, site, q, 'per-file options that reach the workers: %s' % u(site)[:80],
                   'called with %s, the option list zipped with the files for the workers is %s.  The workers load file i with entry i of that '
                   'list (md.load(filename, **load_kwargs)), and the lengths are sounded with its strides: the caller\'s stride / atom_indices / '
                   'top are dropped (or never built), so the result is not the concatenation of the individually loaded (strided, '
                   'atom-selected) trajectories' % ('; '.join(ds[:3]), got))
        else:
            ck.bad(rule, mod, site, q, 'lengths that size the buffer when none are given',
                   'called with lengths=None (%s) the path to `%s` never sounds the files: the buffer is sized from None' % ('; '.join(ds[:3]), u(site)[:80]))
    if not any(k in ('bad', 'len') for k, _ in verdicts) and n_ok:
        ck.ok(rule, mod, mstmt, 'per-file options that reach the workers',
              '**%s -> one copy per file, `%s` list -> as passed, neither -> empty dicts; lengths=None -> sounded (%d classes)' % (KWP, ARGS, n_ok))
    if accepted and not any(k in ('bad', 'len') for k, _ in verdicts):
        ck.floor(rule, n_ok, 3, 'option classes whose option list was recognised')


def d_accepts_h5(ck):
    """load_h5_as_striped on rank r of n (r, n in {(0,1), (0,2), (1,2)}) for a
    file of 1..3 rows, classes where the rank owns at least one row: the key
    and shape lists are bound when read, the root broadcasts what it read, the
    rows returned are those of ra.load for this rank's stripe of the keys."""
    mod = ck.repo.mod(IO)
    q = 'load_h5_as_striped'
    fn = mod.func(q)
    fi = finfo(mod, fn)
    ps = params(fn)
    rule = 'C15.D3.striped'
    if len(ps) < 1:
        ck.missing(rule, '%s(filename, stride) signature' % q)
        return
    FILE = ps[0]
    # roles: the key list (names of the file's nodes), the shape list (one per key)
    KEYS, SHAPES = set(), set()
    assigns = [s for s in walk_local(fn) if isinstance(s, ast.Assign) and len(s.targets) == 1 and isinstance(s.targets[0], ast.Name)]
    for s in assigns:
        sc = single_comp(s.value)
        if sc is not None and not sc[3] and isinstance(sc[2], ast.Call) and tail(sc[2]) == 'list_nodes':
            KEYS.add(s.targets[0].id)
    for s in assigns:
        sc = single_comp(s.value)
        if sc is not None and not sc[3] and isinstance(sc[2], ast.Name) and sc[2].id in KEYS and isinstance(sc[0], ast.Attribute) and sc[0].attr == 'shape':
            SHAPES.add(s.targets[0].id)

    def is_bcast(v):
        return isinstance(v, ast.Call) and tail(v) == 'bcast' and v.args and not isinstance(v.args[0], ast.Starred)
    for role in (KEYS, SHAPES):
        for nm in list(role):
            for s in assigns:
                if s.targets[0].id != nm:
                    continue
                sc = single_comp(s.value)
                if sc is not None:
                    continue
                if not (is_bcast(s.value) and names_loaded(s.value.args[0]) <= {nm, 'mpi'}):
                    role.discard(nm)            # some other value is stored under the name: not the role
    rets = [r for r in returns_of(fn) if isinstance(r.value, ast.Tuple) and len(r.value.elts) == 2 and isinstance(r.value.elts[1], ast.Name)]
    if not KEYS or not rets or len({r.value.elts[1].id for r in rets}) != 1:
        ck.missing(rule, 'the key list read from the file and the `return <lengths>, <data>` of %s' % q)
        return
    LD = rets[0].value.elts[1].id
    tracked = tuple(sorted(KEYS | SHAPES)) + (LD,)
    results = []
    found = {}
    n_src = 0
    for r_, n_ in ((0, 1), (0, 2), (1, 2)):
        for nrows in (1, 2, 3):
            if len(range(r_, nrows, n_)) < 1:
                continue            # a rank that owns no row: C14

            def ival(e, depth=6, r_=r_, n_=n_):
                c = const_value(e)
                if isinstance(c, int) and not isinstance(c, bool):
                    return c
                if isinstance(e, ast.Call) and not e.args and not e.keywords and (call_name(e) or '') in ('mpi.rank', 'rank'):
                    return r_
                if isinstance(e, ast.Call) and not e.args and not e.keywords and (call_name(e) or '') in ('mpi.size', 'size'):
                    return n_
                if isinstance(e, ast.Call) and call_name(e) == 'len' and len(e.args) == 1 and not e.keywords:
                    return cnt(e.args[0], depth)
                return None

            def cnt(e, depth=6, nrows=nrows):
                if depth <= 0:
                    return None
                if isinstance(e, ast.Name):
                    if e.id in KEYS or e.id in SHAPES:
                        return nrows
                    v = _temp(fi, e, need_pure=False)
                    return cnt(v, depth - 1) if v is not None else None
                if isinstance(e, (ast.ListComp, ast.GeneratorExp)) and len(e.generators) == 1 and not e.generators[0].ifs:
                    return cnt(e.generators[0].iter, depth - 1)
                if isinstance(e, ast.Subscript) and isinstance(e.slice, ast.Slice) and e.slice.upper is None:
                    base = cnt(e.value, depth - 1)
                    lo = 0 if e.slice.lower is None else ival(e.slice.lower, depth - 1)
                    stp = 1 if e.slice.step is None else ival(e.slice.step, depth - 1)
                    if base is None or lo is None or stp is None or stp < 1 or lo < 0:
                        return None
                    return len(range(lo, base, stp))
                return None

            def atom(node, std, ival=ival, cnt=cnt):
                if isinstance(node, ast.Compare) and len(node.ops) == 1:
                    a, op, b = node.left, type(node.ops[0]), node.comparators[0]
                    v = _cmp_ints(op, ival(a), ival(b))
                    if v is not None:
                        return v
                    if op in (ast.In, ast.NotIn) and const_value(a) in ('array', 'lengths') and isinstance(b, ast.Name) and b.id in KEYS:
                        return op is ast.NotIn
                    return None
                if isinstance(node, ast.Call) and call_name(node) == 'hasattr' and len(node.args) == 2 and isinstance(node.args[0], ast.Name) and \
                        node.args[0].id == LD and const_value(node.args[1]) == '_data':
                    o = std[LD]
                    v = o.value if isinstance(o, ast.Assign) else None
                    if isinstance(v, ast.Call) and tail(v) == 'load' and call_name(v) in ('ra.load', 'load', 'enspara.ra.load'):
                        k = kwarg(v, 'keys') or (v.args[1] if len(v.args) > 1 else None)
                        c = cnt(k) if k is not None else None
                        return None if c is None or c < 1 else c != 1      # ra.load: a plain array iff exactly one key (C15.D3.exits)
                    if isinstance(v, ast.Call) and (call_name(v) or '') in ('np.zeros', 'np.empty', 'np.ones', 'np.full'):
                        return False
                return None
            w = ClassWalk(fi, atom, tracked=tracked)
            desc = 'rank %d of %d, %d row%s' % (r_, n_, nrows, '' if nrows == 1 else 's')
            results.append((desc, w))
            at0 = lambda a: atom(a, None)        # noqa: E731
            # the root broadcasts what it read
            for s in [x for x in w.states if isinstance(x, ast.stmt)]:
                from ..cfg import header_exprs
                for h in header_exprs(s):
                    for c in walk_expr(h):
                        if not is_bcast(c):
                            continue
                        root = kwarg(c, 'root') or (c.args[1] if len(c.args) > 1 else None)
                        if (ival(root) if root is not None else 0) != r_:
                            continue
                        p = c.args[0]
                        while isinstance(p, ast.IfExp):
                            v = kleene(p.test, at0)
                            if v is None:
                                break
                            p = p.body if v else p.orelse
                        if isinstance(p, ast.Constant) and p.value is None:
                            found.setdefault(('payload', id(c)), (c, [], None))[1].append(desc)
                        elif not isinstance(p, ast.IfExp):
                            found.setdefault(('payload-ok', id(c)), (c, [], None))[1].append(desc)
            # the data returned: the origins the class keeps at the returns are all ra.load (ok), all the empty block
            # (VIOLATION: the true paths are among them), or the walk cannot tell (incomplete)
            kinds = []
            for r in rets:
                for o in w.origins(r, LD):
                    v = o.value if isinstance(o, ast.Assign) else None
                    kind = 'far'
                    if isinstance(v, ast.Call) and tail(v) == 'load' and call_name(v) in ('ra.load', 'load', 'enspara.ra.load'):
                        kind = 'ok'
                    elif isinstance(v, ast.Call) and (call_name(v) or '') in ('np.zeros', 'np.empty') and 'shape' in callargs(v):
                        sh = X(fi, callargs(v)['shape'], pure=False)
                        lead = sh.left if isinstance(sh, ast.BinOp) and isinstance(sh.op, ast.Add) else sh
                        if isinstance(lead, ast.Tuple) and lead.elts and const_value(lead.elts[0]) == 0:
                            kind = 'bad'
                    kinds.append((o if isinstance(o, ast.AST) else r, kind))
            if kinds and all(k == 'bad' for _, k in kinds):
                for site, _k in kinds:
                    found.setdefault(('src-bad', id(site)), (site, [], None))[1].append(desc)
            else:
                for site, k in kinds:
                    found.setdefault(('src-ok' if k == 'ok' else 'src-far', id(site)), (site, [], None))[1].append(desc)
    accepted = _report_accepts(ck, mod, fi, q, results, 'rank 0 of 1, ranks 0 and 1 of 2; 1-3 rows; ranks that own a row')
    for (k, _), (site, ds, _x) in found.items():
        if k == 'payload':
            ck.bad(rule + '.payload', mod, site, q, 'payload of the broadcast on its root: %s' % u(site)[:80],
                   'on the root (%s) the conditional payload of `%s` selects None: every rank receives None instead of the list the root read from the file'
                   % (ds[0], u(site)[:100]))
        elif k == 'payload-ok':
            ck.ok(rule + '.payload', mod, site, u(site)[:100], 'on its root the broadcast sends the value the root read')
        elif k == 'src-ok':
            n_src += 1
            v = site.value
            k_ = kwarg(v, 'keys') or (v.args[1] if len(v.args) > 1 else None)
            f_ = v.args[0] if v.args and not isinstance(v.args[0], ast.Starred) else kwarg(v, 'input_name')
            forms = ['%s[mpi.rank()::mpi.size()]' % K for K in sorted(KEYS)]
            vk = classify(X(fi, k_), forms, scope=KEYS | {'mpi'}) if k_ is not None else ('far', 1, None)
            ck.decide(vk, rule + '.source', mod, site, q, 'keys=%s' % (T(fi, k_)[:80] if k_ is not None else '?'),
                      'a rank that owns rows returns ra.load of its stripe of the keys (rows rank, rank+size, ...)',
                      'the rows a rank loads must be <keys>[mpi.rank()::mpi.size()]: the stripe the global lengths are cut by')
            ck.check(f_ is not None and T(fi, f_) == FILE, rule + '.source', mod, site, q, 'file read by %s' % u(v)[:60],
                     'the rows are read from the file the keys were listed from', 'ra.load must read `%s`, the file whose keys were listed' % FILE)
        elif k == 'src-bad':
            ck.bad(rule + '.source', mod, site, q, 'data returned by a rank that owns rows',
                   'for %s the value returned as data is the empty block `%s`, not the rows of ra.load: the rank owns rows '
                   '(its stripe of the keys is not empty) but returns none of them, next to global lengths that count them' % ('; '.join(ds[:3]), u(site)[:80]))
        elif k == 'src-far':
            ck.missing(rule + '.source', 'where the data returned by %s come from for %s: `%s`' % (q, '; '.join(ds[:2]), u(site)[:80]))
    if accepted and not any(k == 'src-bad' for k, _ in found):
        ck.floor(rule + '.source', n_src, 1, 'ra.load calls that supply the returned rows')


def d_guarded_access(ck):
    """A guard states when an access is defined; taken with the wrong polarity
    the access fails on EVERY execution of that branch: `x.a` where the
    dominating branch condition says `not hasattr(x, 'a')` (AttributeError),
    `d[k]` / `del d[k]` of a dict where it says `k not in d` (KeyError).
    Decided per access from the dominating branch conditions (CFG), for the
    same value of x (no definition / mutation in between)."""
    from ..cfg import header_exprs
    rule = 'C15.D3.guarded-access'
    todo = [(RA, 'save'), (RA, 'load'), (LO, 'load_as_concatenated'), (LO, 'shared_array_like_trj'), (LO, WORKER), (LO, 'sound_trajectory'),
            (IO, 'load_h5_as_striped'), (IO, 'load_npy_as_striped')]
    n = 0
    for rel, q in todo:
        mod = ck.repo.mod(rel)
        fn = mod.functions.get(q)
        if fn is None:
            continue
        fi = finfo(mod, fn)
        stmts = [s for s in fi.cfg.nodes if isinstance(s, ast.stmt)]
        for s in stmts:
            facts = []
            for a in fi.cfg.dom.get(s, ()):
                if not isinstance(a, Assume):
                    continue
                for c in conjuncts(a.test, a.polarity) or []:
                    if isinstance(c, tuple) and c[0] == 'expr':
                        e, pol = c[1], c[2]
                        if isinstance(e, ast.Call) and call_name(e) == 'hasattr' and len(e.args) == 2 and isinstance(e.args[0], ast.Name) and \
                                isinstance(const_value(e.args[1]), str):
                            facts.append(('attr', e.args[0].id, const_value(e.args[1]), pol, a.owner))
                    elif isinstance(c, Cmp) and c.op in (ast.In, ast.NotIn) and isinstance(const_value(c.lhs), str) and isinstance(c.rhs, ast.Name):
                        facts.append(('key', c.rhs.id, const_value(c.lhs), c.op is ast.In, a.owner))
            if not facts:
                continue

            def same(x, owner):
                if fi.rd.defs_at(owner, x) != fi.rd.defs_at(s, x):
                    return False
                for d in stmts:
                    if d is s or d is owner:
                        continue
                    from ..cfg import stmt_defs
                    if x in stmt_defs(d) and fi.cfg.reachable(owner, d, avoiding=[s]) and fi.cfg.reachable(d, s, avoiding=[owner]):
                        return False
                return True
            for h in header_exprs(s):
                for e in walk_expr(h):
                    if isinstance(e, ast.Attribute) and isinstance(e.value, ast.Name) and isinstance(e.ctx, ast.Load):
                        for kind, x, a_, pol, owner in facts:
                            if kind == 'attr' and x == e.value.id and a_ == e.attr and same(x, owner):
                                n += 1
                                ck.check(pol, rule, mod, s, q, '%s.%s under `%shasattr(%s, %r)`' % (x, a_, '' if pol else 'not ', x, a_),
                                         'the attribute is read where the guard says it exists',
                                         'the attribute is read in the branch where hasattr(%s, %r) is FALSE: AttributeError on every execution of `%s`'
                                         % (x, a_, u(s)[:80]))
                    if isinstance(e, ast.Subscript) and isinstance(e.value, ast.Name) and isinstance(e.ctx, (ast.Load, ast.Del)) and \
                            isinstance(const_value(e.slice), str):
                        for kind, x, k_, pol, owner in facts:
                            if kind != 'key' or x != e.value.id or k_ != const_value(e.slice) or not same(x, owner):
                                continue
                            vals = [fi.def_value(d, x) if isinstance(d, ast.AST) else None for d in fi.rd.defs_at(s, x)]
                            is_dict = vals and all(isinstance(v, ast.Dict) or (isinstance(v, ast.Call) and call_name(v) in ('dict', 'OrderedDict')) for v in vals)
                            muts = [m for m in fi._mutated_in_place(x) if m is not s and fi.cfg.reachable(owner, m, avoiding=[s]) and fi.cfg.reachable(m, s)]
                            if not is_dict or muts:
                                continue
                            n += 1
                            ck.check(pol, rule, mod, s, q, '%s[%r] under `%r %sin %s`' % (x, k_, k_, '' if pol else 'not ', x),
                                     'the key is used where the guard says it is present',
                                     'the key is used in the branch where %r is NOT in the dict `%s`: KeyError on every execution of `%s`' % (k_, x, u(s)[:80]))
    # no instance floor: code without such guards has no access to get wrong
    ck.notes.setdefault('instance_floors', {})[rule] = {'found': n, 'floor': 0}


def check(ck):
    mod = ck.repo.mod(RA)
    _part(ck, 'ra.save', d1_keys, mod)
    _part(ck, 'ra.load', d_load, mod)
    _part(ck, 'RaggedArray row view vs flat data', d_rows_current, mod)
    _part(ck, 'row view of loaded multi-dimensional rows', d_load_trailing_dims, mod)
    lo = ck.repo.mod(LO)
    _part(ck, 'sound_trajectory', d_sound, lo)
    _part(ck, 'load_as_concatenated', d_concat, lo)
    _part(ck, 'striped loaders', d_striped)
    _part(ck, 'stride honoured on every path', d_stride_every_path)
    _part(ck, 'loaders read the file on every call', d_fresh_reads)
    _part(ck, 'ra.load accepts well-formed files', d_accepts_load, mod)
    _part(ck, 'load_npy_as_striped accepts well-formed files', d_accepts_npy)
    _part(ck, 'shared_array_like_trj accepts mdtraj coordinates', d_accepts_shared, lo)
    _part(ck, 'option normalisation of load_as_concatenated', d_accepts_concat, lo)
    _part(ck, 'load_h5_as_striped per rank', d_accepts_h5)
    _part(ck, 'accesses under hasattr / membership guards', d_guarded_access)
    return EXPLANATION
